# Single source for MANIFEST.json / parts.json (run ./gen_manifest.py after editing).

ENGINES = [
    {"name": "choice-dfs", "path": "harness/vcore/src/choice.rs", "serves_properties": [],
     "kind_free_text": "stateless deviation-bounded DFS over choice sequences of executions of the real code (CHESS-style iterative context bounding), parallel"},
    {"name": "STEP", "path": "harness/vcore/src/step.rs", "serves_properties": [],
     "kind_free_text": "await-granularity cooperative scheduler polling real API futures; every backend call is one scheduling point (ctlstore gate)"},
    {"name": "ctlstore", "path": "harness/vcore/src/ctlstore.rs", "serves_properties": [],
     "kind_free_text": "controllable ObjectStore: journal, gate, crash-at-k, scripted ambiguous answers, snapshot/restore for journal-prefix crash states"},
    {"name": "SCOPE", "path": "harness/*/src/bin", "serves_properties": ["C03"],
     "kind_free_text": "bounded-exhaustive input enumeration against a reference model"},
]

NOTES = ("All checks run the real Rust code of /repo (path dependencies, feature `verif`) under a harness-owned environment; "
         "the deciding step is exhaustive enumeration within the bounds reported in each evidence file. "
         "Exit 2 = machinery failure, never a verdict. known_findings.json lists recorded defects and fixed ones.")

NOT_APPLICABLE = {}

CHECKS = {
    "C03": {
        "level": "exploration",
        "engine": "SCOPE",
        "technique": "bounded-exhaustive enumeration of filter trees x limits x entry points on the real Collection, compared with a set-algebra reference model",
        "design_ref": "DESIGN.md 5/C03",
        "text": "Every filter tree up to depth 3 (range-level and filter-level combinators, all leaf kinds incl. inverted Between and duplicate/empty Include) over _id and four B-tree indexes of two small collections whose key order is de-correlated from id order is evaluated through query_all_ids, query_ids, query_last_ids and search_ids for every limit in {None,0..n+1,MAX+1}, and compared for exact equality with the set-algebra model; search+filter is compared with the relevance order restricted to the model set. Exhaustive below the stated bounds, which is the right level for a universal statement over filter shapes: the one defect it found (fixed) needed only a depth-1 filter on de-correlated data.",
        "note": "Small-scope hypothesis: 5-6 live documents, constants from each index's boundary set, composites of depth 2/3 over a deterministic representative stride of operands. The model re-states the documented key derivation (null skipped, arrays expanded).",
        "parts": [
            {"part": "scope", "crate": "vdb", "bin": "c03", "budget_quick": 40, "budget_thorough": 900},
        ],
    },
}

# Single source for MANIFEST.json / parts.json (run ./gen_manifest.py after editing).

ENGINES = [
    {"name": "choice-dfs", "path": "harness/vcore/src/choice.rs", "serves_properties": [],
     "kind_free_text": "stateless deviation-bounded DFS over choice sequences of executions of the real code (CHESS-style iterative context bounding), parallel"},
    {"name": "STEP", "path": "harness/vcore/src/step.rs", "serves_properties": [],
     "kind_free_text": "await-granularity cooperative scheduler polling real API futures; every backend call is one scheduling point (ctlstore gate)"},
    {"name": "ctlstore", "path": "harness/vcore/src/ctlstore.rs", "serves_properties": [],
     "kind_free_text": "controllable ObjectStore: journal, gate, crash-at-k, scripted ambiguous answers, snapshot/restore for journal-prefix crash states"},
    {"name": "SCOPE", "path": "harness/*/src/bin", "serves_properties": ["C03"],
     "kind_free_text": "bounded-exhaustive input enumeration against a reference model"},
]

NOTES = ("All checks run the real Rust code of /repo (path dependencies, feature `verif`) under a harness-owned environment; "
         "the deciding step is exhaustive enumeration within the bounds reported in each evidence file. "
         "Exit 2 = machinery failure, never a verdict. known_findings.json lists recorded defects and fixed ones.")

NOT_APPLICABLE = {}

CHECKS = {
    "C03": {
        "level": "exploration",
        "engine": "SCOPE",
        "technique": "bounded-exhaustive enumeration of filter trees x limits x entry points on the real Collection, compared with a set-algebra reference model",
        "design_ref": "DESIGN.md 5/C03",
        "text": "Every filter tree up to depth 3 (range-level and filter-level combinators, all leaf kinds incl. inverted Between and duplicate/empty Include) over _id and four B-tree indexes of two small collections whose key order is de-correlated from id order is evaluated through query_all_ids, query_ids, query_last_ids and search_ids for every limit in {None,0..n+1,MAX+1}, and compared for exact equality with the set-algebra model; search+filter is compared with the relevance order restricted to the model set. Exhaustive below the stated bounds, which is the right level for a universal statement over filter shapes: the one defect it found (fixed) needed only a depth-1 filter on de-correlated data.",
        "note": "Small-scope hypothesis: 5-6 live documents, constants from each index's boundary set, composites of depth 2/3 over a deterministic representative stride of operands. The model re-states the documented key derivation (null skipped, arrays expanded).",
        "parts": [
            {"part": "scope", "crate": "vdb", "bin": "c03", "budget_quick": 40, "budget_thorough": 900},
        ],
    },
}

CHECKS["C01"] = {
    "level": "fault_enumeration",
    "engine": "HIST + CRASH (ctlstore journal-prefix replay)",
    "technique": "exhaustive crash-point enumeration: every journal prefix of every workload to the depth bound, nested over every prefix of the recovery's own writes, plus every single ambiguous-failure answer, on the real database",
    "design_ref": "DESIGN.md 5/C01, 2.1, 2.5",
    "text": "Every workload (all op sequences to depth 3 quick / 4 thorough over add, rejected add, update, remove, flush, save_extension, compaction, clean reopen, index creation/removal in the open callback) is recorded once over a journalling store; for EVERY prefix k of its backend mutations the store content is rebuilt, a fresh process recovers (connect + open with the same callback), and the recovered state is compared with the acknowledgement model (per-document candidate images: acknowledged ops in effect, the in-flight op all-or-nothing, nothing undecodable), with the full C02 index<->document comparison, with the unique constraints, and with a continuation (add + flush + clean reopen; a flushed id is never reused); then recovery itself is crashed at every strict prefix of its own writes and the same oracle applied. A second pass answers every single backend mutation of every workload with 'landed but error returned'. Thorough runs the three backends InMemory / MetaStore / EncryptedStore. Exhaustive inside the bound, which is what 'any crash point of any workload' needs; the repo's test samples one workload, no nested crash, one backend.",
    "note": "Crash model = the repo's own FaultStore model (each backend mutation atomic; a sequence stops anywhere). Concurrent sub-writes of one flush (try_join over indexes) are explored in the single order the deterministic executor produces, not in all downward-closed cuts. Workloads deeper than the bound are not claimed.",
    "parts": [
        {"part": "crash", "crate": "vdb", "bin": "c01_crash", "budget_quick": 35, "budget_thorough": 1500},
    ],
}

CHECKS["C02"] = {
    "level": "model_checking",
    "engine": "HIST",
    "technique": "explicit enumeration of all operation histories to a depth bound on the real Collection, full index<->document comparison against a BTreeMap model",
    "design_ref": "DESIGN.md 5/C02, 2.4",
    "text": "Every history of length <= 3 (quick) / <= 5 as far as the budget allows (thorough) over a 28-operation alphabet (accepted and rejected add/update/remove incl. to/from null, array, wildcard-map (key set replaced / emptied) and text fields, flush, B-tree and BM25 compaction, clean reopen, index create+backfill and index removal through the open callback) runs on a fresh database; each call's result is compared with the sequential model, and after the last step every index is compared with the stored documents in both directions (Eq/Ge/Lt probes at every model key, every key the index lists and boundary constants; every vocabulary term in BM25; HNSW element count and dead/duplicate ids; ids/len/contains/get/stats), on the live handle and again after flush + clean reopen. Crash-recovered states get the same comparison inside the C01 check. Exhaustive below the depth bound: phantoms and holes depend on the order of update/rollback steps across three index families, which is exactly what enumerating all short histories covers.",
    "note": "Documents from 6 templates / 14 update templates over one schema (unique scalar, duplicate scalar, optional, array, unique array, wildcard map indexed by its keys, text, vector). HNSW is checked for soundness (no dead or duplicate id, exact element count), not for recall.",
    "parts": [
        {"part": "hist", "crate": "vdb", "bin": "c02_hist", "args": ["--property", "C02"], "budget_quick": 30, "budget_thorough": 1500},
    ],
}

CHECKS["C04"] = {
    "level": "model_checking",
    "engine": "HIST + STEP + CRASH + THREAD",
    "technique": "exhaustive history enumeration, exhaustive preemption-bounded interleaving enumeration of contending writers at await granularity (Collection) and at lock granularity (unique BTreeIndex, real OS threads under a controlled scheduler), exhaustive crash-prefix enumeration; all against a sequential model",
    "design_ref": "DESIGN.md 5/C04",
    "text": "hist: every history to depth 3 (quick) / 5 (thorough, as far as the budget allows) over 19 operations contending for one unique scalar value, one unique array element and one multi-field tuple (accepted writes, rejections by uniqueness / schema / unknown field / missing document, removals that release a value, flush, reopen): every rejected call must leave the complete observable state (documents + every index, C02 comparison) equal to the model's unchanged state, and the value must become insertable exactly when the model says so. step: every pair (preemption bound 2) and triple (bound 1; thorough 3/2 and quadruples at 1) of concurrent writers from a 10-operation contention alphabet, all interleavings of their backend-call steps; exactly the results and final state of some sequential order are accepted, so two winners, a leaked posting or a lost release are violations. crash: every crash prefix (and nested recovery prefix, and ambiguous failure) of every workload to depth 3 over a 10-operation contention alphabet: the recovered documents never share a unique name, a unique array element or the multi-field tuple, and the recovered indexes agree with them.",
    "note": "thread: 19 templates of 2-3 OS threads on a UNIQUE BTreeIndex (two inserts of one value, insert vs remove, owner remove vs owner re-insert, release vs contender incl. full bucket and compaction, insert_array mixes), every interleaving of their lock-protected sections with <= 3 preemptions (thorough up to 6): returns and final contents (also after flush+load and compact+flush+load) equal some sequential order, at most one owner per value at every step. Await-granularity schedules for the Collection; lock-granularity for the index; weak-memory reorderings of Relaxed atomics are not modelled. Values drawn from a 2-3 value contested alphabet.",
    "parts": [
        {"part": "hist", "crate": "vdb", "bin": "c02_hist", "args": ["--property", "C04"], "budget_quick": 25, "budget_thorough": 1200},
        {"part": "step", "crate": "vdb", "bin": "c05_step", "args": ["--property", "C04"], "budget_quick": 15, "budget_thorough": 900},
        {"part": "crash", "crate": "vdb", "bin": "c01_crash", "args": ["--property", "C04"], "budget_quick": 15, "budget_thorough": 900},
        {"part": "thread", "crate": "vthread", "bin": "c04_thread", "budget_quick": 15, "budget_thorough": 300},
    ],
}

CHECKS["C05"] = {
    "level": "model_checking",
    "engine": "STEP (choice-DFS + ctlstore gates) + THREAD (lock-granularity schedules of the synchronous extension API)",
    "technique": "stateless exhaustive exploration of all await-level interleavings up to a preemption bound (CHESS-style) of 2..4 concurrent calls on the real Collection, plus all lock-granularity schedules up to a preemption bound of 2..3 OS threads in the synchronous extension calls, each execution decided by a linearizability search against the sequential model",
    "design_ref": "DESIGN.md 5/C05, 2.2",
    "text": "Every subset of 2 (preemption bound 2) and 3 (bound 1) concurrent calls — thorough: 2@3, 3@2, 4@1, 3@3 — from {add x2, update same document different fields x3, update other document, remove x2 of one document, remove other, get, save_extension, flush} runs on a collection preloaded with two flushed documents over a store that makes every backend call a scheduling point before it takes effect; all schedules within the bound are enumerated and for each the return values and the final documents, indexes and counts must equal those of some order of the calls that respects real-time order per document. Deadlock and non-termination are violations. The deciding step is exhaustive enumeration of schedules, which is the only way to close windows a few instructions wide (doc-lock stripes, operation gate, versioned put, cache generations). thread: the synchronous extension calls (set_extension_with, set_extension_from_with, set_extension, get_extension, extensions_with) never await, so 15 templates of 2..3 real OS threads on the same 1..2 keys (increment vs increment, compare-and-set races, set vs increment vs get, two keys vs a whole-map snapshot) are run one thread at a time with a yield point inside every caller closure and a visible wait on the real metadata lock before every acquisition; all schedules up to 3 preemptions (thorough: up to 8) are enumerated and every call/return history with its return values must be linearizable against a plain map, the final extensions must equal that order and be what flush + reconnect reads back.",
    "note": "Single-threaded executor: code between two suspension points is atomic (the property's own quantifier); OS-thread parallelism inside the index calls is explored by the THREAD parts of C04/C10/C11, inside the synchronous extension calls by this check's thread part; OS-thread parallelism inside the async calls between two awaits is not explored. The property's 'randomized multi-threaded executions' are sampling and are not built. The state a concurrent flush persisted is recovered by a fresh process from the store content captured when the flush returned: per document an image of some prefix of the accepted order that contains every call returned before the flush began (per-document images, not one global prefix), indexes agreeing with the recovered documents.",
    "parts": [
        {"part": "step", "crate": "vdb", "bin": "c05_step", "args": ["--property", "C05"], "budget_quick": 35, "budget_thorough": 1500},
        {"part": "thread", "crate": "vthread", "bin": "c05_thread", "budget_quick": 8, "budget_thorough": 600},
    ],
}

CHECKS["C06"] = {
    "level": "model_checking",
    "engine": "STEP (choice-DFS + ctlstore gates + task-attributed journal)",
    "technique": "exhaustive enumeration of cancellation points (every poll count of every mutating API) and of preemption-bounded interleavings of lifecycle transitions with in-flight/queued operations on the real database, decided on the task-attributed backend mutation journal",
    "design_ref": "DESIGN.md 5/C06",
    "text": "cancel: each of 14 mutating APIs (add, update x2, remove, flush, save/remove_extension, compact x2, reconcile, close, close_collection, delete_collection, database close; clean and dirty collection) is dropped after k polls for every k up to completion: a handle that stays Active must have changed nothing in storage or memory; any other state must reject all ten mutating APIs with zero writes, also after set_read_only(false); reopening through the same database must satisfy the C01/C02 oracles with the cancelled call all-or-nothing; a cancelled delete must be retryable and leave nothing. race: each of 6 transitions (close, close_collection, delete_collection, database close, collection and database read-only switch) against every set of 1 (preemption bound 2) or 2 (bound 1) operations — thorough up to 3 — with every schedule enumerated; because every backend mutation is attributed to its issuing task, 'no write after close/delete returned', 'no write and no acceptance by a call that was queued or not started when the read-only switch took effect', 'delete leaves nothing and nothing is recreated' are checked on the journal itself.",
    "note": "Await granularity. Operations of one race set touch different documents so that 'blocked before the first backend call' means queued for admission. Index creation/removal as cancelled calls are covered only through the reopen callback in C01/C02, not as cancellation targets.",
    "parts": [
        {"part": "step", "crate": "vdb", "bin": "c06_step", "budget_quick": 35, "budget_thorough": 1500},
    ],
}

CHECKS["C08"] = {
    "level": "fault_enumeration",
    "engine": "CRASH (ctlstore journal-prefix replay) + STEP (choice-DFS over inner-store calls)",
    "technique": "exhaustive crash-prefix enumeration of every operation sequence to a length bound on both wrappers, plus exhaustive preemption-bounded interleaving enumeration of collect_garbage against in-process writers, on the real anda_object_store code",
    "design_ref": "DESIGN.md 5/C08",
    "text": "crash: every sequence of <= 3 (quick) / 4 (thorough) operations over 13 choices (put, multipart, copy, rename in both target modes, delete, collect_garbage) on two keys, both wrappers (EncryptedStore at chunk size 16), from 4 start states plus legacy pre-0.10 / sealed-legacy layouts; for every inner-store journal prefix inside the last operation a cold wrapper must read every key (get, ranged get, get_ranges, head, list) as exactly the old or the new value, a rename never loses both ends, no unknown key is listed; garbage collection is then run (after a clock jump) and itself crashed after each of its own mutations, recovery puts must read back, and every operation is re-run from the crash state against the model. step: collect_garbage racing one or two writers (put, multipart complete, copy, delete, rename) under every schedule up to the preemption bound, from start states that already contain garbage, with the writer's generation on both sides of the GC floor and writers on the collector's own or a second instance: no referenced or in-flight payload is reclaimed, after every single mutation every commit point's payload exists, live and cold reads agree, the outcome is explained by a real-time-consistent order of commit micro-steps.",
    "note": "Crash state = journal prefix (atomic, ordered backend mutations). Logical clock from the verif feature. Foreign-instance writers start after GC captured its floor (documented contract). Sequences longer than the bound, more than two keys, >2 concurrent writers and pair schedules beyond preemption bound 2 are not claimed.",
    "parts": [
        {"part": "crash", "crate": "vgc", "bin": "c08_crash", "budget_quick": 26, "budget_thorough": 900},
        {"part": "step", "crate": "vgc", "bin": "c08_step", "budget_quick": 16, "budget_thorough": 600},
    ],
}

CHECKS["C07"] = {
    "level": "model_checking",
    "engine": "HIST (explicit-state search over call histories vs InMemory) + STEP",
    "technique": "explicit-state enumeration of object-store call histories on both wrappers compared step by step with the reference InMemory store, plus exhaustive interleaving enumeration of concurrent callers per key",
    "design_ref": "DESIGN.md 5/C07",
    "text": "hist: histories CORE*.FULL over keys {a, a/b, c}: CORE = 72 ops (every put mode and token role, multipart complete/abort, every copy and rename pair in both modes incl. self and missing source, delete), FULL = 123 ops (plus every payload size around the chunk size and every multipart split); MetaStore and EncryptedStore at chunk sizes {1,7,16} (+64 KiB thorough); quick = depth 2 exhaustive + depth 3 from one representative of each of 400 distinct depth-2 states, thorough = depth 3 exhaustive, 4-5 with state dedup; a two-instance phase (22 ops on 2 keys, every op issued through long-lived instance A or B, all assignments: mutation answers, the CAS/create rule and token freshness must equal the single reference) and exhaustive token-flow phases (3 keys to depth 3, 2 keys to depth 4: overwrite, Update latest/stale, every copy incl. self-copy, rename, delete); after each history the read battery (get, head, every GetRange kind at every boundary, get_ranges, if_match/if_none_match lists and *, date conditions and their precedence, three listings) runs on the live (warm cache) and a fresh (cold cache) instance and must equal InMemory's result class and bytes; Update succeeds iff the token is the latest commit's, Create iff absent; no token value ever repeats across commits or keys (run-wide set). step: 16 scenarios x both wrappers of 2-3 concurrent callers on one key (incl. list racing put / copy-onto / multipart / Update on a cold key, with a post-race battery through the same live instance) over a store where every backend call is a scheduling point before its effect AND after it (response in flight), all schedules (preemption bound 3 quick / 8 thorough - the enumeration is complete, levels run empty at 6-8): answers + final content equal some serial order of atomic steps on InMemory (rename = copy then delete, as documented).",
    "note": "Reference = object_store 0.14.1 InMemory with three counted normalisations (delete of a missing key, its self-rename, the error variant for Update without e_tag). Two recorded deviations (known findings): get_ranges past the end, double overtake NotFound. Not covered: GetOptions.version, attributes/tags, a second long-lived instance with a stale cache.",
    "parts": [
        {"part": "hist", "crate": "vstore", "bin": "c07_hist", "budget_quick": 45, "budget_thorough": 1100},
        {"part": "step", "crate": "vstore", "bin": "c07_step", "budget_quick": 8, "budget_thorough": 200},
    ],
}

CHECKS["C09"] = {
    "level": "fault_enumeration",
    "engine": "SCOPE (tamper-site enumeration) + HIST (leak/nonce scan)",
    "technique": "exhaustive single-site tamper enumeration (every bit, truncation, extension, swap, pointer and CBOR field edit) against every read path of the real EncryptedStore; exhaustive history enumeration with a byte scan of everything the backend ever received",
    "design_ref": "DESIGN.md 5/C09",
    "text": "tamper (e_tag and last_modified are part of the verdict; a compound downgrade family: every subset of {av,an,at,g,m} stripped x legacy object absent / own / foreign ciphertext x size edits, default and strict mode): 24 scenarios (sizes {0,1,15,16,17,35} x {put, multipart, copy, rename} at chunk size 16; two generations of one key, a same-size and a different-size neighbour key): all 8 bit flips of every byte of every backend object, every truncation length, extensions, every chunk swap, every swap/replacement of payload objects across keys and generations, metadata swaps between keys, ~90 CBOR-level edits per metadata document (strip/zero each authentication field, re-point the generation); each site read through a fresh store (get, every boundary range, get_ranges, head, list; CBOR edits also in strict mode): every read returns exactly the original bytes/size or an error. leak: every history to depth 2 (thorough 3) of the C07 alphabet through EncryptedStore over a journalling store: no 8-byte plaintext window in any object version the backend ever received, every chunk opens under the harness's own AES-GCM with nonce n+index, no nonce - chunk nonces and the seal nonce of every metadata document version in one run-wide set - is used twice over different data.",
    "note": "Cryptographic strength of AES-GCM and RNG quality are assumptions. Single-site tampers only (multi-site are probes without verdict); chunk size 16; e_tag/last_modified in head/list are soft counters.",
    "parts": [
        {"part": "tamper", "crate": "vstore", "bin": "c09_tamper", "budget_quick": 30, "budget_thorough": 900},
        {"part": "leak", "crate": "vstore", "bin": "c09_leak", "budget_quick": 8, "budget_thorough": 400},
    ],
}

CHECKS["C12"] = {
    "level": "fault_enumeration",
    "engine": "HIST + CRASH over the real HnswIndex and the anda_db wrapper; recall over a declared seed set",
    "technique": "exhaustive history enumeration and exhaustive flush-write-prefix enumeration on the real HNSW index against a brute-force nearest-neighbour model; recall floors over a declared finite seed set and every crash prefix of the persistence workload",
    "design_ref": "DESIGN.md 5/C12",
    "text": "hist: every history of <= 3 ops (thorough 4) over {insert a|b, remove, re-insert same/different vector, flush+load} on 7 vectors x 2 variants (incl. duplicate, opposite, zero), 4 metrics x 2 selection strategies x reconnect on/off x dims {2,8} plus a sweep over every dimension 2..64; after each history every stored and 3 out-of-distribution queries, k = 1..n+1, f32 and bf16 entry points: at most k results, distinct, live, distance-ordered, each distance equal to the metric recomputed in f64 from the documented formula, element count exact. crash: every prefix of the node/ids/metadata (and purge) writes of the final flush of every history to depth 2-3: the image loads, is sound immediately (old or new vector until the metadata write), after the database's recovery step (intent replay + repair scan transcription) and after a second flush+load. wrapper: the same through anda_db::index::Hnsw over Storage over the journalling store incl. purge_orphan_node_blobs. interleave: one mutation (insert of a new id / remove of a live id) issued from INSIDE every write closure of a flush (before each node write, before ids, before metadata), i.e. after the flush's snapshot and before its commit, for every history to depth 1-2: the image up to the metadata write loads to exactly the pre-mutation state; after flushing to quiescence + load the soundness oracle, the counts and self-query reachability (reachable before the round trip => reachable after) hold. recall: the documented workloads of tests/recall.rs (generators and tie rule verbatim) per declared layer seed (quick {1,2}, thorough 1..16) hold their floors on fresh / deleted+re-inserted / reloaded indexes, and for the persistence workload at every one of the 594 crash prefixes of the incremental flush after re-indexing the 64 unflushed documents. Configurations include the layer cap: hist and crash run a layercap stage (tight graph, max_layers 1-2, thorough also 3-4 with scale_factor 3) in which the number of histories that actually reach the cap layer is a measured counter, so generator/validator agreement on the top layer is exercised before every flush + load and crash prefix. wrapper additionally enumerates read faults of the reopen: for every completely flushed image each object-store call of Hnsw::bootstrap (metadata, ids, every node blob, the orphan-sweep listing) fails once, an erroring reopen is retried, and a reopen that reports success must hold every flushed vector (oracle + element count + self-reachability no worse than a fault-free reopen), also after a further flush + reopen.",
    "note": "Recall is a statistic: exhaustive only over the declared seed set and crash prefixes. Entry-point tie-breaks follow papaya's RandomState order (not controllable). Single-threaded index use; no nested crash during recovery of the vector index alone (C01 covers that at collection level).",
    "parts": [
        {"part": "hist", "crate": "vhnsw", "bin": "c12_hist", "budget_quick": 15, "budget_thorough": 900},
        {"part": "crash", "crate": "vhnsw", "bin": "c12_crash", "budget_quick": 18, "budget_thorough": 500},
        {"part": "recall", "crate": "vhnsw", "bin": "c12_recall", "budget_quick": 20, "budget_thorough": 300},
        {"part": "wrapper", "crate": "vhnsw", "bin": "c12_wrapper", "budget_quick": 8, "budget_thorough": 300},
        {"part": "interleave", "crate": "vhnsw", "bin": "c12_interleave", "budget_quick": 10, "budget_thorough": 600},
    ],
}

CHECKS["C13"] = {
    "level": "exploration",
    "engine": "SCOPE (type grammar x boundary values x single mutations)",
    "technique": "bounded-exhaustive enumeration of the FieldType grammar to depth 4, of boundary-covering valid values and of every single mutation of them, through both write entries and the stored CBOR form, against the documented validity contract",
    "design_ref": "DESIGN.md 5/C13",
    "text": "roundtrip: every FieldType to depth 2 (226 types), depth 3 (1,452 quick / 103,292 thorough) and depth 4 (1,330 / 8,962) incl. tuple and heterogeneous arrays, wildcard and keyed maps with Text/I64/Bytes keys; per type boundary-covering valid values and every single mutation (each node swapped with 27 alien values, array drop/append, each map key removed, extra keys, complexity budget at limit and limit+1), written by Document::set_field, by Document::set_field_as (typed, field by field) and by Document::try_from of a typed wrapper, validated, encoded to the stored CBOR, decoded, normalised by try_from_doc: accepted implies reads back valid and bit-equal in the declared variant (typed round trip equal), invalid implies rejected at write, nothing panics. derive: 11 AndaDBSchema structs + 3 FieldTyped structs + Resource covering every Rust type and attribute the macros infer, every boundary row round-tripped, 26 one-defect offers rejected. upgrade: all chains of <= 3 (thorough 4) upgrades over 3 top-level names and 2 nested keys in states absent / required T / Option(T) / Option(T'): every document written under every earlier version reads back under every permitted later version with unchanged surviving fields. collection: 1,678 shapes through Collection::add/get with zstd level 0 and 3, close, reopen, get.",
    "note": "From depth 3 on only three valid values per type are mutated in quick (stated in the evidence). Json slots given non-Json variants and NaN in untyped arrays are neither required nor forbidden to be accepted; if accepted they must round-trip. The JSON (human-readable) read-back form, Arc/Rc fields and #[cbor(key)] are not covered. Two recorded defects (vector in an untyped slot; nested key re-added with another type).",
    "parts": [
        {"part": "roundtrip", "crate": "vschema", "bin": "c13_roundtrip", "budget_quick": 35, "budget_thorough": 900},
        {"part": "derive", "crate": "vschema", "bin": "c13_derive", "budget_quick": 5, "budget_thorough": 60},
        {"part": "upgrade", "crate": "vschema", "bin": "c13_upgrade", "budget_quick": 8, "budget_thorough": 400},
        {"part": "collection", "crate": "vschema", "bin": "c13_collection", "budget_quick": 6, "budget_thorough": 200},
    ],
}

CHECKS["C10"] = {
    "level": "model_checking",
    "engine": "HIST + CRASH + THREAD on the real BTreeIndex",
    "technique": "explicit-state search over operation histories with state dedup against an ordered-multimap model; exhaustive flush crash-state enumeration (prefixes, bucket-put subsets, delete subsets, single write failures); exhaustive preemption-bounded interleavings of real OS threads at lock granularity",
    "design_ref": "DESIGN.md 5/C10, 2.3",
    "text": "hist: level-by-level search over histories of BTreeIndex<u64,String> and <u64,u64> with 64-byte buckets, unique and non-unique, 65 ops (insert/remove over 3 ids x 4 keys incl. one long key, insert_array/remove_array incl. duplicate and empty arrays, batch_update, compact_buckets, flush, flush+load_all), quick depth 4 on a 45-op alphabet / 3 on all 65 / 8 on a focused bucket-migration alphabet, plus starts from fabricated legacy manifest-less layouts; after each history return values and uniqueness errors vs BTreeMap<K,BTreeSet<u64>>, a query battery, then flush + load_all + the same battery; per distinct model state the deep battery: keys(cursor,limit) for all cursors x limits, prefix queries with every stop position, every RangeQuery tree (depth 2 quick / 3 thorough) in both directions with the callback stopping at every position. crash: for the flush of every kept state (first, incremental, after compaction, after load, legacy) every linear prefix of bucket puts -> manifest put -> obsolete deletes, every subset of the bucket puts without the commit, commit + every subset of the deletes: load_all equals the last committed or the interrupted model as a whole; 5 follow-up ops from each crash state; every write position failed once and the flush retried. thread: 2-3 OS threads x 1-2 ops (insert, remove, insert_array, compact_buckets) on overlapping keys and shared tiny buckets, every interleaving with <= 3 preemptions (thorough to 6): returns and contents (after flush+load) equal some sequential order, nothing lost or duplicated, no deadlock.",
    "note": "Object puts/deletes atomic. Dedup key = (model, committed model, public flags, canonical durable objects); in-memory bucket size estimates are not in it. Yield points sit before every lock acquisition of the mutators (cfg verif); sequential consistency assumed (Relaxed atomics not reordered).",
    "parts": [
        {"part": "hist", "crate": "vindex", "bin": "c10_hist", "budget_quick": 25, "budget_thorough": 600},
        {"part": "crash", "crate": "vindex", "bin": "c10_crash", "budget_quick": 18, "budget_thorough": 420},
        {"part": "thread", "crate": "vthread", "bin": "c10_thread", "budget_quick": 15, "budget_thorough": 300},
    ],
}

CHECKS["C11"] = {
    "level": "model_checking",
    "engine": "HIST + CRASH + THREAD on the real BM25Index",
    "technique": "explicit-state search over operation histories with state dedup against a naive inverted index built with the same tokenizer; exhaustive flush crash-state enumeration; exhaustive preemption-bounded interleavings of real OS threads at lock granularity",
    "design_ref": "DESIGN.md 5/C11, 2.3",
    "text": "hist: 49 ops on BM25Index (insert ids 1-4 x 6 texts incl. repeats, re-insert, AlreadyExists, tokenizer failure, remove with original and with non-original text, purge_ids, compact, flush, flush+load) with 32-byte buckets (thorough also 20 B and the default), quick depth 4 on 30 ops / 3 on 49; after each history counters (len, per-id token count, average length bit-exact), every term search and boolean shapes; per distinct model state: all boolean trees to depth 2 (thorough 3) via try_search_advanced, identical repeat, top-k is a prefix of top-(k+1) for k in 0..n+1, 12 BM25 parameter sets incl. NaN, +-inf, negative, f32::MAX: id sets equal the model's set algebra, scores finite and >= 0, order (score desc, id asc). crash: every prefix / subset crash state and every single write failure of every reachable flush loads as exactly the last commit or the interrupted flush. thread: insert / remove / purge_ids / compact_buckets on shared terms and tiny buckets, 2-3 threads, every interleaving with <= 3 preemptions (thorough to 5): returns, search results, counters and the flush+load image equal some sequential order.",
    "note": "Documents of 1-3 tokens over a 4-word vocabulary plus one fixed 4-word scenario. Score VALUES are not compared (only finite, >= 0, ordered). Five recorded findings (stale posting after remove with non-original text + re-insert; multi-word score sum in random HashMap order; three same-id concurrency shapes at index level); one repaired (purge_ids unlist TOCTOU).",
    "parts": [
        {"part": "hist", "crate": "vindex", "bin": "c11_hist", "budget_quick": 25, "budget_thorough": 600},
        {"part": "crash", "crate": "vindex", "bin": "c11_crash", "budget_quick": 18, "budget_thorough": 420},
        {"part": "thread", "crate": "vthread", "bin": "c11_thread", "budget_quick": 15, "budget_thorough": 300},
    ],
}

CHECKS["C14"] = {
    "level": "model_checking",
    "engine": "HIST (BFS over control-plane histories) + SCOPE (complete request matrix per state)",
    "technique": "breadth-first explicit-state search over control-plane event histories of the real server (merged by canonical control state), with the complete route x method x principal x encoding x target request matrix evaluated at every state through the real router over a journalling store",
    "design_ref": "DESIGN.md 5/C14",
    "text": "hist: BFS over {create A/B with or without key, set_api_key, remove_api_key, close, open, connect, restart} from three roots (admin key; loopback; admin + A(key) + B(key)) to depth 2 (quick) / 8 (thorough, exhaustive: 1,213 states); at every state the full matrix: GET /, POST /, POST to 11 target spellings (A, B, percent-encoded, with query string, missing, primary, bad name, encoded slash, path-only) x every method of both dispatch tables (scraped from api/mod.rs at build time and cross-checked) + 3 unknown names x minimal/malformed params + 6 body probes x CBOR/JSON x principals {none, garbage, malformed header, admin, every issued or revoked token, an unissued one, the hash of the bound key}, each state replayed in four worlds (rejected cells; key holder on its own db; a twin world where only the other database differs; admin): every rejected response is byte-identical to the same caller's request for a nonexistent database, is 401/403 and causes no store call (never 400/404/413/415 first); the key holder's store calls stay under its prefix; no response contains the other database's name, data, tokens, hashes or instance state; answers are byte-identical in the twin world; an admin dump of the other database and server state is unchanged by every mutating cell. faults: in every control state to depth 1 (thorough 3) every writing control-plane event (create with/without key, set_api_key incl. the server-generated-key form, remove_api_key, close, open, connect) with each of its backend mutations answered ErrBefore and ErrAfter once: afterwards every credential (none, garbage, issued, revoked, mentioned, unissued) on every target, live and after a restart, is answered as in the model state before OR after the event, never a third state. hist additionally: constructed near-miss credentials per key (digest agreeing in the first/last 1-2 bytes, prefix/extension, hex of the hash), the generated-key form of db.set_api_key as event and as request, a restart lookahead and a restart WITHOUT admin key at every state (must be refused while any binding exists). reads: every Read-classified method x 12 lifecycle states x {admin, key holder} x {CBOR, JSON} on a fresh server with the method as the first request touching the database: zero journalled mutations. faults additionally demands: an event that answered an error with zero landed backend mutations leaves exactly the BEFORE state; the live instance and the gracefully restarted one are the same model state for every binding event (db.close is exempt: a failed registry write closes the database live and reopens it on restart, the documented contract of close_db); a fault-free retry of the faulted event that is acknowledged 2xx holds live and after a power failure (store content restored without graceful close). race: exhaustive 2-task schedules (3 orders: event first / request headers accepted and body pending while the event runs / request first) of one request against one control event in every control state to depth 1 (thorough 3): the request body is a hand-fed stream on a single-threaded runtime, so 'headers passed the middleware, handler not yet run' is a deterministic await point; credentials {none, garbage, admin, every issued, revoked, to-be-bound, unissued} x targets {/, /A, /B, /missing} x {Read, Mutating}; in-flight requests must be rejected if the credential is rejected before OR after the event and served only if both allow it; rejected = byte-identical to the same caller's answer for a nonexistent database and no store mutation after the event returned.",
    "note": "One request at a time (no concurrent key rotation); observable = status, headers, body, store journal - no timing. Effect labels come from the source text of the parse tables. Recorded finding: in the lifecycle state 'cold collection with crash residue' the first Read-classified request runs recovery and flushes (11 method signatures).",
    "parts": [
        {"part": "hist", "crate": "vserver", "bin": "c14_hist", "budget_quick": 30, "budget_thorough": 1200},
        {"part": "reads", "crate": "vserver", "bin": "c14_reads", "budget_quick": 8, "budget_thorough": 300},
        {"part": "faults", "crate": "vserver", "bin": "c14_faults", "budget_quick": 6, "budget_thorough": 300},
        {"part": "race", "crate": "vserver", "bin": "c14_race", "budget_quick": 6, "budget_thorough": 300},
    ],
}

CHECKS["C15"] = {
    "level": "exploration",
    "engine": "SCOPE (all strings over an alphabet; grammar-derived sentences; single-token mutants; metamorphic variants)",
    "technique": "bounded-exhaustive input enumeration against the real parsers in supervised child processes (256 KiB stack, 5 s watchdog): every string over an 18-symbol alphabet to length 5/6, every grammar sentence to derivation depth 3/4 with every single-token mutant and metamorphic variant, nesting and length limit probes",
    "design_ref": "DESIGN.md 5/C15",
    "text": "sigma: every string over the 18-symbol alphabet up to length 5 (2.0 M strings; thorough 6 = 36 M) through parse_kip/kql/kml/meta/json. limits: nesting towers at total depth 63, 64, 65, 200, 10^4 (thorough to 10^5) for each bracket kind raw, inside strings and inside comments, 16 nesting constructs, 9 lexical tricks against the bracket pre-scan, 7 bracket-free operator towers, 14 paddings at MAX-1/MAX/MAX+1 bytes: over-limit (by an independent count) is refused with ResourceExhausted by all five entry points, brackets in strings/comments leave the command unchanged. grammar: an each-choice walk of the KIPSyntax.md grammar (7,906 sentences quick, 12,114 thorough, all accepted) x metamorphic variants (compact rendering, trivia at every token gap incl. comments holding quotes and brackets, every keyword in other casings) that must give an equal AST x every single-token mutant (delete, duplicate, swap, truncate, splice of foreign tokens): no panic / overflow / >5 s parse; parse_kip agrees with the three specific parsers; accepted => validate_command ok, re-parses identically, trailing garbage refused, serde_json round trip equal. strings: bounded-exhaustive enumeration of the string-literal lexer's input classes: all single, paired and tripled \\u escapes over the UTF-16 class boundaries (first/last high, first/last low, neighbouring BMP code points, escaped quote/backslash), all truncations and misspellings, all simple escapes, both hex casings, three positions, on each of the 28 grammar positions that read a quoted string plus unquote_str (50,316 cases), against an independent UTF-16 reference decoder: malformed => refused, well-formed and accepted => the tree equals the placeholder tree with the reference decode substituted; built with arithmetic overflow checks on (probed at run time and recorded).",
    "note": "Inputs beyond the alphabet/length and derivation depth are not claimed; each-choice coverage of grammar alternatives rather than the full product. Recorded finding: accepted trees nested deeper than ~41/59 do not survive a JSON decode.",
    "parts": [
        {"part": "sigma", "crate": "vkip", "bin": "c15_sigma", "budget_quick": 14, "budget_thorough": 600},
        {"part": "limits", "crate": "vkip", "bin": "c15_limits", "budget_quick": 8, "budget_thorough": 120},
        {"part": "grammar", "crate": "vkip", "bin": "c15_grammar", "budget_quick": 30, "budget_thorough": 900},
        {"part": "strings", "crate": "vkip", "bin": "c15_strings", "budget_quick": 6, "budget_thorough": 60},
    ],
}

CHECKS["C16"] = {
    "level": "exploration",
    "engine": "SCOPE (complete clause x target x block x field x spelling matrix; JSON tree injection; grammar corpus) + independent AST walker",
    "technique": "complete enumeration of the clause/target/block/field/spelling matrix and of single-node edits of accepted trees, each accepted command inspected by an independent walker over anda_kip::Command that re-states the forbidden shapes from the specification",
    "design_ref": "DESIGN.md 5/C16",
    "text": "matrix: 29 clause contexts (incl. UPDATE ?t under 21 target bindings, also inside MUTATE) x 9 blocks x 26 field names (protected, immutable-payload, ordinary) x 7 spellings x 3 positions x 2 values, BELIEF targets (6 forms x 6 positions x 11 statements), 20 MATCH shapes, 15 bare-id creations, plans of 1-3 clauses (16 templates x 13 handle graphs: unbound, doubly bound, forward, cyclic), ASSERT with every member subset against an expansion model of spec 55.1: 221 k texts, 166 k accepted trees walked (thorough 792 k). inject: every JSON node of accepted seed trees edited (about 60 forbidden elements pushed into every array, strings/nulls replaced, tagged values swapped for unbound references, members deleted/renamed) -> serde -> validate_command -> walker (414 k edits quick, 5.3 M thorough). corpus: the walker over every accepted KML/EXPORT sentence and single-token mutant of the C15 grammar corpus. The walker uses exhaustive matches over MutationClause/UpdateAction/WhereClause/MetaCommand (a new variant fails the build) and calls no guard function of the repository.",
    "note": "The forbidden shapes are the walker's restatement of SPECIFICATION.md; a direct :id / \"id\" target has no kind visible in the text, so payload rewrite there is statically undecidable and not flagged. Two recorded findings (UPDATE payload guard uses the first binding: UNION branch / decoy binding); one repaired (unbound ENSURE endpoint handle).",
    "parts": [
        {"part": "matrix", "crate": "vkip", "bin": "c16_matrix", "budget_quick": 15, "budget_thorough": 300},
        {"part": "inject", "crate": "vkip", "bin": "c16_inject", "budget_quick": 8, "budget_thorough": 200},
        {"part": "corpus", "crate": "vkip", "bin": "c16_corpus", "budget_quick": 15, "budget_thorough": 600},
    ],
}

CHECKS["C17"] = {
    "level": "model_checking",
    "engine": "HIST (statement histories on the real Nexus, differential dump oracle) + STEP (reader || writer over a gated store)",
    "technique": "explicit enumeration of KML statement histories executed through the real parser and executor with a full-observable-state differential oracle; exhaustive preemption-bounded interleaving enumeration of one writer against one reader at store-call granularity",
    "design_ref": "DESIGN.md 5/C17",
    "text": "hist: all sequences to depth 2 (quick) / 3 (thorough, as far as the budget allows) of 36 statement templates x {commit, options.dry_run, PREVIEW KML} from an empty and a seeded space: single and multi-clause blocks with forward references, UPSERT/ENSURE hit and miss, failing EXPECT guards, a failing clause first/middle/last, the same tuple ENSUREd twice, the same key created or upserted twice, dangling references, unauthorized principals, parser refusals, lifecycle statements. The DUMP is everything a query, meta command or historical read can observe: KQL over every kind and state incl. pending, counts, beliefs and slots pinned FOR TIME, DESCRIBE/LIST/HISTORY/CHANGES/SNAPSHOT/SEARCH, transaction and element probes, AS OF reads at every journalled sequence (only the space sequence counter masked). Refused / dry / previewed => dump before == dump after; committed => one fresh sequence, one journal row, every changed element's version +1 exactly once, unchanged elements keep theirs; one element per tuple and one concept per (type,key) after every step. step: a multi-row writer (three commits, a dry run, PREVIEW, a statement refused at commit) against a reader issuing 12 read commands, every schedule with <= 1 preemption (thorough 3): each read sees the before- or the after-answer and never goes back. step additionally: 14 single-command probe scenarios (two multi-kind commits - Concept + Evidence + Activity in one MUTATE, five new rows - each crossed with DESCRIBE PRIMER, SEARCH CONCEPT, SEARCH COGNITION, HISTORY SPACE, CHANGES and two KQL controls): every observation of the probe must equal its before-commit or after-commit answer in every schedule.",
    "note": "The dump is the observable surface; the governance audit (host API only) is outside it. PURGE only as a refused statement; capsule import, retention side effects and idempotency keys are not covered. Five defects found and repaired (see known_findings.json fixed).",
    "parts": [
        {"part": "hist", "crate": "vnexus", "bin": "c17_hist", "budget_quick": 40, "budget_thorough": 900},
        {"part": "step", "crate": "vnexus", "bin": "c17_step", "budget_quick": 25, "budget_thorough": 300},
    ],
}

CHECKS["C18"] = {
    "level": "model_checking",
    "engine": "HIST (committed histories on the real Nexus; live recording vs AS OF replay)",
    "technique": "explicit enumeration of committed statement histories; a query battery recorded live at every sequence number and replayed AS OF SEQ / TX / TIME after every later statement, compared field for field",
    "design_ref": "DESIGN.md 5/C18",
    "text": "Committed histories from a seeded space over 13 step kinds (create, rename, facet decay, structural relink, archive, tombstone, retract, supersede, merge, functional assert, reject, schema-activation toggle, creation under the new schema): quick = depth 2 over the whole alphabet + depth 3 over 6 mutation-kind representatives (356 histories), thorough = depth 3 complete, depth 4 as far as the budget allows. After every commit a 38-query battery (element, tuple, structural, path, belief and slot patterns pinned FOR TIME, filters, aggregates) plus 2 META reads is recorded live; after the last statement every recording is replayed AS OF SEQ (whole battery) and AS OF TX / AS OF TIME (whole-kind queries + META) and must equal the recording; assertion and evidence payloads are compared across all version rows. The battery is also replayed bound only through read.snapshot_token (a SNAPSHOT is taken at every point) and every comparison includes the response context's schema_environment_version; it contains hop-quantified path walks in every anchoring (forward chain, backward from a bound object, backward from a fixed object, both ends, unpinned {2}, COUNT over a backward walk) over a rel chain, and STRUCTURAL patterns with pinned source, pinned target, bound source and COUNT over two structural sources; the later-history alphabet archives and merges those sources and archives/extends the chain. Answers that differ only in order are their own violation class (as-of-differs-in-order).",
    "note": "Commit timestamps are wall-clock milliseconds: in quick the AS OF TIME replay is done only where unambiguous. Historical SEARCH is unsupported by the engine. Two defects found and repaired.",
    "parts": [
        {"part": "hist", "crate": "vnexus", "bin": "c18_hist", "budget_quick": 40, "budget_thorough": 900},
    ],
}

CHECKS["C19"] = {
    "level": "model_checking",
    "engine": "HIST/SCOPE (control-plane action sequences x principals x query battery, relational check between two executions) + command enumeration",
    "technique": "explicit enumeration of governance configurations reachable by control-plane action sequences on the real Nexus; per configuration and principal the implementation's decision matrix is compared with an independent AuthModel and every battery answer with the owner's answer on a second Nexus holding only what the principal may read (non-interference as a relation between two executions); complete enumeration of protected-field positions x spellings for the command language",
    "design_ref": "DESIGN.md 5/C19",
    "text": "nonint: all control-plane action sequences (owner, two principals, one group) to depth 2 + new AuthModel states to depth 3 (quick; thorough 3 / 4: 25,371 configurations) over 19 (24) actions: grants scoped by kind / type / classification / element, classification ceiling, field mask, expired grant, write grant, group grant, delegation and re-delegation, two policies with allow + deny and a condition, revoke grant, revoke delegation, suspend; every prefix is its own configuration, so the battery runs after EVERY control action (immediacy). Per configuration and principal: AuthModel decision == EffectiveAuthority::authorize over 15 permissions x 15 resources; the read battery (40 quick / 64 thorough commands: lookups, patterns, indexed matchers, COUNT/aggregates, tuples/paths, ORDER BY/FILTER on masked fields, OPTIONAL/NOT/UNION, LIMIT+CURSOR, AS OF, SEARCH + paging, HISTORY/CHANGES, DESCRIBE, LIST, EXPORT, PREVIEW KML) as the principal on the full store must equal the owner's answers on a second store holding only what AuthModel lets the principal read with masked fields left out (rows, order, counts, cursors kept; ids mapped to logical keys); plus a taint check (no name/id/token of an unreadable element anywhere) and PREVIEW existence-neutrality. commands: 27 field-name positions across the clause families x 16 protected-field spellings, as text and as pre-parsed ast, ordinary mutations of all 16 clause families (also as PREVIEW / VALIDATE / dry run), 28 control-plane look-alike statements, 27 reads, for owner / broad writer / restricted reader: the 8 gov_* collections, every element's governance column and the space's authority members are byte-identical before and after every command (audit rows may only be appended). The principal set includes a co-owner and two-Grant delegators (a delegator holding a broad and a narrow delegable Grant and a Delegation listing the narrowly held action with the broad bounds); the relational read battery, including Epistemic Projection under every block nesting, is answered once per distinct resolved authority. writes: per-clause write authorization of multi-clause statements - a principal holding read/create/update unscoped and a second bundle (tombstone, archive, manage_retention, purge, merge_identity, maintain) narrowed by kind / element / classification / not at all sends each narrowed family alone and in blocks with UPDATE or UPSERT in both orders, three-clause and two-target blocks (196 statements) on an element the narrowing reaches and one it does not; the reference authorizes each clause separately from the gate's permission table, and where it refuses the statement must be refused with every element row byte-identical afterwards. step: STEP scheduler over a gated store with three tasks - the owner's KML statement, the agent's request (KML write or KQL read) and the host's control-plane change (revoke Grant, suspend Principal, revoke Delegation, revoke the delegator's Grant, publish a denying policy version) - all schedules with <=1 preemption (thorough <=2); the agent must be refused exactly where its request can only have executed after the change returned (the change returned before the agent was first polled, or the owner held the write lock ahead of the agent and the change completed before the owner did); other schedules may see either authority; always: the agent's Concept exists iff it was allowed.",
    "note": "AuthModel restates the documented decision order. One fixed population of 9 elements; no approvals, purposes, max_results, multiple spaces; KML error codes as an existence channel only probed through PREVIEW. Eight root causes (16 signatures) recorded as known findings, none repaired (governance semantics).",
    "parts": [
        {"part": "nonint", "crate": "vgov", "bin": "c19_nonint", "budget_quick": 30, "budget_thorough": 1500},
        {"part": "commands", "crate": "vgov", "bin": "c19_cmd", "budget_quick": 8, "budget_thorough": 60},
        {"part": "writes", "crate": "vgov", "bin": "c19_write", "budget_quick": 4, "budget_thorough": 30},
        {"part": "step", "crate": "vgov", "bin": "c19_step", "budget_quick": 25, "budget_thorough": 600},
    ],
}

CHECKS["C20"] = {
    "level": "exploration",
    "engine": "SCOPE (assertion multisets x every recording order through the real executor) + independent BeliefModel",
    "technique": "bounded-exhaustive enumeration of assertion multisets and of every recording order / interleaving of ASSERT, RETRACT and SUPERSEDE through the real executor, compared with a connected-components reference model and across orders; eligibility enumerated separately (it is decided per row)",
    "design_ref": "DESIGN.md 5/C20",
    "text": "grouping: multisets of assertions over 3 actors x 8 evidence subsets x 3 stances x confidence {unstated, .3, .6, .9, 0.0, 1.0} on a plain and on a functional predicate with one rival value, EVERY recording order of each multiset: n <= 1 all 864 letters under three threshold sets; n = 2 one structure pair per actor/evidence renaming class x all stance and confidence pairs (thorough: all multisets); n = 3 146 renaming classes x stance patterns, all 6 orders (thorough: all 2,600 structure multisets x 27 stance patterns); n = 4 160 classes x all 24 orders (thorough: all 17,550 multisets x 24 orders); thorough n = 5 98,280 multisets in two orders. Each history is checked against the model (union-find over actors and evidence ids, per-group max confidence, score 1 - prod(1 - max_c) in exact arithmetic, exact thresholds), across orders, across the four ways of asking (BELIEF (?p), triple, id:, BELIEF SLOT) and by re-projection after unrelated writes; the laws 'repetition never adds a group / never raises a score unless more confident' and 'scores monotone in a group maximum' are checked between every pair of run multisets differing by one element or one confidence. eligibility: 4 lifecycles x 6 modes x 7 validity windows (both boundaries) x 3 stances on plain / functional own value / functional rival value, alone and next to each of 9 witness assertions in every statement interleaving, projected at 3 evaluation times x 6 policies: ineligible rows count for nothing and are listed as excluded; no eligible assertion => insufficient, never rejected; the answer names its policy. Read-coordinate dimension: the same recorded histories are projected at now and at the snapshot taken right after they were recorded, bound both by AS OF SEQ and by read.snapshot_token, both while that snapshot is still the head and after later writes about unrelated subjects made it a past coordinate; nothing about the projected subjects is written after the snapshot, so BeliefModel's answer is identical at every coordinate, and the historical reads are additionally compared with the read at now; batches of 8 subjects share the functional predicate so a conflict set leaking across subjects shows as foreign assertion ids or as rejected where the model says insufficient.",
    "note": "Quick n >= 2 (and all functional n >= 3 stages) use one representative per actor/evidence renaming class, sound if actors and evidence ids matter only through equality (the thorough plain stages run all multisets). Single space, one rival value, no AS OF, no archived/tombstoned rows. The quantifier's 'randomized beyond' part is sampling and is not built. One recorded finding (a fully grounded BELIEF over a never-stored proposition returns zero rows, not insufficient).",
    "parts": [
        {"part": "grouping", "crate": "vbelief", "bin": "c20_grouping", "budget_quick": 30, "budget_thorough": 1080},
        {"part": "eligibility", "crate": "vbelief", "bin": "c20_eligibility", "budget_quick": 22, "budget_thorough": 420},
    ],
}

#!/usr/bin/env python3
"""Prints the prompt for a mutation sub-agent: only the property text + its scratch worktree."""
import json, sys
pid = sys.argv[1]
n = sys.argv[2] if len(sys.argv) > 2 else "3"
p = next(json.loads(l) for l in open('/verif/properties.jsonl') if json.loads(l)['id'] == pid)
anch = p['anchors']
files = ", ".join(anch.get('files', []))
mech = "\n".join(f"  - {m['name']} ({m['where']})" for m in anch.get('mechanism', []))
print(f"""You are testing how well a hidden verification suite detects regressions. Work ONLY inside your own scratch git worktree `/tmp/mut-{pid}/repo` (a detached worktree of the Rust repository ldclabs/anda-db: embedded database for AI agents — object-store-backed document collections with BTree, BM25 and HNSW indexes, a KIP query-language parser and a knowledge-graph executor). Never touch `/repo` or `/verif` (do not even read /verif). The sandbox is offline; build with `cargo ... --offline`; to keep build times down use `cargo test -p <crate> --offline` for the crates you touch rather than the whole workspace, and set `CARGO_TARGET_DIR=/tmp/mut-{pid}/target`.

PROPERTY {pid}: {p['title']}
Statement: {p['statement']}
Quantifier: {p['quantifier']['text']}
Code it is anchored in: {files}
Mechanisms that uphold it:
{mech}

TASK: produce {n} DIFFERENT realistic changes to the repository source (not to tests), each of which BREAKS this property while (a) the code still compiles, and (b) the repository's existing tests still pass (run at least the test suites of every crate you touch plus crates that depend on them and exercise the changed code; say exactly what you ran). Prefer changes that need something specific to manifest — a particular interleaving, a crash or fault at a particular point, a multi-step sequence of operations, an unusual input, or two cooperating sites that each look fine alone — NOT ones that ordinary use would expose at once. Think like a plausible regression: a re-check dropped, two writes reordered, a cursor advanced before reserving, an off-by-one at a boundary, a guard armed too late, a field left out of authenticated data, a rollback that forgets one index, a comparison with the wrong strictness. Each change should be small (a few lines) and touch only `rs/**/src/**` (no test files, no Cargo.toml). The changes should exercise different mechanisms from the list above, not variations of one.

For EACH change i = 1..{n} deliver under `/tmp/mut-{pid}/out/<i>/`:
  - `patch.diff`: output of `git diff` for the source change only (must apply with `git apply` on a clean checkout of your worktree's HEAD);
  - a DEMONSTRATION: a new integration test file (e.g. `rs/<crate>/tests/mut_demo_<i>.rs`) or a small example program, saved as `demo.rs` together with `demo_path.txt` containing the repository-relative path where it must be placed, that FAILS with the change applied and PASSES without it (run it both ways and record both outputs briefly in `notes.md`). The demonstration may use only public APIs plus whatever test utilities the repo already ships (e.g. its fault-injection store); deterministic if at all possible (if it needs a particular interleaving, construct it deterministically, e.g. with a custom ObjectStore wrapper that parks a call, rather than by timing);
  - `notes.md`: what the change is, which part of the property it breaks, what it needs in order to manifest, exactly which existing test commands you ran with the change applied and their pass/fail summary.
Always restore your worktree to a clean state between changes (`git checkout -- . && git clean -fd`). If a candidate change turns out to be caught by the existing tests, discard it and find another. When done, reply with a short table: change, mechanism, what it needs to manifest, existing tests run, demo result with/without.""")

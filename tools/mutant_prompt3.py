#!/usr/bin/env python3
"""Round-3 prompt for a mutation sub-agent: property text + scratch worktree + the first lines of earlier rounds' notes (to avoid repeats)."""
import json, sys, os, glob, subprocess
pid = sys.argv[1]
tag = "c" + pid[1:].lower() + "c"
base = subprocess.run(["python3", "/verif/tools/mutant_prompt.py", pid, "3"], stdout=subprocess.PIPE, text=True).stdout
base = base.replace(f"/tmp/mut-{pid}/repo", f"/tmp/mut3-{pid}/repo").replace(f"/tmp/mut-{pid}/out", f"/tmp/mut3-{pid}/out")
base = base.replace(f"and set `CARGO_TARGET_DIR=/tmp/mut-{pid}/target`.", "and export `CARGO_TARGET_DIR=/tmp/mut-target CARGO_INCREMENTAL=0 CARGO_PROFILE_DEV_DEBUG=0 CARGO_PROFILE_TEST_DEBUG=0` in every cargo command (the target dir is SHARED with other jobs to save disk: never delete it, expect 'waiting for file lock' pauses, never run `cargo clean`).")
prior = []
for d in sorted(glob.glob(f"/verif/seeded/{pid}-*")):
    n = os.path.join(d, "notes.md")
    if os.path.exists(n):
        lines = [l.strip() for l in open(n) if l.strip() and not l.startswith("#")]
        prior.append("  - " + " ".join(lines[:2])[:420])
print(base)
print(f"""IMPORTANT (shared target dir): use a PRIVATE cargo profile for every cargo command: `cargo --config 'profile.{tag}.inherits="dev"' --config 'profile.{tag}.debug=0' test --profile {tag} ...` (artifacts then go to /tmp/mut-target/{tag}/), and sanity-check that the test names that ran are yours. Use `-j 5`. Some source files carry `anda_db_utils::verif_point!` / `verif_wait!` lines and `#[cfg(feature = "verif")]` blocks: they are inert instrumentation — leave those lines in place (a change may move code around them but should keep one before each lock acquisition it keeps or adds).

THIRD ROUND: the following changes were already collected in earlier rounds — do NOT repeat them or close variants of them; look for changes in OTHER functions / other mechanisms / other entry points / other clauses of the property statement (first lines of each earlier change's notes):
""" + "\n".join(prior))

#!/bin/bash
# tools/mut_setup.sh <round> <PID> : scratch worktree + out dir for one mutation sub-agent
set -euo pipefail
R="$1"; P="$2"; D="/tmp/mut$R-$P"
mkdir -p "$D/out"
[ -d "$D/repo" ] || git -C /repo worktree add --detach "$D/repo" HEAD >/dev/null
cp /repo/Cargo.lock "$D/repo/Cargo.lock" 2>/dev/null || true
echo "$D/repo"

#!/bin/bash
# Runs a check against a *scratch copy* of /repo so that experiments (seeded
# property-breaking changes) never touch /repo itself.
#
#   tools/scratch_check.sh <scratch-name> init            create/refresh /tmp/vs-<name>/repo (git worktree of /repo HEAD)
#   tools/scratch_check.sh <scratch-name> apply <patch>   git apply a patch inside the scratch repo
#   tools/scratch_check.sh <scratch-name> revert          git checkout -- . && git clean -fd in the scratch repo
#   tools/scratch_check.sh <scratch-name> check <ID> [--tier quick|thorough]
#   tools/scratch_check.sh <scratch-name> destroy         remove worktree, harness copy and build output
#
# The harness is rsynced from /verif/harness on every `check`, with its path
# dependencies rewritten to the scratch repo, and built in /tmp/vs-<name>/target.
set -euo pipefail
name="$1"; cmd="$2"; shift 2
S="/tmp/vs-$name"
case "$cmd" in
  init)
    mkdir -p "$S"
    if [ ! -d "$S/repo" ]; then git -C /repo worktree add --detach "$S/repo" HEAD >/dev/null; fi
    git -C "$S/repo" checkout -q --detach "$(git -C /repo rev-parse HEAD)"
    cp /repo/Cargo.lock "$S/repo/Cargo.lock" 2>/dev/null || true
    echo "$S/repo"
    ;;
  apply)
    git -C "$S/repo" apply "$1"
    ;;
  revert)
    git -C "$S/repo" checkout -- . && git -C "$S/repo" clean -fdq -e Cargo.lock
    ;;
  check)
    mkdir -p "$S/out/evidence" "$S/harness"
    rsync -a --delete --exclude target /verif/harness/ "$S/harness/"
    sed -i "s#/repo/rs#$S/repo/rs#g" "$S/harness/Cargo.toml"
    sed -i "s#/verif/target#$S/target#g" "$S/harness/.cargo/config.toml"
    cp /verif/known_findings.json "$S/out/known_findings.json"
    VERIF_HARNESS="$S/harness" CARGO_TARGET_DIR="$S/target" VERIF_ROOT="$S/out" /verif/check "$@"
    ;;
  destroy)
    git -C /repo worktree remove --force "$S/repo" 2>/dev/null || true
    rm -rf "$S"
    git -C /repo worktree prune
    ;;
  *) echo "unknown command $cmd"; exit 2;;
esac

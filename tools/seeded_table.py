#!/usr/bin/env python3
"""Prints the markdown table of independently produced seeded changes (/verif/seeded/*/meta.json)."""
import json, glob, os, re
rows = []
for d in sorted(glob.glob('/verif/seeded/C*-*')):
    mp = os.path.join(d, 'meta.json')
    if not os.path.exists(mp):
        continue
    m = json.load(open(mp))
    what = ''
    np_ = os.path.join(d, 'notes.md')
    if os.path.exists(np_):
        txt = open(np_).read()
        lines = [l.strip() for l in txt.splitlines() if l.strip() and not l.startswith('#')]
        what = re.sub(r'\s+', ' ', ' '.join(lines[:2]))[:230]
    diffstat = ''
    pp = os.path.join(d, 'patch.diff')
    if os.path.exists(pp):
        files = sorted(set(re.findall(r'^\+\+\+ b/(\S+)', open(pp).read(), re.M)))
        diffstat = ', '.join(os.path.basename(f) for f in files)
    caught = ', '.join(m.get('caught_by', [])) or 'MISSED'
    rows.append((os.path.basename(d), 'yes' if m.get('confirmed') else 'no', diffstat, caught, what))
print('| seeded change | confirmed | files | caught by (quick tier) | what it is (from the sub-agent\'s notes) |')
print('|---|---|---|---|---|')
for r in rows:
    print('| ' + ' | '.join(x.replace('|', '\\|') for x in r) + ' |')

#!/bin/bash
# Confirms one sub-agent mutant independently and evaluates our checks on it.
#   tools/confirm_mutant.sh <PROPERTY> <i> [extra check ids...]
# Input : /tmp/mut-<PROPERTY>/out/<i>/{patch.diff,demo.rs,demo_path.txt,notes.md}
# Output: /verif/seeded/<PROPERTY>-<i>/{patch.diff,demo.rs,demo_path.txt,notes.md,meta.json,*.log}
# Steps (all in the scratch worktree /tmp/vs-conf-<PROPERTY>, never in /repo):
#   1. demo passes on the clean tree          2. patch applies and compiles
#   3. demo fails with the patch              4. the touched crate's existing tests still pass with the patch
#   5. our quick checks (<PROPERTY> + extras) report a VIOLATION on the patched tree
set -uo pipefail
P="$1"; SRC="$2"; ONAME="$3"; I="${ONAME##*-}"; shift 3
EXTRA=("$@")

NAME="conf2-$P"
S="/tmp/vs-$NAME"
OUT="/verif/seeded/$ONAME"
mkdir -p "$OUT"
cp "$SRC/patch.diff" "$SRC/demo.rs" "$SRC/demo_path.txt" "$OUT/" 2>/dev/null
cp "$SRC/notes.md" "$OUT/notes.md" 2>/dev/null
/verif/tools/scratch_check.sh "$NAME" init >/dev/null
/verif/tools/scratch_check.sh "$NAME" revert
R="$S/repo"
export CARGO_TARGET_DIR="/tmp/conf-rtarget" CARGO_INCREMENTAL=0 CARGO_PROFILE_DEV_DEBUG=0 CARGO_PROFILE_TEST_DEBUG=0
DEMO_PATH="$(tr -d '\n\r ' < "$SRC/demo_path.txt")"
CRATE="$(echo "$DEMO_PATH" | sed -E 's#^rs/([^/]+)/.*#\1#')"
KIND="$(echo "$DEMO_PATH" | sed -E 's#^rs/[^/]+/([^/]+)/.*#\1#')"
TNAME="$(basename "$DEMO_PATH" .rs)"
FEAT=(); if grep -q 'feature = "verif"' "$SRC/demo.rs"; then FEAT=(--features verif); fi
if [ "$KIND" = "examples" ]; then DEMOCMD=(cargo run -j 8 --offline -p "$CRATE" "${FEAT[@]}" --example "$TNAME"); else DEMOCMD=(cargo test -j 8 --offline -p "$CRATE" "${FEAT[@]}" --test "$TNAME"); fi
mkdir -p "$(dirname "$R/$DEMO_PATH")"; cp "$SRC/demo.rs" "$R/$DEMO_PATH"
( cd "$R" && "${DEMOCMD[@]}" ) > "$OUT/demo_clean.log" 2>&1; DEMO_CLEAN=$?
APPLY=0; ( cd "$R" && git apply "$SRC/patch.diff" ) > "$OUT/apply.log" 2>&1 || APPLY=1
( cd "$R" && "${DEMOCMD[@]}" ) > "$OUT/demo_patched.log" 2>&1; DEMO_PATCHED=$?
rm -f "$R/$DEMO_PATH"
TOUCHED="$(grep -E '^\+\+\+ b/rs/' "$SRC/patch.diff" | sed -E 's#^\+\+\+ b/rs/([^/]+)/.*#\1#' | sort -u | tr '\n' ' ')"
SUITE=0
for c in $TOUCHED; do
  ( cd "$R" && cargo test -j 8 --offline -p "$c" ) > "$OUT/suite_$c.log" 2>&1 || SUITE=1
done
unset CARGO_TARGET_DIR
declare -A RES
for id in "$P" "${EXTRA[@]}"; do
  /verif/tools/scratch_check.sh "$NAME" check "$id" --tier quick > "$OUT/check_$id.log" 2>&1; RES[$id]=$?
done
/verif/tools/scratch_check.sh "$NAME" revert
CHECKS_JSON="{"; for id in "${!RES[@]}"; do CHECKS_JSON+="\"$id\": ${RES[$id]},"; done; CHECKS_JSON="${CHECKS_JSON%,}}"
tail -c 600 "$OUT/demo_patched.log" > "$OUT/demo_patched.tail"; tail -c 300 "$OUT/demo_clean.log" > "$OUT/demo_clean.tail"
python3 - "$P" "$I" "$DEMO_CLEAN" "$APPLY" "$DEMO_PATCHED" "$SUITE" "$CHECKS_JSON" "$TOUCHED" "$OUT" "$(git -C /repo rev-parse --short HEAD)" <<'EOF'
import json, sys, os
P, I, dc, ap, dp, su, checks, touched, out, head = sys.argv[1:]
checks = json.loads(checks)
confirmed = dc == "0" and ap == "0" and dp != "0" and su == "0"
meta = {
  "breaks_property": P, "index": int(I), "repo_head": head,
  "confirmed": confirmed,
  "confirmation": {"demo_passes_on_clean_tree": dc == "0", "patch_applies": ap == "0",
                   "demo_fails_with_patch": dp != "0", "existing_tests_of_touched_crates_pass_with_patch": su == "0",
                   "touched_crates": touched.split(),
                   "ran": ["demo on clean tree", "git apply patch.diff", "demo on patched tree",
                           "cargo test --offline -p <each touched crate> on patched tree",
                           "tools/scratch_check.sh check <id> --tier quick on patched tree"]},
  "our_checks_exit_codes": checks,
  "caught_by": [k for k, v in checks.items() if v == 1],
  "needs_to_manifest": "see notes.md (written by the independent sub-agent)",
}
json.dump(meta, open(os.path.join(out, "meta.json"), "w"), indent=1)
print(json.dumps(meta))
EOF
# keep logs small
for f in "$OUT"/*.log; do tail -c 4000 "$f" > "$f.t" && mv "$f.t" "$f"; done

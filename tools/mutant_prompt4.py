#!/usr/bin/env python3
"""Round-4 prompt for a mutation sub-agent: property text + scratch worktree + the first lines of earlier rounds' notes (to avoid repeats).
Usage: mutant_prompt4.py <PID> [n]   (worktree /tmp/mut4-<PID>/repo must exist: tools/mut_setup.sh 4 <PID>)"""
import json, sys, os, glob, subprocess
pid = sys.argv[1]
n = sys.argv[2] if len(sys.argv) > 2 else "3"
rnd = os.environ.get("MUT_ROUND", "4")
rnd = os.environ.get("MUT_ROUND", "4")
tag = "c" + pid[1:].lower() + ("d" if rnd == "4" else "e")
base = subprocess.run(["python3", "/verif/tools/mutant_prompt.py", pid, n], stdout=subprocess.PIPE, text=True).stdout
base = base.replace(f"/tmp/mut-{pid}/repo", f"/tmp/mut{rnd}-{pid}/repo").replace(f"/tmp/mut-{pid}/out", f"/tmp/mut{rnd}-{pid}/out")
base = base.replace(f"and set `CARGO_TARGET_DIR=/tmp/mut-{pid}/target`.", "and export `CARGO_TARGET_DIR=/tmp/mut-target CARGO_INCREMENTAL=0 CARGO_PROFILE_DEV_DEBUG=0 CARGO_PROFILE_TEST_DEBUG=0` in every cargo command (the target dir is SHARED with other jobs to save disk: never delete it, expect 'waiting for file lock' pauses, never run `cargo clean`).")
prior = []
for d in sorted(glob.glob(f"/verif/seeded/{pid}-*")):
    f = os.path.join(d, "notes.md")
    if os.path.exists(f):
        lines = [l.strip() for l in open(f) if l.strip() and not l.startswith("#")]
        prior.append("  - " + " ".join(lines[:2])[:380])
print(base)
print(f"""IMPORTANT (shared target dir): use a PRIVATE cargo profile for every cargo command: `cargo --config 'profile.{tag}.inherits="dev"' --config 'profile.{tag}.debug=0' test --profile {tag} ...` (artifacts then go to /tmp/mut-target/{tag}/), and sanity-check that the test names that ran are yours. Use `-j 5`. Some source files carry `anda_db_utils::verif_point!` / `verif_wait!` lines and `#[cfg(feature = "verif")]` blocks: they are inert instrumentation — leave those lines in place (a change may move code around them but should keep one before each lock acquisition it keeps or adds). When you are completely done, delete `/tmp/mut-target/{tag}` (your private profile's build output) — nothing else in that directory.

ROUND {rnd}: the following changes were already collected in earlier rounds — do NOT repeat them or close variants of them. Re-read the property statement clause by clause and the mechanism list entry by entry, and look for changes in functions / mechanisms / entry points / clauses that NONE of the earlier changes touched (for example: a rarely used public entry point that shares a helper, a second backend or configuration of the same mechanism, a boundary value, a recovery or retry path, an interaction between two features). First lines of each earlier change's notes:
""" + "\n".join(prior))

#!/bin/bash
# tools/thorough_sweep.sh <scale> <id>... : runs the thorough tier of the given checks one after another with
# budgets scaled by <scale>, logs to /tmp/thorough/<id>.log, evidence/replays to /tmp/thorough/out (not /verif/evidence).
SCALE="$1"; shift
mkdir -p /tmp/thorough/out/evidence; cp /verif/known_findings.json /tmp/thorough/out/
for id in "$@"; do
  VERIF_ROOT=/tmp/thorough/out VERIF_BUDGET_SCALE="$SCALE" nice -n 10 /verif/check "$id" --tier thorough > /tmp/thorough/$id.log 2>&1
  echo "$id exit $? $(grep -c '^VIOLATION' /tmp/thorough/$id.log) violations" >> /tmp/thorough/summary.txt
done

#!/usr/bin/env python3
"""Refreshes the generated tables in DESIGN.md (between <!-- BEGIN:x --> / <!-- END:x --> markers)."""
import json, os, re, subprocess, importlib.util, glob
ROOT = '/verif'
spec = importlib.util.spec_from_file_location("t", os.path.join(ROOT, "checks_table.py"))
t = importlib.util.module_from_spec(spec); spec.loader.exec_module(t)

def checks_table():
    out = ['| id | level | parts (binary) | deciding technique | quick evidence (last committed run) |', '|---|---|---|---|---|']
    for pid in sorted(t.CHECKS):
        c = t.CHECKS[pid]
        parts = ', '.join(f"{p['part']} (`{p['bin']}`)" for p in c['parts'])
        ev = ''
        f = os.path.join(ROOT, 'evidence', pid + '.json')
        if os.path.exists(f):
            e = json.load(open(f)); cv = e['coverage']
            bits = [f"evaluations {cv.get('evaluations')}"]
            if cv.get('states'): bits.append(f"states {cv['states']}")
            if cv.get('transitions'): bits.append(f"transitions {cv['transitions']}")
            if cv.get('traces_validated_against_impl'): bits.append(f"executions on the real code {cv['traces_validated_against_impl']}")
            bits.append(f"distinct non-trivial {cv.get('distinct_nontrivial')}")
            bits.append(f"exhaustive within bounds: {cv.get('exhaustive')}")
            bits.append(f"{e['wall_s']:.0f} s")
            ev = '; '.join(bits)
        out.append(f"| {pid} | {c['level']} | {parts} | {c['technique']} | {ev} |")
    return '\n'.join(out)

def seeded_table():
    return subprocess.run([os.path.join(ROOT, 'tools', 'seeded_table.py')], stdout=subprocess.PIPE, text=True).stdout.strip()

def own_seeds():
    rows = ['| crate | seeded diff | note |', '|---|---|---|']
    for d in sorted(glob.glob(os.path.join(ROOT, 'harness', '*', 'seeded'))):
        crate = d.split('/')[-2]
        for f in sorted(glob.glob(os.path.join(d, '*.diff'))):
            name = os.path.basename(f)[:-5]
            note = ''
            tx = f[:-5] + '.txt'
            if os.path.exists(tx):
                note = re.sub(r'\s+', ' ', open(tx).read().strip())[:200]
            rows.append(f"| {crate} | {name} | {note.replace('|', '/')} |")
    return '\n'.join(rows)

p = os.path.join(ROOT, 'DESIGN.md')
s = open(p).read()
for key, fn in (('checks', checks_table), ('seeded', seeded_table), ('ownseeds', own_seeds)):
    b, e = f'<!-- BEGIN:{key} -->', f'<!-- END:{key} -->'
    if b in s and e in s:
        s = s[:s.index(b) + len(b)] + '\n' + fn() + '\n' + s[s.index(e):]
open(p, 'w').write(s)
print('refreshed')

#!/bin/bash
# Sequential job queue: runs the lines appended to ${MQDIR}/queue.txt one at a time.
# Start once:  nohup /verif/tools/mq.sh >/dev/null 2>&1 &
# Enqueue:     echo "<command>" >> ${MQDIR}/queue.txt
MQDIR="${1:-/tmp/mq2}"
mkdir -p ${MQDIR}; touch ${MQDIR}/queue.txt
n=0
while true; do
  total=$(wc -l < ${MQDIR}/queue.txt)
  if [ "$n" -lt "$total" ]; then
    n=$((n+1))
    cmd=$(sed -n "${n}p" ${MQDIR}/queue.txt)
    echo "=== [$n] $cmd" >> ${MQDIR}/log.txt
    bash -c "$cmd" >> ${MQDIR}/log.txt 2>&1
    echo "=== [$n] done exit $?" >> ${MQDIR}/log.txt
  else
    sleep 15
  fi
done

#!/bin/bash
# Re-evaluates our quick checks on an already confirmed seeded change:
#   tools/recheck_mutant.sh <PROPERTY>-<i> [check ids... default: the property itself]
# Applies /verif/seeded/<P>-<i>/patch.diff in scratch worktree "re", runs the checks, updates meta.json.
set -uo pipefail
D="$1"; shift
P="${D%%-*}"
IDS=("$@"); [ ${#IDS[@]} -eq 0 ] && IDS=("$P")
OUT="/verif/seeded/$D"
/verif/tools/scratch_check.sh ${SCR:-re} init >/dev/null
/verif/tools/scratch_check.sh ${SCR:-re} revert
/verif/tools/scratch_check.sh ${SCR:-re} apply "$OUT/patch.diff" || { echo "patch does not apply"; exit 2; }
declare -A RES
for id in "${IDS[@]}"; do
  /verif/tools/scratch_check.sh ${SCR:-re} check "$id" --tier quick > "$OUT/check_$id.log" 2>&1; RES[$id]=$?
  tail -c 4000 "$OUT/check_$id.log" > "$OUT/check_$id.log.t" && mv "$OUT/check_$id.log.t" "$OUT/check_$id.log"
done
/verif/tools/scratch_check.sh ${SCR:-re} revert
J="{"; for id in "${!RES[@]}"; do J+="\"$id\": ${RES[$id]},"; done; J="${J%,}}"
python3 - "$OUT/meta.json" "$J" <<'PY'
import json, sys
m = json.load(open(sys.argv[1])); r = json.loads(sys.argv[2])
m.setdefault("our_checks_exit_codes", {}).update(r)
m["caught_by"] = sorted(k for k, v in m["our_checks_exit_codes"].items() if v == 1)
m.setdefault("history", []).append({"rechecked": r})
json.dump(m, open(sys.argv[1], "w"), indent=1); print(sys.argv[1], m["our_checks_exit_codes"])
PY

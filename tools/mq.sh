#!/bin/bash
# Sequential job queue: runs the lines appended to /tmp/mq/queue.txt one at a time.
# Start once:  nohup /verif/tools/mq.sh >/dev/null 2>&1 &
# Enqueue:     echo "<command>" >> /tmp/mq/queue.txt
mkdir -p /tmp/mq; touch /tmp/mq/queue.txt
n=0
while true; do
  total=$(wc -l < /tmp/mq/queue.txt)
  if [ "$n" -lt "$total" ]; then
    n=$((n+1))
    cmd=$(sed -n "${n}p" /tmp/mq/queue.txt)
    echo "=== [$n] $cmd" >> /tmp/mq/log.txt
    bash -c "$cmd" >> /tmp/mq/log.txt 2>&1
    echo "=== [$n] done exit $?" >> /tmp/mq/log.txt
  else
    sleep 15
  fi
done

#!/usr/bin/env python3
"""Generates MANIFEST.json and parts.json from checks_table.py (single source)."""
import json, os, subprocess
ROOT = os.path.dirname(os.path.abspath(__file__))
import importlib.util
spec = importlib.util.spec_from_file_location("t", os.path.join(ROOT, "checks_table.py"))
t = importlib.util.module_from_spec(spec); spec.loader.exec_module(t)

props = [json.loads(l) for l in open(os.path.join(ROOT, "properties.jsonl"))]
ids = [p["id"] for p in props]
parts = {}
checks = []
for pid in ids:
    c = t.CHECKS.get(pid)
    if not c:
        continue
    parts[pid] = {"level": c["level"], "parts": c["parts"]}
    checks.append({
        "property_id": pid,
        "quick_cmd": f"./check {pid} --tier quick",
        "thorough_cmd": f"./check {pid} --tier thorough",
        "evidence_file": f"/verif/evidence/{pid}.json",
        "replay_cmd_template": f"./check {pid} --replay {{path}}",
        "engine": c["engine"],
        "level_claimed": {"category": c["level"], "text": c["text"], "design_ref": c["design_ref"]},
        "level_note": c["note"],
        "technique": c["technique"],
    })
na = [{"property_id": pid, "reason": t.NOT_APPLICABLE.get(pid, "check not built yet (construction in progress, see DESIGN.md section 5); nothing is claimed for this property at this commit")}
      for pid in ids if pid not in t.CHECKS]
hooks_commits = subprocess.run(["git", "-C", "/repo", "log", "--format=%h %s", "--grep=^verif hooks"], stdout=subprocess.PIPE, text=True).stdout.strip().splitlines()
manifest = {
    "version": 1,
    "setup_cmd": "cd /verif/harness && CARGO_NET_OFFLINE=true cargo build --release --offline " + " ".join("-p " + c for c in sorted({p["crate"] for v in parts.values() for p in v["parts"]})),
    "hooks": {
        "guard": "cargo feature `verif` (anda_db_utils, anda_db, anda_db_btree, anda_db_tfs, anda_db_hnsw, anda_object_store)",
        "enable": "the harness workspace /verif/harness depends on /repo/rs/* by path with features = [\"verif\"]; hooks are inert unless a scheduler/clock/seed is installed on the calling thread",
        "baseline_off_cmd": "cd /repo && (cargo nextest run --workspace --no-fail-fast --test-threads 8 --offline || cargo test --workspace --no-fail-fast --offline)",
        "source_commits": [l.split()[0] for l in hooks_commits],
        "add_only": True,
    },
    "engines": t.ENGINES,
    "checks": checks,
    "notes": t.NOTES,
    "not_applicable": na,
}
json.dump(manifest, open(os.path.join(ROOT, "MANIFEST.json"), "w"), indent=1)
json.dump(parts, open(os.path.join(ROOT, "parts.json"), "w"), indent=1)
print("checks:", [c["property_id"] for c in checks], "not_applicable:", [n["property_id"] for n in na])

//! C08, STEP part — `collect_garbage` racing in-process writers never
//! removes a payload a committed key refers to.
//!
//! One task runs `collect_garbage`, one or two tasks run a writer operation
//! {put, multipart complete, copy, delete, rename}; every backend call of the
//! gated `CtlStore` is a scheduling point and `choice::explore` enumerates all
//! interleavings up to a preemption bound. Start states already contain
//! garbage (an overwritten generation whose reclaim was lost, an uncommitted
//! generation, an orphaned legacy payload), so the collector always has
//! something to sweep. The logical clock either advances by one per read
//! (which task is polled first decides whether the writer's generation is
//! older or younger than the GC floor) or is frozen during the race (every
//! generation minted in the race equals the floor).
//!
//! Where the in-flight registration is created or released relative to the
//! backend call it protects, and which scenario schedules the collector
//! through that window: put — registered before the payload put, released
//! when the call returns (every writer scenario; post-effect gate of both
//! puts); multipart — registered at `put_multipart`, held by the uploader;
//! the generation only becomes visible at `complete()`'s materialisation
//! (scenarios multipart, plus the repeated / retried `complete()` of the
//! `prior` dimension); copy / rename — registered inside `copy_payload`
//! before the backend copy, once per attempt of its retry loop, handed to the
//! caller and held across the pointer switch (scenarios copy / rename, plus
//! `stale_source` for the second attempt of the loop).

use object_store::ObjectStoreExt;
use serde::{Deserialize, Serialize};
use serde_json::{Value, json};
use std::cell::RefCell;
use std::collections::{BTreeMap, BTreeSet};
use std::time::{Duration, Instant};
use vcore::choice::{self, Chooser};
use vcore::ctlstore::{self, Content, CtlStore, Label, Mutation};
use vcore::step::{RunEnd, Sched};
use vcore::{Run, Violation, util};
use vgc::*;

#[derive(Clone, Copy, Debug, PartialEq, Eq, Serialize, Deserialize)]
enum StepStart {
    /// a = v2 (+ its overwritten generation of v1 left behind), b = v3 (+ an uncommitted generation)
    Both,
    /// a as above; b absent, an uncommitted generation under b
    BAbsent,
    /// a legacy (`data/a`) + an uncommitted generation under a; b = v3 + a stale `data/dir/b`
    LegacyA,
}

#[derive(Clone, Debug, Serialize, Deserialize)]
struct Scenario {
    kind: Kind,
    start: StepStart,
    /// `Op::Multipart` here = only `complete()` races; the upload is begun before the race.
    writers: Vec<Op>,
    /// Clock frozen during the race: every generation minted in it == the GC floor.
    frozen_clock: bool,
    /// Writers go through a second wrapper instance (no shared in-flight
    /// registry) and are first polled only after the collector has started.
    second_instance: bool,
    /// The writers' instance resolved every key before another instance
    /// overwrote it: its cached pointers are stale, so a copy first hits a
    /// missing payload, re-resolves and copies into a SECOND fresh generation
    /// (the retry loop of `copy_payload`) while the collector runs.
    #[serde(default)]
    stale_source: bool,
    /// What happened to the racing upload's `complete()` before the race.
    #[serde(default)]
    prior: Prior,
}

#[derive(Clone, Copy, Debug, Default, PartialEq, Eq, Serialize, Deserialize)]
enum Prior {
    /// `complete()` is called for the first time in the race
    #[default]
    None,
    /// a first `complete()` committed; the race runs the repeated call
    Completed,
    /// a first `complete()` was abandoned right after it materialised the
    /// generation (answer in flight, pointer not switched); the race runs the retry
    DroppedAfterMaterialize,
}

impl Scenario {
    fn name(&self) -> String {
        format!(
            "{} start={:?} gc || {} clock={} writers-via={}",
            self.kind.name(),
            self.start,
            self.writers.iter().map(|o| o.label()).collect::<Vec<_>>().join(" || "),
            if self.frozen_clock { "frozen" } else { "advancing" },
            if self.second_instance { "second-instance-after-gc-start" } else { "same-instance" }
        ) + if self.stale_source { " writers-cache=stale-pointers" } else { "" }
            + match self.prior {
                Prior::None => "",
                Prior::Completed => " complete()=repeated-after-commit",
                Prior::DroppedAfterMaterialize => " complete()=retry-after-drop-behind-materialisation",
            }
    }
    fn shape(&self) -> String {
        format!(
            "{}:{:?}:{}:{}:{}",
            self.kind.name(),
            self.start,
            self.writers.iter().map(|o| o.kind()).collect::<Vec<_>>().join("+"),
            if self.frozen_clock { "frozen" } else { "advancing" },
            if self.second_instance { "second-instance" } else { "same-instance" }
        ) + if self.stale_source { ":stale-source" } else { "" }
            + match self.prior {
                Prior::None => "",
                Prior::Completed => ":recomplete",
                Prior::DroppedAfterMaterialize => ":retry-after-drop",
            }
    }
}

// ---------------------------------------------------------------------------
// start states, built with the real wrapper and trimmed journals

fn journal_of(kind: Kind, ops: &[Op]) -> Vec<Vec<Mutation>> {
    let (store, ctl) = CtlStore::new();
    let w = W::open(kind, store);
    let mut out = Vec::new();
    for op in ops {
        let s = ctl.journal_len();
        util::block_on(run_op(&w, op)).expect("setup op");
        out.push(ctl.journal_from(s).into_iter().map(|e| e.mutation).collect());
    }
    out
}

fn apply_all(c: &mut Content, ms: &[Mutation]) {
    for m in ms {
        ctlstore::apply(c, m);
    }
}

fn build_start(kind: Kind, start: StepStart) -> (Content, Model) {
    clock(1000);
    let mut c = Content::new();
    let mut m = empty_model();
    // a: v1 overwritten by v2, the reclaim of v1's generation lost
    let a_overwritten = |c: &mut Content| {
        let j = journal_of(kind, &[Op::Put { k: 0, v: 1 }, Op::Put { k: 0, v: 2 }]);
        apply_all(c, &j[0]);
        for m in &j[1] {
            if !matches!(m, Mutation::Delete { path } if path.starts_with("gen/")) {
                ctlstore::apply(c, m);
            }
        }
    };
    // an uncommitted generation under key k (payload written, pointer never switched)
    let uncommitted = |c: &mut Content, k: u8| {
        let j = journal_of(kind, &[Op::Put { k, v: 4 }]);
        for m in &j[0] {
            if matches!(m, Mutation::Put { path, .. } if path.starts_with("gen/")) {
                ctlstore::apply(c, m);
            }
        }
    };
    let b_committed = |c: &mut Content| {
        let j = journal_of(kind, &[Op::Put { k: 1, v: 3 }]);
        apply_all(c, &j[0]);
    };
    match start {
        StepStart::Both => {
            a_overwritten(&mut c);
            uncommitted(&mut c, 1);
            b_committed(&mut c);
            m[0] = Some(value(2));
            m[1] = Some(value(3));
        }
        StepStart::BAbsent => {
            a_overwritten(&mut c);
            uncommitted(&mut c, 1);
            m[0] = Some(value(2));
        }
        StepStart::LegacyA => {
            put_legacy(&mut c, kind, LegacyFlavor::Plain, 0, LEGACY_TAGS[0]);
            uncommitted(&mut c, 0);
            // stale legacy payload of b: b itself lives in the generation layout
            let mut tmp = Content::new();
            put_legacy(&mut tmp, kind, LegacyFlavor::Plain, 1, LEGACY_TAGS[1]);
            let data_b = format!("data/{}", KEYS[1]);
            c.insert(data_b.clone(), tmp.remove(&data_b).unwrap());
            b_committed(&mut c);
            m[0] = Some(value(LEGACY_TAGS[0]));
            m[1] = Some(value(3));
        }
    }
    if unreferenced_payloads(&c).len() < 2 {
        vcore::report::machinery("STEP start state does not contain the intended garbage");
    }
    (c, m)
}

// ---------------------------------------------------------------------------
// reference model for concurrent writers: every interleaving of the
// operations' atomic commit steps (copy = read source, then commit target;
// rename = copy, then delete source) that respects real-time order.

#[derive(Clone, Debug)]
enum Micro {
    Set(u8, Vec<u8>),
    Read(u8),
    SetCopied(u8),
    Del(u8, bool),
}

fn micro_steps(op: &Op) -> Vec<Micro> {
    match op {
        Op::Put { k, v } | Op::Multipart { k, v } => vec![Micro::Set(*k, value(*v))],
        Op::Copy { f, t } => vec![Micro::Read(*f), Micro::SetCopied(*t)],
        Op::Rename { f, t, .. } => vec![Micro::Read(*f), Micro::SetCopied(*t), Micro::Del(*f, false)],
        Op::Delete { k } => vec![Micro::Del(*k, true)],
        Op::Gc => vec![],
    }
}

#[derive(Clone)]
struct MState {
    m: Model,
    pc: Vec<usize>,
    local: Vec<Option<Vec<u8>>>,
    failed: Vec<bool>,
}

/// `before[i]` = indexes of operations that had returned before operation
/// `i` was first polled. Returns every reachable (final model, ok-flags).
fn acceptable(start: &Model, ops: &[Op], before: &[BTreeSet<usize>]) -> Vec<(Model, Vec<bool>)> {
    let steps: Vec<Vec<Micro>> = ops.iter().map(micro_steps).collect();
    let mut out: Vec<(Model, Vec<bool>)> = Vec::new();
    let mut stack = vec![MState {
        m: start.clone(),
        pc: vec![0; ops.len()],
        local: vec![None; ops.len()],
        failed: vec![false; ops.len()],
    }];
    while let Some(s) = stack.pop() {
        let mut any = false;
        for i in 0..ops.len() {
            if s.pc[i] >= steps[i].len() {
                continue;
            }
            if before[i].iter().any(|j| s.pc[*j] < steps[*j].len()) {
                continue;
            }
            any = true;
            let mut n = s.clone();
            match &steps[i][s.pc[i]] {
                Micro::Set(k, v) => n.m[*k as usize] = Some(v.clone()),
                Micro::Read(f) => match &s.m[*f as usize] {
                    Some(v) => n.local[i] = Some(v.clone()),
                    None => {
                        n.failed[i] = true;
                        n.pc[i] = steps[i].len() - 1; // skip the rest
                    }
                },
                Micro::SetCopied(t) => n.m[*t as usize] = n.local[i].clone(),
                Micro::Del(k, strict) => {
                    if n.m[*k as usize].is_none() && *strict {
                        n.failed[i] = true;
                    }
                    n.m[*k as usize] = None;
                }
            }
            n.pc[i] += 1;
            stack.push(n);
        }
        if !any {
            let r = (s.m.clone(), s.failed.iter().map(|f| !f).collect::<Vec<_>>());
            if !out.contains(&r) {
                out.push(r);
            }
        }
    }
    out
}

// ---------------------------------------------------------------------------
// one execution

#[derive(Default)]
struct Exec {
    problems: Vec<(String, String)>,
    labels_hash: u64,
    labels: Vec<String>,
    steps: usize,
    gc_deleted: u64,
    writer_gen_older_than_floor: bool,
    writer_gen_at_or_after_floor: bool,
    final_state: String,
    diverged: Option<String>,
}

fn canon_labels(labels: &[Label]) -> Vec<String> {
    // generation ids carry a random salt: rename them by order of first appearance
    let mut ids: BTreeMap<String, usize> = BTreeMap::new();
    labels
        .iter()
        .map(|l| {
            let parts: Vec<String> = l
                .path
                .split('/')
                .map(|p| {
                    if is_generation_id(p) {
                        let n = ids.len();
                        format!("G{}", *ids.entry(p.to_string()).or_insert(n))
                    } else {
                        p.to_string()
                    }
                })
                .collect();
            format!("t{} {} {}", l.task, l.op, parts.join("/"))
        })
        .collect()
}

fn is_generation_id(p: &str) -> bool {
    p.len() == 25 && p.as_bytes()[16] == b'-' && p.bytes().enumerate().all(|(i, b)| i == 16 || b.is_ascii_hexdigit())
}

fn generation_ts(path: &str) -> Option<u64> {
    let last = path.rsplit('/').next()?;
    if !path.starts_with("gen/") || !is_generation_id(last) {
        return None;
    }
    u64::from_str_radix(&last[..16], 16).ok()
}

fn run_one(sc: &Scenario, start: &(Content, Model), ch: &mut Chooser, keep_labels: bool) -> Exec {
    let mut ex = Exec::default();
    let kind = sc.kind;
    let inner = ctlstore::restore(&start.0);
    let (store, ctl) = CtlStore::over(inner.clone());
    let gc_inst = W::open(kind, store.clone());
    let second = if sc.second_instance { Some(W::open(kind, store.clone())) } else { None };
    let wr_inst: &W = second.as_ref().unwrap_or(&gc_inst);

    // Same instance: uploads are begun before the race, so their generation
    // is older than the floor and only the in-flight registry protects it.
    // Second instance: the registry is not shared, so the upload is begun
    // after the collector captured its floor (see below).
    clock(5000);
    // the model state the race starts from (setup below may commit)
    let model_start: RefCell<Model> = RefCell::new(start.1.clone());
    if sc.stale_source {
        // the writers' instance resolves every key ...
        util::block_on(async {
            for k in 0..KEYS.len() as u8 {
                if let Ok(r) = wr_inst.os().get(&key_path(k)).await {
                    let _ = r.bytes().await;
                }
            }
        });
        // ... then another instance overwrites every present key: the
        // cached pointers name payloads that are gone
        let other = W::open(kind, store.clone());
        for k in 0..KEYS.len() as u8 {
            if start.1[k as usize].is_some() {
                let op = Op::Put { k, v: 8 + k };
                util::block_on(run_op(&other, &op)).expect("setup overwrite");
                let next = model_step(&model_start.borrow(), &op).0;
                *model_start.borrow_mut() = next;
            }
        }
    }
    let begin_uploads = || -> Vec<Option<Box<dyn object_store::MultipartUpload>>> {
        sc.writers
            .iter()
            .map(|op| match op {
                Op::Multipart { k, v } => {
                    let mut up = util::block_on(multipart_begin(wr_inst, *k, *v)).expect("begin upload");
                    match sc.prior {
                        Prior::None => {}
                        Prior::Completed => {
                            util::block_on(up.complete()).expect("first complete");
                            let next = model_step(&model_start.borrow(), op).0;
                            *model_start.borrow_mut() = next;
                        }
                        Prior::DroppedAfterMaterialize => {
                            // poll with every backend call suspending, until the
                            // materialisation has landed; then abandon the call
                            // (the gate is off whenever uploads are begun)
                            let from = ctl.journal_len();
                            ctl.set_post_gate(true);
                            ctl.set_gate(true);
                            let (r, _) = drive_until(up.complete(), |_| ctl.journal_len() > from);
                            ctl.set_gate(false);
                            if r.is_some() {
                                vcore::report::machinery("STEP: the first complete() finished before it could be abandoned");
                            }
                        }
                    }
                    Some(up)
                }
                _ => None,
            })
            .collect()
    };
    let mut uploads = if sc.second_instance { Vec::new() } else { begin_uploads() };
    // what is in the store, and how long the journal is, when the race starts
    let race_content = ctlstore::snapshot(&inner);
    let race_journal_from = ctl.journal_len();
    if sc.frozen_clock {
        anda_db_utils::verif::set_clock(Some((6000, 0)));
    } else {
        clock(6000);
    }
    ctl.clear_labels();
    ctl.keep_labels(true);
    // two scheduling points per backend call: before its effect, and after
    // the effect but before the result is delivered to the caller (a response
    // in flight while other tasks run)
    ctl.set_post_gate(true);
    ctl.set_gate(true);

    let n_tasks = 1 + sc.writers.len();
    let results: RefCell<Vec<Option<Result<(), String>>>> = RefCell::new(vec![None; n_tasks]);
    let before: RefCell<Vec<Option<BTreeSet<usize>>>> = RefCell::new(vec![None; n_tasks]);
    let floor: RefCell<Option<u64>> = RefCell::new(None);
    let end;
    {
        let (results, before, floor) = (&results, &before, &floor);
        let mut sched = Sched::new();
        sched.spawn("gc", async {
            let r = gc_inst.gc().await.map(|_| ()).map_err(|e| e.to_string());
            results.borrow_mut()[0] = Some(r);
        });
        if sc.second_instance {
            let ctl3 = &ctl;
            sched.on_switch = Some(Box::new(move |t| ctl3.set_task(t)));
            *floor.borrow_mut() = Some(clock_now());
            before.borrow_mut()[0] = Some(BTreeSet::new());
            sched.step(0); // the collector captures its floor first
            ctl.set_gate(false);
            ctl.set_task(1);
            uploads = begin_uploads();
            ctl.set_gate(true);
        }
        for (i, op) in sc.writers.iter().enumerate() {
            let up = uploads[i].take();
            sched.spawn(&format!("w{}", i + 1), async move {
                let r = match up {
                    Some(mut up) => up.complete().await.map(|_| ()),
                    None => run_op(wr_inst, op).await,
                };
                results.borrow_mut()[i + 1] = Some(r.map_err(|e| e.to_string()));
            });
        }
        let ctl2 = &ctl;
        sched.on_switch = Some(Box::new(move |t| {
            ctl2.set_task(t);
            let mut b = before.borrow_mut();
            if b[t].is_none() {
                let done: BTreeSet<usize> = results
                    .borrow()
                    .iter()
                    .enumerate()
                    .filter(|(_, r)| r.is_some())
                    .map(|(i, _)| i)
                    .collect();
                b[t] = Some(done);
                if t == 0 {
                    *floor.borrow_mut() = Some(clock_now());
                }
            }
        }));
        end = sched.run(ch, 4000);
        ex.steps = sched.steps.len();
    }
    ctl.set_gate(false);
    ctl.keep_labels(false);
    ex.diverged = ch.diverged.clone();
    let labels = canon_labels(&ctl.labels());
    ex.labels_hash = util::fnv64(labels.join("\n").as_bytes());
    if keep_labels {
        ex.labels = labels;
    }
    if end != RunEnd::AllDone {
        ex.problems.push(("tasks-did-not-finish".into(), format!("{end:?}")));
        return ex;
    }
    let results: Vec<Result<(), String>> = results.into_inner().into_iter().map(|r| r.unwrap()).collect();
    let before: Vec<BTreeSet<usize>> = before.into_inner().into_iter().map(|b| b.unwrap()).collect();
    let floor = floor.into_inner().expect("gc polled");

    // --- walk the journal: what did the collector delete, what did commits reference
    let journal = ctl.journal_from(race_journal_from);
    let mut content = race_content;
    let mut dangling_reported = false;
    for e in &journal {
        if e.task == 0 {
            if let Mutation::Delete { path } = &e.mutation {
                ex.gc_deleted += 1;
                if let Some((meta, _)) = referenced_payloads(&content).iter().find(|(_, p)| *p == path) {
                    ex.problems.push((
                        "gc-removed-referenced-payload".into(),
                        format!("collect_garbage deleted {path} while commit point {meta} referenced it"),
                    ));
                }
            } else {
                ex.problems.push(("gc-wrote".into(), format!("collect_garbage issued {}", e.mutation.label())));
            }
        } else if let Some(ts) = generation_ts(e.mutation.path())
            && !matches!(e.mutation, Mutation::Delete { .. })
        {
            if ts < floor {
                ex.writer_gen_older_than_floor = true;
            } else {
                ex.writer_gen_at_or_after_floor = true;
            }
        }
        ctlstore::apply(&mut content, &e.mutation);
        // invariant at every instant (= at every possible crash point of the
        // interleaved execution): each commit point's payload is in the store
        if !dangling_reported {
            for (meta, p) in referenced_payloads(&content) {
                if !content.contains_key(&p) {
                    dangling_reported = true;
                    ex.problems.push((
                        "commit-references-missing-payload".into(),
                        format!(
                            "after task {}'s {}: {meta} -> {p}, which is not in the store",
                            e.task,
                            e.mutation.label()
                        ),
                    ));
                }
            }
        }
    }
    if content != ctlstore::snapshot(&inner) {
        vcore::report::machinery("journal replay does not reproduce the inner store");
    }
    for (meta, p) in referenced_payloads(&content) {
        if !content.contains_key(&p) {
            ex.problems.push((
                "committed-key-without-payload".into(),
                format!("final store: {meta} -> {p} is missing"),
            ));
        }
    }

    // --- reads: live instance(s) and a cold one
    let cold = util::block_on(observe_all(W::open(kind, store.clone()).os()));
    ex.final_state = cold.describe();
    for (class, detail) in judge_broken(&cold) {
        ex.problems.push((class, format!("cold instance: {detail}")));
    }
    let mut lives: Vec<(&str, &W)> = vec![("collector's instance", &gc_inst)];
    if let Some(s) = &second {
        lives.push(("writers' instance", s));
    }
    for (who, w) in &lives {
        let v = read_live(sc, who, w, &cold);
        if v != cold {
            ex.problems.push((
                "live-instance-disagrees".into(),
                format!("{who} reads {} but a cold instance reads {}", v.describe(), cold.describe()),
            ));
        }
    }
    if let Some(fin) = cold.as_model() {
        // writers only (task i+1 = writers[i]); the collector has no model effect
        let wbefore: Vec<BTreeSet<usize>> = (0..sc.writers.len())
            .map(|i| before[i + 1].iter().filter(|j| **j >= 1).map(|j| j - 1).collect())
            .collect();
        let acc = acceptable(&model_start.borrow(), &sc.writers, &wbefore);
        let oks: Vec<bool> = results[1..].iter().map(|r| r.is_ok()).collect();
        if !acc.iter().any(|(m, o)| *m == fin && *o == oks) {
            ex.problems.push((
                "state-not-explained-by-any-commit-order".into(),
                format!(
                    "final {} with results {:?}; acceptable: {}",
                    describe_model(&fin),
                    results[1..].iter().map(|r| r.as_ref().map_err(|e| e.chars().take(80).collect::<String>())).collect::<Vec<_>>(),
                    acc.iter()
                        .map(|(m, o)| format!("[{} ok={:?}]", describe_model(m), o))
                        .collect::<Vec<_>>()
                        .join(" ")
                ),
            ));
        }
    }
    if let Err(e) = &results[0] {
        // not a safety statement; visible in the evidence
        ex.problems.push(("note:gc-error".into(), e.clone()));
    }

    // --- a second, quiescent collection must change nothing readable
    clock(1_000_000);
    let before_gc = ctlstore::snapshot(&inner);
    let w_gc = W::open(kind, store.clone());
    if util::block_on(w_gc.gc()).is_ok() {
        let after_gc = ctlstore::snapshot(&inner);
        for d in damaged_by_gc(&before_gc, &after_gc) {
            ex.problems.push(("quiescent-gc-removed-referenced-payload".into(), d));
        }
        let mut again: Vec<(&str, &W)> = lives.clone();
        let w_cold = W::open(kind, store.clone());
        again.push(("cold instance", &w_cold));
        for (who, w) in again {
            let v = read_live(sc, who, w, &cold);
            if v != cold {
                ex.problems.push((
                    "read-changed-by-quiescent-gc".into(),
                    format!("{who}: before {} after {}", cold.describe(), v.describe()),
                ));
            }
        }
    }
    ex
}

/// Reads every key through a long-lived instance. An instance whose cache was
/// made stale on purpose keeps answering listings and heads of keys the race
/// did not touch from that cache (documented read-through cache), so only its
/// full gets are compared: they must heal and deliver the committed bytes.
fn read_live(sc: &Scenario, who: &str, w: &W, cold: &View) -> View {
    let stale = sc.stale_source && (who == "writers' instance" || (who == "collector's instance" && !sc.second_instance));
    if !stale {
        return util::block_on(observe_all(w.os()));
    }
    let keys = (0..KEYS.len() as u8)
        .map(|k| {
            util::block_on(async {
                match w.os().get(&key_path(k)).await {
                    Ok(r) => match r.bytes().await {
                        Ok(b) => Obs::Value(b.to_vec()),
                        Err(e) => Obs::Broken(format!("get: body unreadable: {e}")),
                    },
                    Err(object_store::Error::NotFound { .. }) => Obs::Absent,
                    Err(e) => Obs::Broken(format!("get: {e}")),
                }
            })
        })
        .collect();
    View {
        keys,
        anomalies: cold.anomalies.clone(),
    }
}

fn judge_broken(v: &View) -> Vec<(String, String)> {
    let mut out = Vec::new();
    for a in &v.anomalies {
        out.push(("listing-anomaly".to_string(), a.clone()));
    }
    for (i, o) in v.keys.iter().enumerate() {
        if let Obs::Broken(e) = o {
            out.push(("unreadable-key".to_string(), format!("{}: {e}", KEYS[i])));
        }
    }
    out
}

// ---------------------------------------------------------------------------

fn writer_ops(slot: usize) -> Vec<Op> {
    let v = 5 + slot as u8;
    vec![
        Op::Put { k: 0, v },
        Op::Put { k: 1, v },
        Op::Multipart { k: 0, v },
        Op::Multipart { k: 1, v },
        Op::Copy { f: 0, t: 1 },
        Op::Copy { f: 1, t: 0 },
        Op::Delete { k: 0 },
        Op::Delete { k: 1 },
        Op::Rename {
            f: 0,
            t: 1,
            create: false,
        },
        Op::Rename {
            f: 1,
            t: 0,
            create: false,
        },
    ]
}

fn scenarios(thorough: bool, b1: u32, b2: u32) -> Vec<(Scenario, u32)> {
    // (scenario, preemption bound); ordered small -> large (par_map pops from the end)
    let mut singles = Vec::new();
    let mut pairs = Vec::new();
    for kind in [Kind::Meta, Kind::Enc] {
        for start in [StepStart::Both, StepStart::BAbsent, StepStart::LegacyA] {
            for frozen_clock in [false, true] {
                for second_instance in [false, true] {
                    for w in writer_ops(0) {
                        let base = Scenario {
                            kind,
                            start,
                            writers: vec![w.clone()],
                            frozen_clock,
                            second_instance,
                            stale_source: false,
                            prior: Prior::None,
                        };
                        singles.push((base.clone(), b1));
                        // Both extra dimensions are about the in-flight
                        // registry. It only decides for a generation older
                        // than the floor on the collector's own instance, so
                        // the quick tier takes them there (advancing clock,
                        // same instance); the thorough tier everywhere.
                        if !thorough && (frozen_clock || second_instance) {
                            continue;
                        }
                        match w {
                            // the source pointer only matters to copies
                            Op::Copy { .. } | Op::Rename { .. } => singles.push((
                                Scenario {
                                    stale_source: true,
                                    ..base.clone()
                                },
                                b1,
                            )),
                            Op::Multipart { .. } => {
                                for prior in [Prior::Completed, Prior::DroppedAfterMaterialize] {
                                    singles.push((Scenario { prior, ..base.clone() }, b1));
                                }
                            }
                            _ => {}
                        }
                    }
                }
            }
        }
        // two writers: same instance; all unordered pairs in the thorough
        // tier, a fixed selection (same key / different keys) in the quick tier
        let w0 = writer_ops(0);
        let w1 = writer_ops(1);
        for start in [StepStart::Both, StepStart::BAbsent, StepStart::LegacyA] {
            for frozen_clock in [false, true] {
                for (i, a) in w0.iter().enumerate() {
                    for (j, b) in w1.iter().enumerate() {
                        if j < i {
                            continue;
                        }
                        let quick_pick = start == StepStart::Both
                            && !frozen_clock
                            && matches!(
                                (i, j),
                                (0, 0) | (0, 1) | (0, 2) | (0, 4) | (0, 5) | (0, 6) | (2, 3) | (4, 7) | (1, 8)
                            );
                        if !thorough && !quick_pick {
                            continue;
                        }
                        pairs.push((
                            Scenario {
                                kind,
                                start,
                                writers: vec![a.clone(), b.clone()],
                                frozen_clock,
                                second_instance: false,
                                stale_source: false,
                                prior: Prior::None,
                            },
                            b2,
                        ));
                    }
                }
            }
        }
    }
    singles.extend(pairs);
    singles
}

struct ScOut {
    sc: Scenario,
    bound: u32,
    stats: choice::ExploreStats,
    execs: u64,
    steps: u64,
    gc_deleted_execs: u64,
    older: u64,
    younger: u64,
    final_states: BTreeSet<String>,
    label_seqs: BTreeSet<u64>,
    violations: Vec<Violation>,
    notes: u64,
    machinery: Option<String>,
    sample: Option<Value>,
}

fn explore_scenario(sc: Scenario, bound: u32, deadline: Instant) -> ScOut {
    let start = build_start(sc.kind, sc.start);
    let mut o = ScOut {
        sc: sc.clone(),
        bound,
        stats: Default::default(),
        execs: 0,
        steps: 0,
        gc_deleted_execs: 0,
        older: 0,
        younger: 0,
        final_states: BTreeSet::new(),
        label_seqs: BTreeSet::new(),
        violations: Vec::new(),
        notes: 0,
        machinery: None,
        sample: None,
    };
    let mut first: Option<(Vec<u32>, u64)> = None;
    let mut last: Option<(Vec<u32>, u64)> = None;
    let stats = choice::explore(
        bound,
        1,
        deadline,
        u64::MAX,
        |ch| run_one(&sc, &start, ch, false),
        |choices, ex: Exec| {
            o.execs += 1;
            o.steps += ex.steps as u64;
            if ex.gc_deleted > 0 {
                o.gc_deleted_execs += 1;
            }
            if ex.writer_gen_older_than_floor {
                o.older += 1;
            }
            if ex.writer_gen_at_or_after_floor {
                o.younger += 1;
            }
            o.final_states.insert(ex.final_state.clone());
            o.label_seqs.insert(ex.labels_hash);
            if let Some(d) = &ex.diverged {
                o.machinery = Some(format!("{}: {d}", sc.name()));
            }
            if first.is_none() {
                first = Some((choices.clone(), ex.labels_hash));
            }
            last = Some((choices.clone(), ex.labels_hash));
            for (class, detail) in ex.problems {
                if class.starts_with("note:") {
                    o.notes += 1;
                    continue;
                }
                o.violations.push(Violation {
                    signature: format!("step:{}:{class}", sc.shape()),
                    summary: format!("{} schedule={:?}: {class}: {detail}", sc.name(), choices),
                    replay: json!({"scenario": sc, "choices": choices, "bound": bound}),
                });
            }
            o.violations.is_empty()
        },
    );
    o.stats = stats;
    // determinism: replaying a recorded choice list reproduces the same
    // sequence of backend calls (generation ids renamed by first appearance)
    for (choices, hash) in first.iter().chain(last.iter()) {
        let mut ch = Chooser::new(choices.clone());
        let ex = run_one(&sc, &start, &mut ch, true);
        if ex.labels_hash != *hash || ch.diverged.is_some() {
            o.machinery = Some(format!(
                "{}: replay of schedule {:?} produced a different backend call sequence",
                sc.name(),
                choices
            ));
        }
        if o.sample.is_none() && choices.iter().any(|c| *c != 0) {
            o.sample = Some(json!({
                "scenario": sc.name(),
                "schedule_choices": choices,
                "backend_calls": ex.labels,
                "final_state": ex.final_state,
            }));
        }
    }
    o
}

#[derive(Default)]
struct Pass {
    bound: u32,
    n_scenarios: usize,
    execs: u64,
    steps: u64,
    gc_deleted_execs: u64,
    older: u64,
    younger: u64,
    notes: u64,
    distinct: BTreeSet<u64>,
    samples: Vec<Value>,
    capped: Vec<String>,
    violations: Vec<Violation>,
    per_level: Vec<u64>,
}

fn main() {
    let mut run = Run::from_args("C08", "step", "fault_enumeration");

    if let Some(file) = run.replay_file.clone() {
        let v: Value = serde_json::from_slice(&std::fs::read(&file).expect("read replay")).expect("json");
        let r = &v["replay"];
        let sc: Scenario = serde_json::from_value(r["scenario"].clone()).expect("scenario");
        let choices: Vec<u32> = serde_json::from_value(r["choices"].clone()).expect("choices");
        let start = build_start(sc.kind, sc.start);
        let mut ch = Chooser::new(choices.clone());
        let ex = run_one(&sc, &start, &mut ch, true);
        run.add("evaluations", 1);
        println!("replayed {} schedule {:?}", sc.name(), choices);
        for l in &ex.labels {
            println!("  {l}");
        }
        println!("final state: {}", ex.final_state);
        for (class, detail) in ex.problems {
            if class.starts_with("note:") {
                continue;
            }
            run.violation(Violation {
                signature: format!("step:{}:{class}", sc.shape()),
                summary: format!("{} schedule={:?}: {class}: {detail}", sc.name(), choices),
                replay: json!({"scenario": sc, "choices": choices}),
            });
        }
        run.finish();
    }

    let thorough = run.tier == vcore::Tier::Thorough;
    let deadline = Instant::now() + Duration::from_secs_f64(run.remaining_s());
    // Passes: (writers per scenario, preemption bound, estimated cost relative
    // to the same group's previous pass). The first pass of each group is
    // mandatory; a later pass re-explores the group at a higher bound, is only
    // attempted when its estimate fits the budget, and replaces the group's
    // numbers only when it completes.
    let passes: Vec<(usize, u32, f64)> = if thorough {
        vec![(1, 3, 0.0), (2, 2, 0.0), (1, 4, 6.0), (1, 5, 4.0), (1, 6, 3.0), (2, 3, 14.0), (1, 7, 3.0)]
    } else {
        // two-writer scenarios are the largest: bound 1 in the quick tier since
        // the post-effect gate doubled the scheduling points per backend call
        vec![(1, 2, 0.0), (2, 1, 0.0)]
    };
    let mut committed: BTreeMap<usize, Pass> = BTreeMap::new();
    let mut last_cost: BTreeMap<usize, f64> = BTreeMap::new();
    let mut gave_up: BTreeSet<usize> = BTreeSet::new();
    for (group, bound, growth) in passes {
        if gave_up.contains(&group) {
            continue;
        }
        if committed.contains_key(&group) {
            let est = last_cost[&group] * growth;
            if run.elapsed() + est > run.budget_s {
                run.cap_hit(&format!(
                    "time budget: preemption bound {bound} for scenarios with {group} writer(s) not attempted (estimated {est:.0}s)"
                ));
                gave_up.insert(group);
                continue;
            }
        }
        let t0 = run.elapsed();
        let scs: Vec<(Scenario, u32)> = scenarios(thorough, bound, bound)
            .into_iter()
            .filter(|(sc, _)| sc.writers.len() == group)
            .collect();
        let n_scenarios = scs.len();
        let outs = util::par_map(scs, util::n_threads(), |(sc, bound)| explore_scenario(sc, bound, deadline));
        let mut pass = Pass {
            bound,
            n_scenarios,
            ..Default::default()
        };
        for o in outs {
            if let Some(m) = &o.machinery {
                vcore::report::machinery(m);
            }
            pass.execs += o.execs;
            pass.steps += o.steps;
            pass.gc_deleted_execs += o.gc_deleted_execs;
            pass.older += o.older;
            pass.younger += o.younger;
            pass.notes += o.notes;
            for h in &o.label_seqs {
                pass.distinct.insert(util::fnv64(format!("{}/{h}", o.sc.name()).as_bytes()));
            }
            for (i, n) in o.stats.per_level.iter().enumerate() {
                if pass.per_level.len() <= i {
                    pass.per_level.push(0);
                }
                pass.per_level[i] += n;
            }
            let done = o.stats.completed_bound;
            if (o.stats.capped || done != Some(o.bound)) && o.violations.is_empty() {
                pass.capped.push(format!("{} (bound {:?} of {})", o.sc.name(), done, o.bound));
            }
            if let Some(s) = o.sample
                && pass.samples.len() < 40
            {
                pass.samples.push(s);
            }
            pass.violations.extend(o.violations);
        }
        last_cost.insert(group, run.elapsed() - t0);
        eprintln!(
            "pass {group} writer(s), bound {bound}: {} scenarios, {} executions, {} capped, {} violations, {:.1}s (total {:.1}s)",
            n_scenarios,
            pass.execs,
            pass.capped.len(),
            pass.violations.len(),
            run.elapsed() - t0,
            run.elapsed()
        );
        let complete = pass.capped.is_empty();
        let has_violation = !pass.violations.is_empty();
        for v in std::mem::take(&mut pass.violations) {
            run.violation(v);
        }
        if complete || !committed.contains_key(&group) {
            committed.insert(group, pass);
        } else {
            run.cap_hit(&format!(
                "time budget: preemption bound {bound} for scenarios with {group} writer(s) stopped after {} executions ({} scenarios unfinished); those executions are counted separately",
                pass.execs,
                pass.capped.len()
            ));
            run.add("executions_in_unfinished_higher_bound_pass", pass.execs);
            gave_up.insert(group);
        }
        if has_violation {
            break;
        }
    }
    let mut samples: Vec<Value> = Vec::new();
    let mut n_scenarios = 0;
    for (group, pass) in &mut committed {
        run.add("evaluations", pass.execs);
        run.add("executions", pass.execs);
        run.add("scheduling_steps", pass.steps);
        run.add("executions_where_gc_reclaimed_something", pass.gc_deleted_execs);
        run.add("executions_writer_generation_older_than_gc_floor", pass.older);
        run.add("executions_writer_generation_at_or_after_gc_floor", pass.younger);
        run.add("gc_error_notes", pass.notes);
        for d in &pass.distinct {
            run.distinct(*d);
        }
        n_scenarios += pass.n_scenarios;
        pass.samples.sort_by_key(|s| s.to_string());
        // a spread of written-out cases: every 13th of the sorted list
        samples.extend(pass.samples.iter().step_by(13).cloned());
        let which = if *group == 1 { "one_writer" } else { "two_writers" };
        run.set(&format!("executions_per_preemption_level_{which}"), json!(pass.per_level));
        if pass.capped.is_empty() {
            run.set(&format!("preemption_bound_completed_{which}"), json!(pass.bound));
        } else {
            run.cap_hit(&format!(
                "time budget: {} scenario(s) with {group} writer(s) not explored to bound {}, e.g. {}",
                pass.capped.len(),
                pass.bound,
                pass.capped.iter().take(3).cloned().collect::<Vec<_>>().join("; ")
            ));
        }
    }
    for s in samples {
        run.sample(s);
    }
    run.set("scenarios", json!(n_scenarios));
    run.rule(
        "scenario = wrapper x start state with garbage {both keys, b absent, legacy a} x clock {advancing, frozen during the race} x \
         writers {one of put/multipart-complete/copy/delete/rename on either key; or two of them (same and different keys)} x \
         {writers through the collector's instance; writers through a second instance first polled after the collector captured its floor}; \
         one-writer scenarios additionally: copy / rename with the writers' instance holding stale cached pointers (another instance overwrote every key after it resolved them: the first backend copy misses, copy_payload re-resolves and copies into a second fresh generation under a second registration), \
         multipart complete as the REPEATED call on an uploader whose first complete() committed, and as the RETRY of a complete() that was abandoned right behind the materialisation of its generation (payload on the backend, pointer not switched); \
         per scenario every schedule of collect_garbage || writers up to the preemption bound, with two scheduling points per inner-store call (before its effect; after the effect, before the result is delivered) \
         (one evaluation = one execution on the real code, judged by: no collector delete of a referenced payload, after every single inner-store mutation every commit point's payload exists (= every crash point of the interleaved run), \
         live and cold instances read the same complete values, final state explained by an order of the operations' commit steps consistent with return order, \
         a further quiescent collection changes nothing); distinct non-trivial = distinct sequences of backend calls (generation ids renamed by first appearance) per scenario",
    );
    run.assume("suspension happens only at inner-store calls (before the effect and before the delivery of the result) and async locks; code between two such points is atomic (single-threaded cooperative schedule)");
    run.assume("writers through a second wrapper instance start after the collection started (the crate's documented cross-instance contract); an earlier foreign writer is outside the guarantee");
    run.assume("generation ids and the GC floor read the logical clock installed through the verif feature");
    run.finish();
}

//! C08, RETRY part — an operation whose first attempt was interrupted is
//! issued again (or followed by anything else) through the same, still
//! running wrapper instance.
//!
//! A history is a sequence of calls through ONE live wrapper instance:
//! calls on a multipart uploader that is already fed (`complete`, `abort`,
//! one more `put_part` while neither was called yet) and store calls (put, whole multipart put, copy,
//! rename, delete, collect_garbage), plus `reopen` (the process restarts: the
//! uploader dies, a cold instance takes over). Up to N calls of a history are
//! INTERRUPTED: answered with an injected fault at one of their backend
//! mutations (nothing landed / landed but an error is returned), at one of
//! their part uploads, or their future is dropped after p polls for every p
//! (every backend call is a suspension point before its effect and after it,
//! while the answer is in flight). The caller then carries on: repeats the
//! same call, calls something else, collects garbage.
//!
//! Oracle = the property statement: after every history a cold instance
//! reads every key, in full and through every read path, as the value the
//! model says (after an interrupted call: the value before it or the value it
//! was writing; once a retry returned Ok: exactly the new value); the live
//! instance agrees; every commit point's payload exists; the same holds at
//! every journal prefix inside the last call; garbage collection through a
//! restarted instance and through the live one removes nothing referenced
//! and changes no read.

use object_store::{MultipartUpload, ObjectStoreExt, PutPayload};
use serde::{Deserialize, Serialize};
use serde_json::{Value, json};
use std::collections::BTreeSet;
use std::future::Future;
use std::sync::atomic::{AtomicBool, Ordering};
use std::time::{Duration, Instant};
use vcore::ctlstore::{self, Answer, Content, CtlStore};
use vcore::{Run, Violation, util};
use vgc::*;

// ---------------------------------------------------------------------------
// histories

#[derive(Clone, Debug, PartialEq, Eq, Serialize, Deserialize)]
enum Letter {
    /// one more `put_part` on the uploader
    Part,
    Complete,
    Abort,
    /// the process restarts: the uploader is gone, a cold instance takes over
    Reopen,
    Store(Op),
}

impl Letter {
    fn kind(&self) -> &'static str {
        match self {
            Letter::Part => "part",
            Letter::Complete => "complete",
            Letter::Abort => "abort",
            Letter::Reopen => "reopen",
            Letter::Store(op) => op.kind(),
        }
    }
    fn label(&self) -> String {
        match self {
            Letter::Store(op) => op.label(),
            l => format!("upload.{}", l.kind()).replace("upload.reopen", "reopen"),
        }
    }
    fn needs_upload(&self) -> bool {
        matches!(self, Letter::Part | Letter::Complete | Letter::Abort)
    }
}

#[derive(Clone, Copy, Debug, PartialEq, Eq, Serialize, Deserialize)]
enum Intr {
    /// the n-th backend mutation of the call fails; `after`: it landed first
    Fault { n: u32, after: bool },
    /// the n-th part upload of the call fails (Cloud backend)
    PartFault { n: u32, after: bool },
    /// the call's future is polled `polls` times, then dropped
    Drop { polls: u32 },
}

impl Intr {
    fn kind(&self) -> &'static str {
        match self {
            Intr::Fault { after: false, .. } => "err-before",
            Intr::Fault { after: true, .. } => "err-after",
            Intr::PartFault { after: false, .. } => "part-err-before",
            Intr::PartFault { after: true, .. } => "part-err-after",
            Intr::Drop { .. } => "dropped",
        }
    }
}

#[derive(Clone, Copy, Debug, PartialEq, Eq, Serialize, Deserialize)]
enum RStart {
    /// a absent, b = v11
    Absent,
    /// a = v10, b = v11, generation layout
    Gen,
    /// a = v12, b = v13, pre-0.10 layout
    Legacy,
    /// EncryptedStore 0.9.x sealed pre-generation layout
    LegacySealed,
}

#[derive(Clone, Debug, Serialize, Deserialize)]
struct Case {
    kind: Kind,
    backend: Backend,
    start: RStart,
    /// an uploader on key a, both parts of v5 fed, exists when the history starts
    upload: bool,
    letters: Vec<Letter>,
    /// (position, interruption), ascending positions
    plan: Vec<(usize, Intr)>,
}

impl Case {
    fn name(&self) -> String {
        let calls: Vec<String> = self
            .letters
            .iter()
            .enumerate()
            .map(|(i, l)| match self.plan.iter().find(|(p, _)| *p == i) {
                Some((_, intr)) => format!("{}!{:?}", l.label(), intr),
                None => l.label(),
            })
            .collect();
        format!(
            "{} backend={:?} start={:?}{} [{}]",
            self.kind.name(),
            self.backend,
            self.start,
            if self.upload { " upload(a,v5) fed" } else { "" },
            calls.join(" ; ")
        )
    }
    /// kind of failing case: the interrupted calls with the way they were
    /// interrupted, and the last call
    fn shape(&self) -> String {
        let ints: Vec<String> = self
            .plan
            .iter()
            .map(|(p, i)| format!("{}!{}", self.letters[*p].kind(), i.kind()))
            .collect();
        format!(
            "{}:{}>{}",
            self.kind.name(),
            if ints.is_empty() { "none".to_string() } else { ints.join("+") },
            self.letters.last().map(|l| l.kind()).unwrap_or("nothing")
        )
    }
}

fn build_start(kind: Kind, start: RStart) -> (Content, Model) {
    let keys: &[u8] = match start {
        RStart::Legacy => return Start::LegacyAB(LegacyFlavor::Plain).build(kind),
        RStart::LegacySealed => return Start::LegacyAB(LegacyFlavor::SealedV1).build(kind),
        RStart::Absent => &[1],
        RStart::Gen => &[0, 1],
    };
    clock(500);
    let (store, _ctl) = CtlStore::new();
    let w = W::open(kind, store.clone());
    let mut m = empty_model();
    for k in keys {
        let op = Op::Put { k: *k, v: 10 + *k };
        util::block_on(run_op(&w, &op)).expect("setup put");
        m = model_step(&m, &op).0;
    }
    (ctlstore::snapshot(store.inner()), m)
}

/// The extra part of `Letter::Part`: 21 bytes (not chunk aligned), tag 9.
fn extra_part() -> Vec<u8> {
    (0..21u8).map(|i| 0x90 | (i & 0x0f)).collect()
}

// ---------------------------------------------------------------------------
// model

type Val = Option<Vec<u8>>;

#[derive(Clone)]
struct Mdl {
    /// committed truth (what a cold instance must read)
    keys: Model,
    /// what the live instance's metadata cache may still hold per key: every
    /// value the key had since the live instance's last successful commit on it
    lag: Vec<BTreeSet<Val>>,
    /// concatenation of the parts the uploader accepted
    parts: Vec<u8>,
}

impl Mdl {
    fn new(keys: Model) -> Mdl {
        let lag = keys.iter().map(|v| BTreeSet::from([v.clone()])).collect();
        Mdl {
            keys,
            lag,
            parts: Vec::new(),
        }
    }
    fn coherent(&self) -> bool {
        self.lag.iter().all(|s| s.len() == 1)
    }
}

struct Effect {
    /// committed state(s) the call may leave when it takes effect
    candidates: Vec<Model>,
    /// Some(true): must succeed when not interrupted; Some(false): must fail; None: either
    expect: Option<bool>,
    touched: Vec<usize>,
}

fn effect_of(m: &Mdl, letter: &Letter) -> Effect {
    let same = || vec![m.keys.clone()];
    match letter {
        Letter::Part | Letter::Abort | Letter::Reopen | Letter::Store(Op::Gc) => Effect {
            candidates: same(),
            expect: None,
            touched: vec![],
        },
        Letter::Complete => {
            let mut n = m.keys.clone();
            n[0] = Some(m.parts.clone());
            Effect {
                candidates: vec![n],
                expect: None,
                touched: vec![0],
            }
        }
        Letter::Store(Op::Put { k, v }) | Letter::Store(Op::Multipart { k, v }) => {
            let mut n = m.keys.clone();
            n[*k as usize] = Some(value(*v));
            Effect {
                candidates: vec![n],
                expect: Some(true),
                touched: vec![*k as usize],
            }
        }
        Letter::Store(Op::Delete { k }) => {
            let mut n = m.keys.clone();
            n[*k as usize] = None;
            Effect {
                candidates: vec![n],
                // delete_object resolves the commit point from the backend
                expect: Some(m.keys[*k as usize].is_some()),
                touched: vec![*k as usize],
            }
        }
        Letter::Store(Op::Copy { f, t }) | Letter::Store(Op::Rename { f, t, .. }) => {
            let (f, t) = (*f as usize, *t as usize);
            let rename = matches!(letter, Letter::Store(Op::Rename { .. }));
            let create = matches!(letter, Letter::Store(Op::Rename { create: true, .. }));
            // the source is resolved through the live instance's cache; the
            // target's create rule is checked against the backend
            let blocked = create && m.keys[t].is_some();
            let mut candidates = Vec::new();
            for src in &m.lag[f] {
                if let Some(val) = src
                    && !blocked
                {
                    let mut n = m.keys.clone();
                    n[t] = Some(val.clone());
                    if rename {
                        n[f] = None;
                    }
                    if !candidates.contains(&n) {
                        candidates.push(n);
                    }
                }
            }
            let expect = if blocked || m.lag[f].iter().all(|s| s.is_none()) {
                Some(false)
            } else if m.lag[f].iter().all(|s| s.is_some()) {
                Some(true)
            } else {
                None
            };
            Effect {
                candidates,
                expect,
                touched: if rename { vec![f, t] } else { vec![t] },
            }
        }
    }
}

// ---------------------------------------------------------------------------
// driving one call with every backend call as a suspension point

/// Polls `f` until it is ready or `max_polls` polls were made; returns the
/// output (None = dropped while pending) and the number of polls.
fn drive<F: Future>(f: F, max_polls: Option<u32>) -> (Option<F::Output>, u32) {
    drive_until(f, |polls| max_polls == Some(polls))
}

#[derive(Clone, Debug, PartialEq, Eq)]
enum Outcome {
    Ok,
    Err(String),
    Dropped,
}

#[derive(Clone, Debug)]
struct CallRec {
    attempts: u32,
    part_calls: u32,
    polls: u32,
    outcome: Outcome,
}

#[derive(Default)]
struct ExecOut {
    calls: Vec<CallRec>,
    problems: Vec<(String, String)>,
    final_state: String,
    counters: Vec<(&'static str, u64)>,
    /// the last call re-published the generation that was already committed
    republished: bool,
    trace: Vec<String>,
}

impl ExecOut {
    fn add(&mut self, k: &'static str, n: u64) {
        if let Some(e) = self.counters.iter_mut().find(|e| e.0 == k) {
            e.1 += n;
        } else {
            self.counters.push((k, n));
        }
    }
}

fn short_err(e: &object_store::Error) -> String {
    without_salt(&e.to_string()).chars().take(140).collect()
}

/// Generation ids are `<16 hex timestamp>-<8 hex random salt>`: the salt is
/// blanked so that written-out cases are the same in every run.
fn without_salt(text: &str) -> String {
    let b = text.as_bytes();
    let mut out = String::with_capacity(text.len());
    let mut i = 0;
    while i < b.len() {
        let is_id = i + 25 <= b.len()
            && b[i + 16] == b'-'
            && b[i..i + 25].iter().enumerate().all(|(j, c)| j == 16 || c.is_ascii_hexdigit());
        if is_id {
            out.push_str(&text[i..i + 17]);
            out.push_str("********");
            i += 25;
        } else {
            // text is ASCII where ids are; copy whole chars otherwise
            let ch = text[i..].chars().next().expect("char");
            out.push(ch);
            i += ch.len_utf8();
        }
    }
    out
}

fn view_in(view: &View, allowed: &[Model]) -> bool {
    view.as_model().is_some_and(|m| allowed.contains(&m))
}

fn describe_models(ms: &[Model]) -> String {
    ms.iter().map(|m| format!("[{}]", describe_model(m))).collect::<Vec<_>>().join(" or ")
}

/// Per-key judgement of a cold view after a call that did not (visibly)
/// complete: every key reads its value before the call or one the call was writing.
fn judge_ambiguous(view: &View, before: &Model, eff: &Effect, letter: &Letter) -> Vec<(String, String)> {
    let mut out = Vec::new();
    for a in &view.anomalies {
        out.push(("listing-anomaly".to_string(), a.clone()));
    }
    for (i, o) in view.keys.iter().enumerate() {
        let mut allowed: Vec<Val> = vec![before[i].clone()];
        for c in &eff.candidates {
            if !allowed.contains(&c[i]) {
                allowed.push(c[i].clone());
            }
        }
        let got: Val = match o {
            Obs::Broken(e) => {
                out.push(("unreadable-key".into(), format!("{}: {e}", KEYS[i])));
                continue;
            }
            Obs::Absent => None,
            Obs::Value(v) => Some(v.clone()),
        };
        if !allowed.contains(&got) {
            out.push((
                "neither-old-nor-new".into(),
                format!(
                    "{} reads {}; allowed: {}",
                    KEYS[i],
                    o.describe(),
                    allowed
                        .iter()
                        .map(|v| v.as_ref().map(|v| describe_value(v)).unwrap_or_else(|| "absent".into()))
                        .collect::<Vec<_>>()
                        .join(" or ")
                ),
            ));
        }
    }
    if let Letter::Store(Op::Rename { f, t, .. }) = letter {
        // once the source is gone the destination holds the moved value
        let (f, t) = (*f as usize, *t as usize);
        if before[f].is_some()
            && view.keys[f] == Obs::Absent
            && !eff
                .candidates
                .iter()
                .any(|c| view.keys[t] == c[t].clone().map(Obs::Value).unwrap_or(Obs::Absent))
        {
            out.push((
                "rename-lost-value".into(),
                format!("source {} is gone but destination {} reads {}", KEYS[f], KEYS[t], view.keys[t].describe()),
            ));
        }
    }
    out
}

fn dangling(content: &Content) -> Vec<String> {
    referenced_payloads(content)
        .into_iter()
        .filter(|(_, p)| !content.contains_key(p))
        .map(|(meta, p)| format!("{meta} -> {p}, which is not in the store"))
        .collect()
}

/// Reads of the live instance. With a coherent cache: the full battery must
/// equal the cold view. While the cache may lag (after an interrupted call):
/// a full get of every key returns one of the values the key had.
fn judge_live(live: &W, m: &Mdl, cold: &View, phase: &str, out: &mut ExecOut) {
    if m.coherent() {
        let v = util::block_on(observe_all(live.os()));
        if v != *cold {
            out.problems.push((
                "live-instance-disagrees".into(),
                format!("[{phase}] live instance reads {} but a cold instance reads {}", v.describe(), cold.describe()),
            ));
        }
        return;
    }
    out.add("live_reads_with_possibly_lagging_cache", 1);
    for k in 0..KEYS.len() {
        let got: Result<Val, String> = util::block_on(async {
            match live.os().get(&key_path(k as u8)).await {
                Ok(r) => match r.bytes().await {
                    Ok(b) => Ok(Some(b.to_vec())),
                    Err(e) => Err(format!("body: {}", short_err(&e))),
                },
                Err(object_store::Error::NotFound { .. }) => Ok(None),
                Err(e) => Err(short_err(&e)),
            }
        });
        match got {
            Ok(v) if m.lag[k].contains(&v) => {}
            Ok(v) => out.problems.push((
                "live-instance-wrong-value".into(),
                format!(
                    "[{phase}] live get({}) = {}; committed {}, the cache may hold one of {} values",
                    KEYS[k],
                    v.as_ref().map(|v| describe_value(v)).unwrap_or_else(|| "absent".into()),
                    describe_model(&m.keys),
                    m.lag[k].len()
                ),
            )),
            Err(e) => out.problems.push(("live-instance-read-error".into(), format!("[{phase}] get({}): {e}", KEYS[k]))),
        }
    }
}

/// Runs one history. `judge` = false: only the calls are made (their backend
/// call and poll counts are wanted), nothing is read or compared.
fn exec(case: &Case, want_trace: bool, judge: bool) -> ExecOut {
    let mut out = ExecOut::default();
    let kind = case.kind;
    let (content0, m0) = build_start(kind, case.start);
    let inner = ctlstore::restore(&content0);
    let (store, ctl) = CtlStore::over(inner.clone());
    let (upstore, upctl) = UpStore::new(store.clone(), case.backend);
    let mut live = W::open_up(kind, upstore.clone());
    let mut m = Mdl::new(m0);

    clock(5000);
    let mut uploader: Option<Box<dyn MultipartUpload>> = None;
    if case.upload {
        uploader = Some(util::block_on(multipart_begin(&live, 0, 5)).expect("begin upload"));
        m.parts = value(5);
    }
    let committed_generation = |content: &Content| referenced_payloads(content).get("meta/a").cloned();

    let n = case.letters.len();
    for (i, letter) in case.letters.iter().enumerate() {
        let last = i + 1 == n;
        clock(6000 + 1000 * i as u64);
        if *letter == Letter::Reopen {
            uploader = None;
            live = W::open_up(kind, upstore.clone());
            m = Mdl {
                parts: m.parts.clone(),
                ..Mdl::new(m.keys.clone())
            };
            out.calls.push(CallRec {
                attempts: 0,
                part_calls: 0,
                polls: 0,
                outcome: Outcome::Ok,
            });
            if !last {
                continue;
            }
        }
        let intr = case.plan.iter().find(|(p, _)| *p == i).map(|(_, x)| *x);
        let eff = effect_of(&m, letter);
        let before = m.clone();
        let content_before = if last && judge { Some(ctlstore::snapshot(&inner)) } else { None };
        let (j0, a0, p0) = (ctl.journal_len(), ctl.mutation_attempts(), upctl.part_calls());
        let mut max_polls = None;
        match intr {
            Some(Intr::Fault { n, after }) => ctl.script(a0 + n as u64, if after { Answer::ErrAfter } else { Answer::ErrBefore }),
            Some(Intr::PartFault { n, after }) => {
                upctl.script_part(p0 + n as u64, if after { Answer::ErrAfter } else { Answer::ErrBefore })
            }
            Some(Intr::Drop { polls }) => max_polls = Some(polls),
            None => {}
        }

        // --- the call, every backend call a suspension point
        let outcome = if *letter == Letter::Reopen {
            Outcome::Ok
        } else {
            ctl.set_post_gate(true);
            ctl.set_gate(true);
            upctl.set_part_gate(true);
            let (r, polls): (Option<object_store::Result<()>>, u32) = match letter {
                Letter::Part => {
                    let up = uploader.as_mut().expect("uploader");
                    drive(up.put_part(PutPayload::from(extra_part())), max_polls)
                }
                Letter::Complete => {
                    let up = uploader.as_mut().expect("uploader");
                    drive(async { up.complete().await.map(|_| ()) }, max_polls)
                }
                Letter::Abort => {
                    let up = uploader.as_mut().expect("uploader");
                    drive(up.abort(), max_polls)
                }
                Letter::Store(op) => drive(run_op(&live, op), max_polls),
                Letter::Reopen => unreachable!(),
            };
            ctl.set_gate(false);
            upctl.set_part_gate(false);
            let consumed_fault = match intr {
                Some(Intr::Fault { n, .. }) => ctl.mutation_attempts() > a0 + n as u64,
                Some(Intr::PartFault { n, .. }) => upctl.part_calls() > p0 + n as u64,
                _ => true,
            };
            ctl.reset_faults();
            upctl.reset_faults();
            let outcome = match r {
                None => Outcome::Dropped,
                Some(Ok(())) => Outcome::Ok,
                Some(Err(e)) => Outcome::Err(short_err(&e)),
            };
            out.calls.push(CallRec {
                attempts: (ctl.mutation_attempts() - a0) as u32,
                part_calls: (upctl.part_calls() - p0) as u32,
                polls,
                outcome: outcome.clone(),
            });
            if intr.is_some() && !consumed_fault {
                out.problems.push((
                    "note:fault-not-reached".into(),
                    format!("call #{i} {} made fewer backend calls than planned", letter.label()),
                ));
            }
            outcome
        };
        if want_trace {
            out.trace.push(format!(
                "#{i} {}{} -> {:?}; backend mutations: {:?}",
                letter.label(),
                intr.map(|x| format!(" !{x:?}")).unwrap_or_default(),
                outcome,
                ctl.journal_from(j0).iter().map(|e| without_salt(&e.mutation.label())).collect::<Vec<_>>()
            ));
        }
        if !judge {
            continue;
        }

        // --- what the model says
        let is_gc = matches!(letter, Letter::Store(Op::Gc));
        let must_settle; // a cold read decides between several permitted states
        let mut allowed_after: Vec<Model>;
        match &outcome {
            Outcome::Ok => {
                if eff.expect == Some(false) {
                    out.problems.push((
                        "unexpected-success".into(),
                        format!("call #{i} {} returned Ok from {}", letter.label(), describe_model(&m.keys)),
                    ));
                    return out;
                }
                if *letter == Letter::Part {
                    m.parts.extend_from_slice(&extra_part());
                }
                allowed_after = eff.candidates.clone();
                if allowed_after.is_empty() {
                    allowed_after = vec![m.keys.clone()];
                }
                must_settle = allowed_after.len() > 1;
            }
            Outcome::Err(e) => {
                if intr.is_none() && eff.expect == Some(true) && !is_gc {
                    out.problems.push((
                        "unexpected-failure".into(),
                        format!("call #{i} {} (no fault in it) failed from {}: {e}", letter.label(), describe_model(&m.keys)),
                    ));
                    return out;
                }
                if is_gc {
                    out.add("gc_errors_observed", 1);
                }
                allowed_after = vec![];
                must_settle = !eff.touched.is_empty();
            }
            Outcome::Dropped => {
                allowed_after = vec![];
                must_settle = !eff.touched.is_empty();
            }
        }
        let finished_ok = outcome == Outcome::Ok;
        if finished_ok && !must_settle {
            m.keys = allowed_after[0].clone();
        }
        let cold_now = if must_settle || last {
            let v = util::block_on(observe_all(W::open_up(kind, upstore.clone()).os()));
            let problems: Vec<(String, String)> = if finished_ok {
                if view_in(&v, &allowed_after) {
                    vec![]
                } else {
                    let mut p: Vec<(String, String)> = judge_ambiguous(&v, &before.keys, &eff, letter)
                        .into_iter()
                        .filter(|(c, _)| c != "neither-old-nor-new")
                        .collect();
                    if p.is_empty() {
                        p.push((
                            "ok-but-wrong-state".into(),
                            format!("a cold instance reads {}; expected {}", v.describe(), describe_models(&allowed_after)),
                        ));
                    }
                    p
                }
            } else {
                judge_ambiguous(&v, &before.keys, &eff, letter)
            };
            if !problems.is_empty() {
                for (c, d) in problems {
                    out.problems.push((c, format!("after call #{i} {} -> {:?}: {d}", letter.label(), outcome)));
                }
                out.final_state = v.describe();
                return out;
            }
            m.keys = v.as_model().expect("judged view is a model");
            Some(v)
        } else {
            None
        };
        // the live instance's cache: a call that returned Ok and itself
        // wrote or removed the key's commit point leaves the cache exact; a
        // call that found nothing to commit (a rename whose source delete
        // already landed in the interrupted attempt) does not refresh it
        let journal_now = ctl.journal_from(j0);
        for k in &eff.touched {
            let meta = format!("meta/{}", KEYS[*k]);
            let committed_here = journal_now.iter().any(|e| e.mutation.path() == meta);
            if finished_ok && committed_here {
                m.lag[*k] = BTreeSet::from([m.keys[*k].clone()]);
            } else {
                m.lag[*k].insert(before.keys[*k].clone());
                m.lag[*k].insert(m.keys[*k].clone());
            }
        }
        if !last {
            continue;
        }

        // ------------------------------------------------------------------
        // the full battery after the last call
        let cold = cold_now.expect("cold view of the last call");
        out.final_state = cold.describe();
        let content = ctlstore::snapshot(&inner);
        for d in dangling(&content) {
            out.problems.push(("commit-references-missing-payload".into(), format!("after the history: {d}")));
        }
        let content_before = content_before.expect("snapshot before the last call");
        if finished_ok
            && eff.touched.contains(&0)
            && committed_generation(&content_before).is_some()
            && committed_generation(&content_before) == committed_generation(&content)
        {
            out.republished = true;
        }
        // every journal prefix strictly inside the last call (= a crash there)
        let journal = ctl.journal_from(j0);
        let mut partial = content_before.clone();
        let both = Effect {
            candidates: {
                let mut c = eff.candidates.clone();
                c.push(m.keys.clone());
                c
            },
            expect: None,
            touched: eff.touched.clone(),
        };
        for (j, e) in journal.iter().enumerate() {
            ctlstore::apply(&mut partial, &e.mutation);
            if j + 1 == journal.len() {
                break;
            }
            out.add("crash_states_inside_the_last_call", 1);
            let inner_j = ctlstore::restore(&partial);
            let (sj, _) = CtlStore::over(inner_j);
            let vj = util::block_on(observe_all(W::open(kind, sj).os()));
            for (c, d) in judge_ambiguous(&vj, &before.keys, &both, letter) {
                out.problems.push((
                    c,
                    format!("crash after mutation #{} ({}) of the last call {}: {d}", j + 1, e.mutation.label(), letter.label()),
                ));
            }
        }
        if partial != content {
            vcore::report::machinery("RETRY: journal replay does not reproduce the inner store");
        }
        judge_live(&live, &m, &cold, "after the history", &mut out);
        if !out.problems.iter().all(|(c, _)| c.starts_with("note:")) {
            return out;
        }

        // garbage collection by a restarted instance, on a copy of the store
        clock(1_000_000);
        let copy = ctlstore::restore(&content);
        let (sc, _) = CtlStore::over(copy.clone());
        match util::block_on(W::open(kind, sc.clone()).gc()) {
            Ok(nr) => {
                out.add("gc_runs", 1);
                out.add("gc_objects_reclaimed", nr as u64);
            }
            Err(_) => out.add("gc_errors_observed", 1),
        }
        for d in damaged_by_gc(&content, &ctlstore::snapshot(&copy)) {
            out.problems.push(("gc-removed-referenced-payload".into(), format!("restarted instance: {d}")));
        }
        let v = util::block_on(observe_all(W::open(kind, sc).os()));
        if v != cold {
            out.problems.push((
                "read-changed-by-gc".into(),
                format!("restarted instance collected: before {} after {}", cold.describe(), v.describe()),
            ));
        }
        // garbage collection through the live instance (the uploader, if any, still exists)
        clock(900_000);
        match util::block_on(live.gc()) {
            Ok(nr) => {
                out.add("gc_runs", 1);
                out.add("gc_objects_reclaimed", nr as u64);
            }
            Err(_) => out.add("gc_errors_observed", 1),
        }
        for d in damaged_by_gc(&content, &ctlstore::snapshot(&inner)) {
            out.problems.push(("gc-removed-referenced-payload".into(), format!("live instance: {d}")));
        }
        let v = util::block_on(observe_all(W::open_up(kind, upstore.clone()).os()));
        if v != cold {
            out.problems.push((
                "read-changed-by-gc".into(),
                format!("live instance collected: before {} after {}", cold.describe(), v.describe()),
            ));
        }
        judge_live(&live, &m, &cold, "after collect_garbage through the live instance", &mut out);
    }
    drop(uploader);
    out
}

// ---------------------------------------------------------------------------
// enumeration

fn variants(rec: &CallRec, backend: Backend) -> Vec<Intr> {
    let mut v = Vec::new();
    for n in 0..rec.attempts {
        v.push(Intr::Fault { n, after: false });
        v.push(Intr::Fault { n, after: true });
    }
    if backend == Backend::Cloud {
        for n in 0..rec.part_calls {
            v.push(Intr::PartFault { n, after: false });
            v.push(Intr::PartFault { n, after: true });
        }
    }
    for polls in 1..rec.polls {
        v.push(Intr::Drop { polls });
    }
    v
}

#[derive(Default)]
struct Acc {
    counters: Vec<(&'static str, u64)>,
    distinct: Vec<u64>,
    violations: Vec<(Case, Violation)>,
    samples: Vec<Value>,
}

/// Identity of the first `len` calls of a case (with the interruptions among them).
fn prefix_key(case: &Case, len: usize) -> String {
    let plan: Vec<&(usize, Intr)> = case.plan.iter().filter(|(p, _)| *p < len).collect();
    format!(
        "{:?}/{:?}/{:?}/{}/{:?}/{:?}",
        case.kind,
        case.backend,
        case.start,
        case.upload,
        &case.letters[..len],
        plan
    )
}

impl Acc {
    fn add(&mut self, k: &'static str, n: u64) {
        if let Some(e) = self.counters.iter_mut().find(|e| e.0 == k) {
            e.1 += n;
        } else {
            self.counters.push((k, n));
        }
    }
}

fn violation_of(case: &Case, class: &str, detail: &str) -> Violation {
    Violation {
        signature: format!("retry:{}:{class}", case.shape()),
        summary: format!("{}: {class}: {detail}", case.name()),
        replay: json!({"case": case}),
    }
}

/// Runs `case` and, while interruptions are left, every case that interrupts
/// one more (later) call in every way that call can be interrupted. Cases
/// with fewer than `count_from` interruptions belong to an earlier stage:
/// they are only run for their call counts.
fn enumerate(case: &Case, more: u32, count_from: u32, deadline: Instant, expired: &AtomicBool, acc: &mut Acc) {
    if Instant::now() >= deadline {
        expired.store(true, Ordering::SeqCst);
        return;
    }
    let judged = case.plan.len() as u32 >= count_from;
    let ex = exec(case, false, judged);
    let mut bad = false;
    if judged {
        acc.add("evaluations", 1);
        acc.add("calls_run", ex.calls.len() as u64);
        for (k, n) in &ex.counters {
            acc.add(k, *n);
        }
        if !case.plan.is_empty() {
            acc.add("histories_with_an_interrupted_call", 1);
            acc.distinct.push(util::fnv64(case.name().as_bytes()));
            if let Some((p, _)) = case.plan.last()
                && *p + 1 < case.letters.len()
                && case.letters[*p + 1..].contains(&case.letters[*p])
            {
                acc.add("histories_repeating_an_interrupted_call", 1);
            }
        }
        for (p, _) in &case.plan {
            match ex.calls.get(*p).map(|c| &c.outcome) {
                Some(Outcome::Dropped) => acc.add("calls_dropped_while_pending", 1),
                Some(Outcome::Err(_)) => acc.add("calls_answered_with_an_injected_fault", 1),
                Some(Outcome::Ok) => acc.add("interrupted_calls_that_still_returned_ok", 1),
                None => {}
            }
        }
        if ex.republished {
            acc.add("last_call_republished_the_committed_generation", 1);
        }
        for (class, detail) in &ex.problems {
            if class.starts_with("note:") {
                acc.add("notes", 1);
                continue;
            }
            bad = true;
            if acc.violations.len() < 24 {
                acc.violations.push((case.clone(), violation_of(case, class, detail)));
            }
        }
        if acc.samples.len() < 2 && ex.republished && !case.plan.is_empty() {
            let t = exec(case, true, true);
            acc.samples.push(json!({"history": case.name(), "calls": t.trace, "final_state": t.final_state}));
        }
    } else {
        acc.add("histories_rerun_only_to_count_their_backend_calls", 1);
    }
    if bad || more == 0 {
        return;
    }
    let from = case.plan.last().map(|(p, _)| p + 1).unwrap_or(0);
    for pos in from..case.letters.len() {
        // put_part calls of the caller and restarts are not interrupted
        if matches!(case.letters[pos], Letter::Part | Letter::Reopen) {
            continue;
        }
        let Some(rec) = ex.calls.get(pos) else { break };
        for intr in variants(rec, case.backend) {
            let mut c = case.clone();
            c.plan.push((pos, intr));
            enumerate(&c, more - 1, count_from, deadline, expired, acc);
        }
    }
}

fn upload_letters(thorough: bool) -> Vec<Letter> {
    let mut v = vec![
        Letter::Complete,
        Letter::Abort,
        Letter::Part,
        Letter::Store(Op::Put { k: 0, v: 6 }),
        Letter::Store(Op::Delete { k: 0 }),
        Letter::Store(Op::Gc),
    ];
    if thorough {
        v.push(Letter::Store(Op::Copy { f: 0, t: 1 }));
        v.push(Letter::Store(Op::Rename {
            f: 1,
            t: 0,
            create: false,
        }));
        v.push(Letter::Reopen);
    }
    v
}

fn store_letters() -> Vec<Letter> {
    // the crash part's 13 operations, one fixed value: a repeated letter is the same request
    let mut v: Vec<Letter> = alphabet(5).into_iter().map(Letter::Store).collect();
    v.push(Letter::Reopen);
    v
}

/// Number of calls of a history; with `free_restart` a restart between two
/// calls does not count.
fn n_calls(h: &[Letter], free_restart: bool) -> usize {
    if free_restart {
        h.iter().filter(|l| **l != Letter::Reopen).count()
    } else {
        h.len()
    }
}

fn histories(letters: &[Letter], max_calls: usize, upload: bool, free_restart: bool) -> Vec<Vec<Letter>> {
    let mut out: Vec<Vec<Letter>> = vec![];
    let mut level: Vec<Vec<Letter>> = vec![vec![]];
    let max_letters = if free_restart { 2 * max_calls - 1 } else { max_calls };
    for _ in 0..max_letters {
        let mut next = Vec::new();
        for h in &level {
            for l in letters {
                // the uploader does not survive a restart
                if l.needs_upload() && (!upload || h.contains(&Letter::Reopen)) {
                    continue;
                }
                // feeding parts to an upload on which complete() or abort()
                // was already called (with whatever outcome) is outside the
                // API as specified (object_store: implementation defined)
                if *l == Letter::Part && (h.contains(&Letter::Complete) || h.contains(&Letter::Abort)) {
                    continue;
                }
                // a restart right at the start or twice in a row adds nothing
                if *l == Letter::Reopen && h.last().is_none_or(|p| *p == Letter::Reopen) {
                    continue;
                }
                let mut n = h.clone();
                n.push(l.clone());
                if n_calls(&n, free_restart) > max_calls {
                    continue;
                }
                next.push(n);
            }
        }
        out.extend(next.iter().cloned());
        level = next;
    }
    if free_restart {
        // a restart after the last call is what the cold reads of the battery already are
        out.retain(|h| h.last() != Some(&Letter::Reopen));
    }
    out
}

fn main() {
    let mut run = Run::from_args("C08", "retry", "fault_enumeration");

    if let Some(file) = run.replay_file.clone() {
        let v: Value = serde_json::from_slice(&std::fs::read(&file).expect("read replay")).expect("json");
        let case: Case = serde_json::from_value(v["replay"]["case"].clone()).expect("case");
        let ex = exec(&case, true, true);
        run.add("evaluations", 1);
        println!("replayed {}", case.name());
        for l in &ex.trace {
            println!("  {l}");
        }
        println!("final state (cold instance): {}", ex.final_state);
        for (class, detail) in &ex.problems {
            if class.starts_with("note:") {
                continue;
            }
            run.violation(violation_of(&case, class, detail));
        }
        run.finish();
    }

    let thorough = run.tier == vcore::Tier::Thorough;
    let deadline = Instant::now() + Duration::from_secs_f64(run.remaining_s());
    // A stage = (name, uploader present, letters, history lengths min..=max,
    // letters of which a history must contain one (None: any), interruptions
    // per history min..=max). Stages do not overlap; they run in this order
    // and the budget may stop the thorough tier between or inside the later ones.
    struct Stage {
        name: &'static str,
        upload: bool,
        letters: Vec<Letter>,
        len: (usize, usize),
        must_contain: Option<Vec<Letter>>,
        intr: (u32, u32),
        /// a restart between two calls does not count as a call
        free_restart: bool,
    }
    let extra: Vec<Letter> = upload_letters(true).into_iter().filter(|l| !upload_letters(false).contains(l)).collect();
    let mut stages = vec![
        Stage {
            name: "upload: <=3 calls over 6 letters, <=1 interrupted",
            upload: true,
            letters: upload_letters(false),
            len: (1, 3),
            must_contain: None,
            intr: (0, 1),
 free_restart: false,
        },
        Stage {
            name: "store: <=2 calls (a restart between them or not), <=1 interrupted",
            upload: false,
            letters: store_letters(),
            len: (1, 2),
            must_contain: None,
            intr: (0, 1),
 free_restart: true,
        },
    ];
    if thorough {
        stages.extend([
            Stage {
                name: "store: 2 calls (a restart between them or not), 2 interrupted",
                upload: false,
                letters: store_letters(),
                len: (2, 2),
                must_contain: None,
                intr: (2, 2),
 free_restart: true,
            },
            Stage {
                name: "upload: <=3 calls over 6 letters, 2 interrupted",
                upload: true,
                letters: upload_letters(false),
                len: (2, 3),
                must_contain: None,
                intr: (2, 2),
 free_restart: false,
            },
            Stage {
                name: "upload: <=3 calls with copy / rename / restart, <=1 interrupted",
                upload: true,
                letters: upload_letters(true),
                len: (1, 3),
                must_contain: Some(extra.clone()),
                intr: (0, 1),
 free_restart: false,
            },
            Stage {
                name: "store: 3 calls without restart, <=1 interrupted",
                upload: false,
                letters: store_letters().into_iter().filter(|l| *l != Letter::Reopen).collect(),
                len: (3, 3),
                must_contain: None,
                intr: (0, 1),
 free_restart: false,
            },
            Stage {
                name: "upload: 4 calls over 6 letters, <=1 interrupted",
                upload: true,
                letters: upload_letters(false),
                len: (4, 4),
                must_contain: None,
                intr: (0, 1),
 free_restart: false,
            },
        ]);
    }
    let mut n_histories = 0u64;
    let mut samples: Vec<Value> = Vec::new();
    let mut violations: Vec<(Case, Violation)> = Vec::new();
    let mut completed: Vec<&str> = Vec::new();
    for stage in &stages {
        let hs: Vec<Vec<Letter>> = histories(&stage.letters, stage.len.1, stage.upload, stage.free_restart)
            .into_iter()
            .filter(|h| n_calls(h, stage.free_restart) >= stage.len.0)
            .filter(|h| stage.must_contain.as_ref().is_none_or(|m| h.iter().any(|l| m.contains(l))))
            .collect();
        let mut items: Vec<Case> = Vec::new();
        for kind in [Kind::Meta, Kind::Enc] {
            let mut starts = vec![RStart::Gen, RStart::Absent, RStart::Legacy];
            if kind == Kind::Enc {
                starts.push(RStart::LegacySealed);
            }
            for start in starts {
                // the upload model only matters where an uploader exists
                let backends: &[Backend] = if stage.upload { &[Backend::Memory, Backend::Cloud] } else { &[Backend::Memory] };
                for backend in backends {
                    for h in &hs {
                        items.push(Case {
                            kind,
                            backend: *backend,
                            start,
                            upload: stage.upload,
                            letters: h.clone(),
                            plan: vec![],
                        });
                    }
                }
            }
        }
        if stage.intr.0 == 0 {
            n_histories += items.len() as u64;
        }
        // par_map pops from the end: longest histories first
        items.sort_by_key(|c| c.letters.len());
        let expired = AtomicBool::new(false);
        let accs = util::par_map(items, util::n_threads(), |case| {
            let mut acc = Acc::default();
            enumerate(&case, stage.intr.1, stage.intr.0, deadline, &expired, &mut acc);
            acc
        });
        for acc in accs {
            for (k, n) in &acc.counters {
                run.add(k, *n);
            }
            for d in &acc.distinct {
                run.distinct(*d);
            }
            samples.extend(acc.samples);
            violations.extend(acc.violations);
        }
        eprintln!("stage [{}] done at {:.1}s: evaluations={}", stage.name, run.elapsed(), run.get("evaluations"));
        if expired.load(Ordering::SeqCst) {
            run.cap_hit(&format!("time budget: stopped inside stage [{}]; later stages not run", stage.name));
            break;
        }
        completed.push(stage.name);
        if !violations.is_empty() {
            break;
        }
    }
    // every prefix of a history is a history of its own: report a failure
    // where it first shows, not again for every continuation
    let failing: BTreeSet<String> = violations.iter().map(|(c, _)| prefix_key(c, c.letters.len())).collect();
    let mut continuations = 0u64;
    for (case, v) in violations {
        if (1..case.letters.len()).any(|len| failing.contains(&prefix_key(&case, len))) {
            continuations += 1;
            continue;
        }
        run.violation(v);
    }
    if continuations > 0 {
        run.add("violations_not_listed_because_a_shorter_history_already_fails", continuations);
    }
    samples.sort_by_key(|s| s.to_string());
    let step = (samples.len() / 5).max(1);
    for s in samples.into_iter().step_by(step).take(6) {
        run.sample(s);
    }
    run.add("histories_without_interruption", n_histories);
    run.set("stages_completed", json!(completed));
    run.rule(
        "history = calls through one live wrapper instance; upload family: an uploader on key a fed with two parts, then calls over \
         {complete, abort, one more put_part (only before the first complete/abort call), put(a), delete(a), collect_garbage} (thorough + copy(a->b), rename(b->a), restart), backend upload models {InMemory: complete may be repeated, abort is a no-op; \
         cloud: part uploads are calls that can fail or be abandoned, a missing part fails complete, a completed or aborted upload id is gone}; store family: calls over the crash part's 13 operations \
         (one fixed value, so a repeated letter is the same request), with or without a restart (cold instance takes over) between two calls; both wrappers, start states {a and b in the generation layout, a absent, both pre-0.10 (+ 0.9.x sealed)}; \
         bounds: quick = upload family <= 3 calls, store family <= 2 calls, <= 1 interrupted call per history; thorough adds, in this order while the budget lasts (see stages_completed): 2 interrupted calls (store <= 2, upload <= 3 calls), \
         the three extra upload-family letters, store family 3 calls, upload family 4 calls; \
         an interrupted call is interrupted in EVERY way it admits: each of its backend mutations answered ErrBefore / ErrAfter, each of its part uploads likewise (cloud), \
         its future dropped after p polls for every p below the number it needs (every backend call suspends before its effect and again after it); \
         one evaluation = one history on the real code, judged after its last call (every prefix is a history of its own): cold instance (get, ranged gets, head, list) = the model (after an interrupted call: the value before it or the one it was writing, per key; \
         after an Ok exactly the new state), every commit point's payload exists, the same at every journal prefix inside the last call, the live instance agrees (while its cache may lag after an interrupted call: \
         a full get returns a value the key had since), collect_garbage by a restarted instance and by the live one removes nothing referenced and changes no read; \
         distinct non-trivial = histories with at least one interrupted call",
    );
    run.assume("put_part calls issued by the caller are not interrupted (a failed part ends an upload for its caller); interrupted calls inside a history are otherwise unrestricted");
    run.assume("a call whose future is dropped stops at a backend call (before its effect or while its answer is in flight); code between two backend calls is atomic");
    run.assume("the live instance's metadata cache may lag behind a commit of its own interrupted call until its next successful commit on that key (documented read-through cache); a copy may then copy the lagging version");
    run.assume("generation ids and the GC floor read the logical clock installed through the verif feature");
    run.finish();
}

//! C08, CRASH part — wrapper writes are atomic under crashes; garbage
//! collection after any crash is safe.
//!
//! Enumerates every operation sequence up to a depth over the alphabet
//! {put, multipart put, copy, rename (both target modes), delete,
//! collect_garbage} x two keys, for both wrappers and for start states that
//! contain pre-0.10 ("legacy") objects. Each sequence runs once through one
//! wrapper instance over a journalling `CtlStore`; then for every prefix of
//! the inner-store mutation journal that ends inside (or at the end of) the
//! LAST operation — crash points inside earlier operations belong to the
//! shorter sequences, which are enumerated too — the crash state
//! `initial content + journal[0..k]` is rebuilt and examined through fresh
//! wrapper instances.

use object_store::{Error, ObjectStore, ObjectStoreExt, path::Path};
use serde::{Deserialize, Serialize};
use serde_json::{Value, json};
use std::sync::atomic::{AtomicBool, Ordering};
use std::time::{Duration, Instant};
use vcore::ctlstore::{self, Content, CtlStore};
use vcore::{Run, Violation, util};
use vgc::*;

#[derive(Clone, Debug)]
struct Case {
    kind: Kind,
    start: Start,
    seq: Vec<Op>,
}

/// How much is done per crash state.
#[derive(Clone, Copy, Debug, PartialEq, Eq, PartialOrd, Ord)]
enum Effort {
    /// cold read vs {old,new}; collect_garbage; re-read through three
    /// instances; direct inner-store comparison
    Light,
    /// + collect_garbage interrupted after each of its mutations; recovery puts
    Standard,
    /// + every single operation of the alphabet from the crash state
    Full,
}

#[derive(Clone, Copy)]
struct Cfg {
    effort: Effort,
}

#[derive(Default)]
struct Out {
    counters: Vec<(&'static str, u64)>,
    distinct: Vec<u64>,
    violations: Vec<Violation>,
    samples: Vec<Value>,
}

impl Out {
    fn add(&mut self, k: &'static str, n: u64) {
        if let Some(e) = self.counters.iter_mut().find(|e| e.0 == k) {
            e.1 += n;
        } else {
            self.counters.push((k, n));
        }
    }
    fn merge(&mut self, o: Out) {
        for (k, n) in o.counters {
            self.add(k, n);
        }
        self.distinct.extend(o.distinct);
        self.violations.extend(o.violations);
        if self.samples.len() < 8 {
            self.samples.extend(o.samples);
        }
    }
}

fn seq_labels(seq: &[Op]) -> Vec<String> {
    seq.iter().map(|o| o.label()).collect()
}

fn replay_doc(case: &Case, k: Option<usize>, phase: &str) -> Value {
    json!({
        "kind": case.kind,
        "start": case.start,
        "seq": case.seq,
        "seq_readable": seq_labels(&case.seq),
        "crash_after_mutations": k,
        "phase": phase,
    })
}

fn fresh(kind: Kind, inner: &std::sync::Arc<object_store::memory::InMemory>) -> (W, std::sync::Arc<ctlstore::Ctl>) {
    let (store, ctl) = CtlStore::over(inner.clone());
    (W::open(kind, store), ctl)
}

/// Examines one crash state. `old` = model after the last completed
/// operation, `new` = model if the interrupted operation takes effect.
#[allow(clippy::too_many_arguments)]
fn check_state(
    case: &Case,
    k: usize,
    content: &Content,
    old: &Model,
    new: &Model,
    interrupted: Option<&Op>,
    cfg: Cfg,
    out: &mut Out,
) -> View {
    let kind = case.kind;
    let opk = interrupted.map(|o| o.kind()).unwrap_or("none");
    let layout = if case.start.is_legacy() { "legacy-start" } else { "empty-start" };
    let report = |out: &mut Out, phase: &str, class: &str, detail: String| {
        out.violations.push(Violation {
            signature: format!("crash:{}:{layout}:{opk}:{phase}:{class}", kind.name()),
            summary: format!(
                "{} start={} seq={:?} crash after inner mutation #{k} (inside {}) [{phase}] {class}: {detail}",
                kind.name(),
                case.start.name(),
                seq_labels(&case.seq),
                interrupted.map(|o| o.label()).unwrap_or_else(|| "nothing".into()),
            ),
            replay: replay_doc(case, Some(k), phase),
        });
    };
    out.add("evaluations", 1);

    // --- 1. cold read of the crash state
    let inner = ctlstore::restore(content);
    let (w1, _) = fresh(kind, &inner);
    let v1 = util::block_on(observe_all(w1.os()));
    for (class, detail) in judge(&v1, old, new, interrupted) {
        report(out, "cold-read", &class, detail);
    }
    let Some(m1) = v1.as_model() else {
        return v1; // already reported; nothing to compare later reads with
    };

    // --- 2. garbage collection on the crash state (leftovers are older than the floor)
    clock(1_000_000);
    let (w2, ctl2) = fresh(kind, &inner);
    match util::block_on(w2.gc()) {
        Ok(n) => {
            out.add("gc_runs_on_crash_states", 1);
            out.add("gc_objects_reclaimed_after_crash", n as u64);
            if n > 0 {
                out.add("gc_runs_that_reclaimed_something", 1);
            }
        }
        Err(e) => {
            // not a safety statement of C08; counted, and the reads below still apply
            out.add("gc_errors_observed", 1);
            eprintln!("note: collect_garbage failed on a crash state: {e}");
        }
    }
    let after = ctlstore::snapshot(&inner);
    for d in damaged_by_gc(content, &after) {
        report(out, "gc-after-crash", "referenced-payload-removed", d);
    }
    let (w3, _) = fresh(kind, &inner);
    for (who, w) in [("collecting instance", &w2), ("fresh instance", &w3), ("instance opened before gc", &w1)] {
        let v = util::block_on(observe_all(w.os()));
        if v != v1 {
            report(
                out,
                "gc-after-crash",
                "read-changed-by-gc",
                format!("before gc: {} | after gc via {who}: {}", v1.describe(), v.describe()),
            );
        }
    }
    if cfg.effort == Effort::Light {
        return v1;
    }
    // nested: the collection itself dies after each of its own mutations
    let gcj = ctl2.journal();
    let mut partial = content.clone();
    for (j, entry) in gcj.iter().enumerate() {
        ctlstore::apply(&mut partial, &entry.mutation);
        if j + 1 == gcj.len() {
            break; // == `after`, examined above
        }
        out.add("nested_gc_crash_states", 1);
        let inner_j = ctlstore::restore(&partial);
        let (wj, _) = fresh(kind, &inner_j);
        let vj = util::block_on(observe_all(wj.os()));
        if vj != v1 {
            report(
                out,
                "gc-interrupted",
                "read-changed-by-gc",
                format!(
                    "gc died after its mutation #{} ({}): before {} | after {}",
                    j + 1,
                    entry.mutation.label(),
                    v1.describe(),
                    vj.describe()
                ),
            );
        }
    }

    // --- 3. (optional) every single operation from the crash state
    if cfg.effort == Effort::Full {
        for op in alphabet(RECOVERY_TAGS[0] as usize - 1) {
            out.add("recovery_ops", 1);
            clock(2_000_000);
            let inner_r = ctlstore::restore(content);
            let (wr, _) = fresh(kind, &inner_r);
            let (want, expect_ok) = model_step(&m1, &op);
            let r = util::block_on(run_op(&wr, &op));
            if r.is_ok() != expect_ok {
                report(
                    out,
                    "recovery-op",
                    "unexpected-outcome",
                    format!("{} from {} returned {:?}", op.label(), describe_model(&m1), r.map_err(|e| e.to_string())),
                );
                continue;
            }
            let (wf, _) = fresh(kind, &inner_r);
            let v = util::block_on(observe_all(wf.os()));
            if v.as_model().as_ref() != Some(&want) {
                report(
                    out,
                    "recovery-op",
                    "wrong-state",
                    format!("after {}: {} expected {}", op.label(), v.describe(), describe_model(&want)),
                );
            }
        }
    }

    // --- 4. recovery continues: new puts must succeed and read back — on the
    // crash state as it is, and on the collected one
    clock(3_000_000);
    let inner_pre = ctlstore::restore(content);
    for (phase, store_r) in [("recovery-put", &inner_pre), ("recovery-put-after-gc", &inner)] {
        let (wr, _) = fresh(kind, store_r);
        let mut m = m1.clone();
        let mut all_ok = true;
        for key in 0..2u8 {
            let op = Op::Put {
                k: key,
                v: RECOVERY_TAGS[key as usize],
            };
            out.add("recovery_puts", 1);
            if let Err(e) = util::block_on(run_op(&wr, &op)) {
                report(out, phase, "put-failed", format!("{} failed: {e}", op.label()));
                all_ok = false;
                break;
            }
            m = model_step(&m, &op).0;
        }
        if !all_ok {
            continue;
        }
        let (wf, _) = fresh(kind, store_r);
        let readers = [("writing instance", "put-not-read-back", &wr), ("fresh instance", "put-not-read-back", &wf)];
        for (who, class, w) in readers {
            let v = util::block_on(observe_all(w.os()));
            if v.as_model().as_ref() != Some(&m) {
                report(
                    out,
                    phase,
                    class,
                    format!("after the recovery puts via {who}: {} expected {}", v.describe(), describe_model(&m)),
                );
            }
        }
    }
    v1
}

/// Runs one sequence and examines the crash points of its last operation
/// (`only_k`: just that journal prefix).
fn run_case(case: &Case, cfg: Cfg, want_sample: bool, out: &mut Out) {
    clock(1000);
    let kind = case.kind;
    let (content0, m0) = case.start.build(kind);
    out.add("sequences", 1);
    if case.seq.is_empty() {
        check_state(case, 0, &content0, &m0, &m0, None, cfg, out);
        return;
    }
    let inner = ctlstore::restore(&content0);
    let (w, ctl) = fresh(kind, &inner);
    let mut models = vec![m0];
    let mut range = (0usize, 0usize);
    for (i, op) in case.seq.iter().enumerate() {
        let s = ctl.journal_len();
        let r = util::block_on(run_op(&w, op));
        let e = ctl.journal_len();
        out.add("operations_run", 1);
        let (next, expect_ok) = model_step(models.last().unwrap(), op);
        if r.is_ok() != expect_ok {
            out.violations.push(Violation {
                signature: format!("crash:{}:no-fault:{}:unexpected-outcome", kind.name(), op.kind()),
                summary: format!(
                    "{} start={} seq={:?}: op #{i} {} returned {:?}, model state {} expects ok={expect_ok}",
                    kind.name(),
                    case.start.name(),
                    seq_labels(&case.seq),
                    op.label(),
                    r.map_err(|e| e.to_string()),
                    describe_model(models.last().unwrap()),
                ),
                replay: replay_doc(case, None, "no-fault"),
            });
            return;
        }
        models.push(next);
        range = (s, e);
    }
    let n = case.seq.len();
    let last = &case.seq[n - 1];
    let (old, new) = (&models[n - 1], &models[n]);

    // the live (warm-cache) instance must agree with the model after the run
    let live = util::block_on(observe_all(w.os()));
    if live.as_model().as_ref() != Some(new) {
        out.violations.push(Violation {
            signature: format!("crash:{}:no-fault:{}:live-instance-wrong-state", kind.name(), last.kind()),
            summary: format!(
                "{} start={} seq={:?}: live instance reads {} expected {}",
                kind.name(),
                case.start.name(),
                seq_labels(&case.seq),
                live.describe(),
                describe_model(new)
            ),
            replay: replay_doc(case, None, "no-fault"),
        });
    }

    let journal = ctl.journal();
    let (s, e) = range;
    out.add("inner_mutations_of_examined_ops", (e - s) as u64);
    let mut content = content0.clone();
    for entry in &journal[..s] {
        ctlstore::apply(&mut content, &entry.mutation);
    }
    let mut states = Vec::new();
    for k in s + 1..=e {
        ctlstore::apply(&mut content, &journal[k - 1].mutation);
        let v = check_state(case, k, &content, old, new, Some(last), cfg, out);
        if k < e {
            out.add("crash_states_strictly_inside_an_operation", 1);
            out.distinct
                .push(util::fnv64(format!("{:?}/{}/{:?}/{k}", kind, case.start.name(), case.seq).as_bytes()));
        }
        states.push(json!({"after_mutation": journal[k - 1].mutation.label(), "cold_read": v.describe()}));
    }
    if want_sample && e - s >= 3 {
        out.samples.push(json!({
            "wrapper": kind.name(),
            "start": case.start.name(),
            "sequence": seq_labels(&case.seq),
            "interrupted_op": last.label(),
            "allowed_old": describe_model(old),
            "allowed_new": describe_model(new),
            "crash_states": states,
        }));
    }
}


// ---------------------------------------------------------------------------
// two-handle family

#[derive(Clone, Debug, PartialEq, Eq, Serialize, Deserialize)]
enum TwoStart {
    Base(Start),
    /// key 0 committed in the generation layout (v10)
    GenA,
    /// both keys committed in the generation layout (v10, v11)
    GenAB,
}

impl TwoStart {
    fn name(&self) -> String {
        match self {
            TwoStart::Base(s) => s.name(),
            TwoStart::GenA => "gen-a".into(),
            TwoStart::GenAB => "gen-a+b".into(),
        }
    }
    fn build(&self, kind: Kind) -> (Content, Model) {
        let keys: &[u8] = match self {
            TwoStart::Base(s) => return s.build(kind),
            TwoStart::GenA => &[0],
            TwoStart::GenAB => &[0, 1],
        };
        clock(500);
        let (store, _ctl) = CtlStore::new();
        let w = W::open(kind, store.clone());
        let mut m = empty_model();
        for k in keys {
            let op = Op::Put { k: *k, v: 10 + *k };
            util::block_on(run_op(&w, &op)).expect("setup put");
            m = model_step(&m, &op).0;
        }
        (ctlstore::snapshot(store.inner()), m)
    }
}

fn two_starts(kind: Kind) -> Vec<TwoStart> {
    let mut v = vec![
        TwoStart::GenAB,
        TwoStart::GenA,
        TwoStart::Base(Start::Empty),
        TwoStart::Base(Start::LegacyAB(LegacyFlavor::Plain)),
    ];
    if kind == Kind::Enc {
        v.push(TwoStart::Base(Start::LegacyAB(LegacyFlavor::SealedV1)));
    }
    v
}

#[derive(Clone, Copy, Debug, PartialEq, Eq)]
enum ReadPath {
    Get,
    GetRange,
    GetRanges,
    Head,
}

const READ_PATHS: [ReadPath; 4] = [ReadPath::Get, ReadPath::GetRange, ReadPath::GetRanges, ReadPath::Head];

#[derive(Clone, Debug, PartialEq, Eq)]
enum Got {
    NotFound,
    Bytes(Vec<Vec<u8>>),
    Size(u64),
    Failed(String),
}

// every value is >= 40 bytes, so these ranges are valid whatever the handle believes the size is
const R1: std::ops::Range<u64> = 3..20;
const R2: [std::ops::Range<u64>; 2] = [0..3, 20..38];

fn expected(path: ReadPath, v: &Option<Vec<u8>>) -> Got {
    let Some(v) = v else {
        return Got::NotFound;
    };
    match path {
        ReadPath::Get => Got::Bytes(vec![v.clone()]),
        ReadPath::GetRange => Got::Bytes(vec![v[R1.start as usize..R1.end as usize].to_vec()]),
        ReadPath::GetRanges => Got::Bytes(R2.iter().map(|r| v[r.start as usize..r.end as usize].to_vec()).collect()),
        ReadPath::Head => Got::Size(v.len() as u64),
    }
}

async fn read_via(os: &dyn ObjectStore, key: &Path, path: ReadPath) -> Got {
    let fail = |e: Error| match e {
        Error::NotFound { .. } => Got::NotFound,
        e => Got::Failed(e.to_string().chars().take(200).collect()),
    };
    match path {
        ReadPath::Get => match os.get(key).await {
            Ok(res) => {
                let declared = res.meta.size;
                match res.bytes().await {
                    Ok(b) if b.len() as u64 == declared => Got::Bytes(vec![b.to_vec()]),
                    Ok(b) => Got::Failed(format!("get declared {declared} bytes but delivered {}", b.len())),
                    Err(e) => fail(e),
                }
            }
            Err(e) => fail(e),
        },
        ReadPath::GetRange => match os.get_range(key, R1).await {
            Ok(b) => Got::Bytes(vec![b.to_vec()]),
            Err(e) => fail(e),
        },
        ReadPath::GetRanges => match os.get_ranges(key, &R2).await {
            Ok(parts) => Got::Bytes(parts.iter().map(|b| b.to_vec()).collect()),
            Err(e) => fail(e),
        },
        ReadPath::Head => match os.head(key).await {
            Ok(m) => Got::Size(m.size),
            Err(e) => fail(e),
        },
    }
}

fn describe_got(g: &Got) -> String {
    match g {
        Got::NotFound => "NotFound".into(),
        Got::Bytes(parts) => format!(
            "bytes[{}]",
            parts
                .iter()
                .map(|p| format!("{}B tag {:x}", p.len(), p.first().map(|b| b >> 4).unwrap_or(0)))
                .collect::<Vec<_>>()
                .join(", ")
        ),
        Got::Size(n) => format!("size {n}"),
        Got::Failed(e) => format!("error: {e}"),
    }
}

/// Warms a handle the way a long-lived reader would: get + head of every key and a listing.
fn warm(w: &W) {
    util::block_on(async {
        for k in 0..KEYS.len() as u8 {
            if let Ok(r) = w.os().get(&key_path(k)).await {
                let _ = r.bytes().await;
            }
            let _ = w.os().head(&key_path(k)).await;
        }
        use futures::TryStreamExt;
        let _ = w.os().list(None).try_collect::<Vec<_>>().await;
    });
}

/// Brings the live inner store from `from` to `to` (what handle A, then dead, left behind).
fn morph(inner: &object_store::memory::InMemory, from: &Content, to: &Content) {
    for (p, v) in to {
        if from.get(p) != Some(v) {
            util::now(inner.put(&Path::from(p.as_str()), v.clone().into())).expect("put");
        }
    }
    for p in from.keys() {
        if !to.contains_key(p) {
            util::now(inner.delete(&Path::from(p.as_str()))).expect("delete");
        }
    }
}

#[derive(Clone, Debug)]
struct TwoCase {
    kind: Kind,
    start: TwoStart,
    seq: Vec<Op>,
}

/// One state handle A left behind (journal prefix `k`), read through warm handles.
fn two_handle_state(case: &TwoCase, k: usize, content0: &Content, m0: &Model, content_k: &Content, out: &mut Out) {
    let kind = case.kind;
    let last = case.seq.last();
    out.add("evaluations", 1);
    out.add("two_handle_states", 1);
    let ptr0 = referenced_payloads(content0);
    for after_gc in [false, true] {
        let phase = if after_gc { "after-gc-by-restarted-instance" } else { "before-gc" };
        let inner = ctlstore::restore(content0);
        // one warm handle per read path, so that no path is healed by another one's refresh
        let handles: Vec<W> = READ_PATHS
            .iter()
            .map(|_| {
                let (w, _) = fresh(kind, &inner);
                warm(&w);
                w
            })
            .collect();
        morph(&inner, content0, content_k);
        if after_gc {
            clock(1_000_000);
            let (wg, _) = fresh(kind, &inner);
            if util::block_on(wg.gc()).is_err() {
                out.add("gc_errors_observed", 1);
            }
        }
        let now = ctlstore::snapshot(&inner);
        let (wc, _) = fresh(kind, &inner);
        let cold = util::block_on(observe_all(wc.os()));
        let Some(current) = cold.as_model() else {
            continue; // a broken cold read is the main family's finding
        };
        for (w, path) in handles.iter().zip(READ_PATHS) {
            for key in 0..KEYS.len() {
                out.add("two_handle_reads", 1);
                let got = util::block_on(read_via(w.os(), &key_path(key as u8), path));
                let want_now = expected(path, &current[key]);
                // the value the handle cached may still be served while its payload object exists
                let cached_payload_alive = ptr0
                    .get(&format!("meta/{}", KEYS[key]))
                    .is_some_and(|p| now.contains_key(p) && now.get(p) == content0.get(p));
                let want_lag = expected(path, &m0[key]);
                if got == want_now {
                    if m0[key] != current[key] && m0[key].is_some() && !cached_payload_alive {
                        out.add("two_handle_reads_healed_from_stale_pointer", 1);
                    }
                    continue;
                }
                if m0[key].is_some() && cached_payload_alive && got == want_lag {
                    out.add("two_handle_reads_served_cached_previous_value", 1);
                    continue;
                }
                let class = match (&got, &current[key]) {
                    (Got::NotFound, Some(_)) => "committed-key-not-found",
                    (Got::Failed(_), _) => "read-error",
                    _ => "wrong-value",
                };
                out.violations.push(Violation {
                    signature: format!(
                        "crash:{}:two-handle:{}:{phase}:{path:?}:{class}",
                        kind.name(),
                        last.map(|o| o.kind()).unwrap_or("none")
                    ),
                    summary: format!(
                        "{} start={} handle B warmed, then handle A ran {:?} and stopped after inner mutation #{k} [{phase}]: \
                         B.{path:?}({}) = {}; current committed {}; value B cached {} (its payload object {})",
                        kind.name(),
                        case.start.name(),
                        seq_labels(&case.seq),
                        KEYS[key],
                        describe_got(&got),
                        describe_model(&current),
                        describe_model(m0),
                        if cached_payload_alive { "still exists" } else { "is gone" },
                    ),
                    replay: json!({
                        "family": "two-handle",
                        "kind": kind,
                        "start": case.start,
                        "seq": case.seq,
                        "seq_readable": seq_labels(&case.seq),
                        "stopped_after_mutations": k,
                        "phase": phase,
                    }),
                });
            }
        }
    }
}

fn run_two_handle_case(case: &TwoCase, out: &mut Out) {
    clock(1000);
    let kind = case.kind;
    let (content0, m0) = case.start.build(kind);
    clock(1000);
    out.add("two_handle_sequences", 1);
    if case.seq.is_empty() {
        two_handle_state(case, 0, &content0, &m0, &content0, out);
        return;
    }
    // handle A runs the sequence once with the journal on
    let inner = ctlstore::restore(&content0);
    let (a, ctl) = fresh(kind, &inner);
    let mut range = (0usize, 0usize);
    for op in &case.seq {
        let s = ctl.journal_len();
        let _ = util::block_on(run_op(&a, op)); // outcomes are judged by the main family
        range = (s, ctl.journal_len());
    }
    let journal = ctl.journal();
    let (s, e) = range;
    let mut content = content0.clone();
    for entry in &journal[..s] {
        ctlstore::apply(&mut content, &entry.mutation);
    }
    // A stops after every prefix of its last operation (k == e: it completed)
    for k in s + 1..=e {
        ctlstore::apply(&mut content, &journal[k - 1].mutation);
        two_handle_state(case, k, &content0, &m0, &content, out);
    }
}

fn nth_seq(depth: usize, mut idx: u64) -> Vec<Op> {
    // most significant digit = position 0
    let base = alphabet(0).len() as u64;
    let mut digits = vec![0u64; depth];
    for d in (0..depth).rev() {
        digits[d] = idx % base;
        idx /= base;
    }
    digits
        .iter()
        .enumerate()
        .map(|(pos, d)| alphabet(pos)[*d as usize].clone())
        .collect()
}

fn main() {
    let mut run = Run::from_args("C08", "crash", "fault_enumeration");
    // per-crash-state effort by sequence length: (full up to, standard up to); light beyond
    let (full_upto, standard_upto) = run.tier.pick((2usize, 2usize), (4usize, 4usize));
    let effort_for = |depth: usize| {
        if depth <= full_upto {
            Effort::Full
        } else if depth <= standard_upto {
            Effort::Standard
        } else {
            Effort::Light
        }
    };
    let cfg = Cfg { effort: Effort::Full };

    if let Some(file) = run.replay_file.clone() {
        let v: Value = serde_json::from_slice(&std::fs::read(&file).expect("read replay")).expect("json");
        let r = &v["replay"];
        if r["family"] == "two-handle" {
            let case = TwoCase {
                kind: serde_json::from_value(r["kind"].clone()).expect("kind"),
                start: serde_json::from_value(r["start"].clone()).expect("start"),
                seq: serde_json::from_value(r["seq"].clone()).expect("seq"),
            };
            let mut out = Out::default();
            run_two_handle_case(&case, &mut out);
            for (k, n) in &out.counters {
                run.add(k, *n);
            }
            println!("replayed two-handle {} start={} seq={:?}", case.kind.name(), case.start.name(), seq_labels(&case.seq));
            for v in out.violations {
                run.violation(v);
            }
            run.finish();
        }
        let case = Case {
            kind: serde_json::from_value(r["kind"].clone()).expect("kind"),
            start: serde_json::from_value(r["start"].clone()).expect("start"),
            seq: serde_json::from_value(r["seq"].clone()).expect("seq"),
        };
        let mut out = Out::default();
        run_case(&case, cfg, true, &mut out);
        for (k, n) in &out.counters {
            run.add(k, *n);
        }
        println!("replayed {} start={} seq={:?}", case.kind.name(), case.start.name(), seq_labels(&case.seq));
        for v in out.violations {
            run.violation(v);
        }
        run.finish();
    }

    let base = alphabet(0).len() as u64;

    // --- two-handle family: all sequences of length <= 2 (quick) / 3 (thorough)
    let two_depth = run.tier.pick(2usize, 3usize);
    let mut two_items: Vec<TwoCase> = Vec::new();
    for kind in [Kind::Meta, Kind::Enc] {
        for start in two_starts(kind) {
            for depth in 0..=two_depth {
                for idx in 0..base.pow(depth as u32) {
                    two_items.push(TwoCase {
                        kind,
                        start: start.clone(),
                        seq: nth_seq(depth, idx),
                    });
                }
            }
        }
    }
    let two_outs = util::par_map(two_items, util::n_threads(), |case| {
        let mut out = Out::default();
        run_two_handle_case(&case, &mut out);
        out
    });
    let mut two_all = Out::default();
    for o in two_outs {
        two_all.merge(o);
    }
    for (k, n) in &two_all.counters {
        run.add(k, *n);
    }
    let two_failed = !two_all.violations.is_empty();
    for v in two_all.violations {
        run.violation(v);
    }
    run.set("two_handle_max_sequence_length", json!(two_depth));
    eprintln!(
        "two-handle family done at {:.1}s: sequences={} states={} reads={}",
        run.elapsed(),
        run.get("two_handle_sequences"),
        run.get("two_handle_states"),
        run.get("two_handle_reads")
    );

    let max_depth = if two_failed { 0 } else { run.tier.pick(3usize, 5usize) };
    let deadline = Instant::now() + Duration::from_secs_f64(run.remaining_s());
    let mut completed: Option<usize> = None;
    let chunk = 64u64;

    'depths: for depth in 0..=max_depth {
        let level_started = run.elapsed();
        let total = base.pow(depth as u32);
        let mut items: Vec<(Kind, Start, u64, u64)> = Vec::new();
        for kind in [Kind::Meta, Kind::Enc] {
            for start in starts_for(kind) {
                let mut lo = 0;
                while lo < total {
                    let hi = (lo + chunk).min(total);
                    items.push((kind, start.clone(), lo, hi));
                    lo = hi;
                }
            }
        }
        // LIFO queue in par_map: keep enumeration order irrelevant to the verdict
        let expired = AtomicBool::new(false);
        let outs = util::par_map(items, util::n_threads(), |(kind, start, lo, hi)| {
            let mut out = Out::default();
            for idx in lo..hi {
                if Instant::now() >= deadline {
                    expired.store(true, Ordering::SeqCst);
                    break;
                }
                let case = Case {
                    kind,
                    start: start.clone(),
                    seq: nth_seq(depth, idx),
                };
                // written-out samples: a few fixed, interesting sequences
                let want_sample = depth == 2
                    && matches!(case.seq[0], Op::Put { k: 0, .. })
                    && matches!(
                        case.seq[1],
                        Op::Rename { f: 0, create: false, .. } | Op::Multipart { k: 0, .. } | Op::Copy { f: 0, .. }
                    )
                    && matches!(case.start, Start::Empty | Start::LegacyAB(LegacyFlavor::Plain));
                let cfg = Cfg {
                    effort: effort_for(depth),
                };
                run_case(&case, cfg, want_sample, &mut out);
            }
            out
        });
        let mut all = Out::default();
        for o in outs {
            all.merge(o);
        }
        for (k, n) in &all.counters {
            run.add(k, *n);
        }
        for d in &all.distinct {
            run.distinct(*d);
        }
        all.samples.sort_by_key(|s| s.to_string());
        for s in all.samples {
            run.sample(s);
        }
        let had_violation = !all.violations.is_empty();
        for v in all.violations {
            run.violation(v);
        }
        if expired.load(Ordering::SeqCst) {
            run.cap_hit(&format!(
                "time budget: stopped inside depth {depth}; all sequences of length <= {} completed",
                depth.saturating_sub(1)
            ));
            break 'depths;
        }
        completed = Some(depth);
        eprintln!(
            "depth {depth} done at {:.1}s: sequences={} crash states={}",
            run.elapsed(),
            run.get("sequences"),
            run.get("evaluations")
        );
        if had_violation {
            break;
        }
        // thorough tier: do not start a level that cannot finish — a level costs
        // ~13x the previous one (about a third of that when the effort drops to
        // light). The quick tier always runs its fixed bounds; its budget is
        // only a safety net.
        let level_s = run.elapsed() - level_started;
        if depth < max_depth && run.tier == vcore::Tier::Thorough {
            let factor = if effort_for(depth + 1) < effort_for(depth) { 5.0 } else { 14.0 };
            if run.elapsed() + level_s * factor > run.budget_s {
                run.cap_hit(&format!(
                    "time budget: length {} not started (estimated cost exceeds the budget); all sequences of length <= {depth} completed",
                    depth + 1
                ));
                break;
            }
        }
    }
    run.set("max_sequence_length_completed", json!(completed));
    run.set("alphabet_size", json!(base));
    run.set(
        "effort_by_length",
        json!((0..=max_depth).map(|d| format!("{d}:{:?}", effort_for(d))).collect::<Vec<_>>()),
    );
    run.rule(
        "every sequence of <= N operations over {put, multipart, copy, rename(overwrite|create), delete, collect_garbage} x keys {a, dir/b} \
         (13 operations per position, distinct value per position), for MetaStore and EncryptedStore (chunk 16 B), from start states \
         {empty, legacy a, legacy a+b, legacy a + orphaned data/b} (+ 0.9.x sealed legacy for EncryptedStore); \
         one evaluation = one crash state = initial content + a prefix of the inner-store mutation journal ending inside or at the end of the last operation, \
         examined by cold read (get, get_range, get_ranges, head, list per key vs {old,new}), collect_garbage + re-read through three instances + direct inner-store comparison, \
         collect_garbage itself interrupted after each of its mutations, recovery puts read back through the writing and a fresh instance, \
         and every single operation from the crash state (effort by sequence length: see effort_by_length); \
         distinct non-trivial = crash states strictly inside an operation (some but not all of its mutations landed) \
         | two-handle family: every sequence of <= M operations through handle A from start states {gen a+b, gen a, empty, legacy a+b}, a second handle B warmed beforehand \
         (get + head + list of every key; one warm handle per read path); for every journal prefix of A's last operation, before and after a restarted instance's collect_garbage: \
         B.get / get_range / get_ranges / head of every key = the current committed value, or the value B cached in full while the payload object its pointer names still exists",
    );
    run.assume("each inner-store mutation (put, multipart complete, copy, delete) is atomic and durable in order: a crash state is a prefix of the mutation journal");
    run.assume("a long-lived second handle's metadata cache may lag (documented: authoritative read-through cache, 1 h TTL) only while the payload its cached pointer names still exists; listings through it are not judged (they answer from the cache by design)");
    run.assume("the inner store is not tampered with; AES-GCM and the OS RNG behave as specified");
    run.assume("generation ids and the GC floor read the logical clock installed through the verif feature (anda_db_utils::verif::set_clock)");
    run.finish();
}

//! Shared helpers for the vgc check parts.

//! Shared helpers for the vgc check parts (C08: wrapper writes are atomic
//! under crashes; garbage collection is safe).
//!
//! Contents: the two wrappers behind one enum, the operation alphabet, the
//! reference model (key -> value map), the four-path observation of a key
//! (get, ranged get, head, list), fabrication of pre-0.10 ("legacy") objects
//! directly in the inner store, and direct inspection of commit points.

use aes_gcm::{AeadInOut, Aes256Gcm, Key, KeyInit, Nonce};
use anda_object_store::{EncryptedStore, EncryptedStoreBuilder, MetaStore, MetaStoreBuilder};
use bytes::Bytes;
use futures::TryStreamExt;
use object_store::{
    CopyMode, CopyOptions, Error, ObjectStore, ObjectStoreExt, PutPayload, RenameOptions, RenameTargetMode,
    path::Path,
};
use serde::{Deserialize, Serialize};
use serde_bytes::ByteArray;
use std::collections::BTreeMap;
use std::sync::Arc;
use vcore::ctlstore::{Content, CtlStore};

// ---------------------------------------------------------------------------
// keys and values

/// Two logical keys; one of them nested so that `gen/<key>/<generation>`
/// splitting sees a multi-part location.
pub const KEYS: [&str; 2] = ["a", "dir/b"];

pub fn key_path(k: u8) -> Path {
    Path::from(KEYS[k as usize])
}

/// Value with tag `tag` (1..=15): every byte carries the tag in its high
/// nibble, so two different values differ at *every* position (a mixture of
/// two values is never equal to either) and lengths differ too. 40..=110
/// bytes: 3 to 7 chunks at the 16-byte chunk size used for EncryptedStore.
pub fn value(tag: u8) -> Vec<u8> {
    assert!((1..=15).contains(&tag));
    let len = 35 + 5 * tag as usize;
    (0..len).map(|i| (tag << 4) | (i as u8 & 0x0f)).collect()
}

pub fn describe_value(v: &[u8]) -> String {
    if v.is_empty() {
        return "empty".into();
    }
    let tag = v[0] >> 4;
    if (1..=15).contains(&tag) && v == value(tag).as_slice() {
        format!("v{tag}")
    } else {
        format!("bytes[{}]:{:02x?}..", v.len(), &v[..v.len().min(6)])
    }
}

pub const LEGACY_TAGS: [u8; 2] = [12, 13];
pub const RECOVERY_TAGS: [u8; 2] = [14, 15];
pub const ENC_SECRET: [u8; 32] = [7u8; 32];
pub const ENC_CHUNK: u64 = 16;

// ---------------------------------------------------------------------------
// wrappers

#[derive(Clone, Copy, Debug, PartialEq, Eq, Serialize, Deserialize)]
pub enum Kind {
    Meta,
    Enc,
}

impl Kind {
    pub fn name(&self) -> &'static str {
        match self {
            Kind::Meta => "MetaStore",
            Kind::Enc => "EncryptedStore",
        }
    }
}

pub enum W {
    Meta(MetaStore<Arc<UpStore>>),
    Enc(EncryptedStore<Arc<UpStore>>),
}

impl W {
    /// A fresh wrapper instance (cold metadata cache, empty in-flight set)
    /// over `store`, multipart uploads behaving like `InMemory`'s.
    pub fn open(kind: Kind, store: Arc<CtlStore>) -> W {
        Self::open_up(kind, UpStore::new(store, Backend::Memory).0)
    }
    /// A fresh wrapper instance over an explicit upload model.
    pub fn open_up(kind: Kind, store: Arc<UpStore>) -> W {
        match kind {
            Kind::Meta => W::Meta(MetaStoreBuilder::new(store, 1000).build()),
            Kind::Enc => W::Enc(
                EncryptedStoreBuilder::with_secret(store, 1000, ENC_SECRET)
                    .with_chunk_size(ENC_CHUNK)
                    .build(),
            ),
        }
    }
    pub fn os(&self) -> &dyn ObjectStore {
        match self {
            W::Meta(s) => s,
            W::Enc(s) => s,
        }
    }
    pub async fn gc(&self) -> object_store::Result<usize> {
        match self {
            W::Meta(s) => s.collect_garbage().await,
            W::Enc(s) => s.collect_garbage().await,
        }
    }
}

// ---------------------------------------------------------------------------
// operations

#[derive(Clone, Debug, PartialEq, Eq, Serialize, Deserialize)]
pub enum Op {
    Put { k: u8, v: u8 },
    Multipart { k: u8, v: u8 },
    Copy { f: u8, t: u8 },
    Rename { f: u8, t: u8, create: bool },
    Delete { k: u8 },
    Gc,
}

impl Op {
    pub fn kind(&self) -> &'static str {
        match self {
            Op::Put { .. } => "put",
            Op::Multipart { .. } => "multipart",
            Op::Copy { .. } => "copy",
            Op::Rename { create: false, .. } => "rename-overwrite",
            Op::Rename { create: true, .. } => "rename-create",
            Op::Delete { .. } => "delete",
            Op::Gc => "gc",
        }
    }
    pub fn label(&self) -> String {
        let k = |i: &u8| KEYS[*i as usize];
        match self {
            Op::Put { k: key, v } => format!("put({},v{v})", k(key)),
            Op::Multipart { k: key, v } => format!("multipart({},v{v})", k(key)),
            Op::Copy { f, t } => format!("copy({}->{})", k(f), k(t)),
            Op::Rename { f, t, create } => format!(
                "rename({}->{},{})",
                k(f),
                k(t),
                if *create { "create" } else { "overwrite" }
            ),
            Op::Delete { k: key } => format!("delete({})", k(key)),
            Op::Gc => "collect_garbage".into(),
        }
    }
}

/// The operation alphabet at sequence position `pos` (0-based): puts at
/// position `pos` write value tag `pos + 1`, so every write of a sequence is
/// distinguishable.
pub fn alphabet(pos: usize) -> Vec<Op> {
    let v = pos as u8 + 1;
    let mut out = Vec::new();
    for k in 0..2u8 {
        out.push(Op::Put { k, v });
    }
    for k in 0..2u8 {
        out.push(Op::Multipart { k, v });
    }
    for f in 0..2u8 {
        out.push(Op::Copy { f, t: 1 - f });
    }
    for f in 0..2u8 {
        out.push(Op::Rename {
            f,
            t: 1 - f,
            create: false,
        });
        out.push(Op::Rename {
            f,
            t: 1 - f,
            create: true,
        });
    }
    for k in 0..2u8 {
        out.push(Op::Delete { k });
    }
    out.push(Op::Gc);
    out
}

/// Starts a multipart upload of value `v` to key `k` and feeds both parts;
/// only `complete()` is left to do.
pub async fn multipart_begin(w: &W, k: u8, v: u8) -> object_store::Result<Box<dyn object_store::MultipartUpload>> {
    let data = value(v);
    let cut = data.len() / 2 + 3; // not chunk-aligned on purpose
    let mut up = w.os().put_multipart(&key_path(k)).await?;
    up.put_part(PutPayload::from(data[..cut].to_vec())).await?;
    up.put_part(PutPayload::from(data[cut..].to_vec())).await?;
    Ok(up)
}

/// Runs one operation through the wrapper.
pub async fn run_op(w: &W, op: &Op) -> object_store::Result<()> {
    match op {
        Op::Put { k, v } => w.os().put(&key_path(*k), PutPayload::from(value(*v))).await.map(|_| ()),
        Op::Multipart { k, v } => {
            let mut up = multipart_begin(w, *k, *v).await?;
            up.complete().await.map(|_| ())
        }
        Op::Copy { f, t } => {
            w.os()
                .copy_opts(
                    &key_path(*f),
                    &key_path(*t),
                    CopyOptions {
                        mode: CopyMode::Overwrite,
                        ..Default::default()
                    },
                )
                .await
        }
        Op::Rename { f, t, create } => {
            w.os()
                .rename_opts(
                    &key_path(*f),
                    &key_path(*t),
                    RenameOptions {
                        target_mode: if *create {
                            RenameTargetMode::Create
                        } else {
                            RenameTargetMode::Overwrite
                        },
                        ..Default::default()
                    },
                )
                .await
        }
        Op::Delete { k } => w.os().delete(&key_path(*k)).await,
        Op::Gc => w.gc().await.map(|_| ()),
    }
}

// ---------------------------------------------------------------------------
// reference model: key index -> value (None = absent)

pub type Model = Vec<Option<Vec<u8>>>;

pub fn empty_model() -> Model {
    vec![None, None]
}

/// The model after `op` if it succeeds, and whether it is expected to
/// succeed. A failing operation leaves the model unchanged.
pub fn model_step(m: &Model, op: &Op) -> (Model, bool) {
    let mut n = m.clone();
    let ok = match op {
        Op::Put { k, v } | Op::Multipart { k, v } => {
            n[*k as usize] = Some(value(*v));
            true
        }
        Op::Copy { f, t } => match &m[*f as usize] {
            Some(val) => {
                n[*t as usize] = Some(val.clone());
                true
            }
            None => false,
        },
        Op::Rename { f, t, create } => match &m[*f as usize] {
            Some(val) if !(*create && m[*t as usize].is_some()) => {
                n[*t as usize] = Some(val.clone());
                n[*f as usize] = None;
                true
            }
            _ => false,
        },
        Op::Delete { k } => {
            let had = m[*k as usize].is_some();
            n[*k as usize] = None;
            had
        }
        Op::Gc => true,
    };
    if ok { (n, true) } else { (m.clone(), false) }
}

pub fn describe_model(m: &Model) -> String {
    m.iter()
        .enumerate()
        .map(|(i, v)| {
            format!(
                "{}={}",
                KEYS[i],
                v.as_ref().map(|v| describe_value(v)).unwrap_or_else(|| "absent".into())
            )
        })
        .collect::<Vec<_>>()
        .join(" ")
}

// ---------------------------------------------------------------------------
// observation: one key through all four read paths

#[derive(Clone, Debug, PartialEq, Eq)]
pub enum Obs {
    Absent,
    Value(Vec<u8>),
    /// Unreadable, undecryptable, truncated, or the read paths disagree.
    Broken(String),
}

impl Obs {
    pub fn describe(&self) -> String {
        match self {
            Obs::Absent => "absent".into(),
            Obs::Value(v) => describe_value(v),
            Obs::Broken(e) => format!("BROKEN({e})"),
        }
    }
}

#[derive(Clone, Debug, PartialEq, Eq)]
pub struct View {
    pub keys: Vec<Obs>,
    /// Listing-level anomalies: listing failed, unknown key listed.
    pub anomalies: Vec<String>,
}

impl View {
    pub fn describe(&self) -> String {
        let mut s = self
            .keys
            .iter()
            .enumerate()
            .map(|(i, o)| format!("{}={}", KEYS[i], o.describe()))
            .collect::<Vec<_>>()
            .join(" ");
        if !self.anomalies.is_empty() {
            s.push_str(&format!(" anomalies={:?}", self.anomalies));
        }
        s
    }
    pub fn as_model(&self) -> Option<Model> {
        if !self.anomalies.is_empty() {
            return None;
        }
        self.keys
            .iter()
            .map(|o| match o {
                Obs::Absent => Some(None),
                Obs::Value(v) => Some(Some(v.clone())),
                Obs::Broken(_) => None,
            })
            .collect()
    }
}

fn short(e: &Error) -> String {
    let s = e.to_string();
    s.chars().take(160).collect()
}

async fn observe_key(os: &dyn ObjectStore, key: &Path, listed: Option<u64>) -> Obs {
    // 1. full get
    let full: Option<(u64, Vec<u8>)> = match os.get(key).await {
        Ok(res) => {
            let declared = res.meta.size;
            match res.bytes().await {
                Ok(b) => Some((declared, b.to_vec())),
                Err(e) => return Obs::Broken(format!("get: body unreadable: {}", short(&e))),
            }
        }
        Err(Error::NotFound { .. }) => None,
        Err(e) => return Obs::Broken(format!("get: {}", short(&e))),
    };
    // 2. head
    let head: Option<u64> = match os.head(key).await {
        Ok(m) => Some(m.size),
        Err(Error::NotFound { .. }) => None,
        Err(e) => return Obs::Broken(format!("head: {}", short(&e))),
    };
    match (&full, head, listed) {
        (None, None, None) => return Obs::Absent,
        (Some(_), Some(_), Some(_)) => {}
        _ => {
            return Obs::Broken(format!(
                "read paths disagree on presence: get={} head={} listed={}",
                full.is_some(),
                head.is_some(),
                listed.is_some()
            ));
        }
    }
    let (declared, data) = full.unwrap();
    let len = data.len() as u64;
    if declared != len || head != Some(len) || listed != Some(len) {
        return Obs::Broken(format!(
            "sizes disagree: body={len} get.meta={declared} head={head:?} list={listed:?}"
        ));
    }
    // 3. ranged reads (cross chunk boundaries at chunk size 16)
    if len >= 8 {
        let r = (len / 3)..(len - 1);
        match os.get_range(key, r.clone()).await {
            Ok(b) => {
                if b.as_ref() != &data[r.start as usize..r.end as usize] {
                    return Obs::Broken(format!("get_range {r:?} differs from the full body"));
                }
            }
            Err(e) => return Obs::Broken(format!("get_range {r:?}: {}", short(&e))),
        }
        let rs = [0..3u64, (len - 5)..len];
        match os.get_ranges(key, &rs).await {
            Ok(parts) => {
                let ok = parts.len() == 2
                    && parts[0].as_ref() == &data[0..3]
                    && parts[1].as_ref() == &data[(len - 5) as usize..];
                if !ok {
                    return Obs::Broken(format!("get_ranges {rs:?} differ from the full body"));
                }
            }
            Err(e) => return Obs::Broken(format!("get_ranges: {}", short(&e))),
        }
    }
    Obs::Value(data)
}

/// Reads every key through get, ranged get, head and the listing.
pub async fn observe_all(os: &dyn ObjectStore) -> View {
    let mut anomalies = Vec::new();
    let mut listing: BTreeMap<String, u64> = BTreeMap::new();
    match os.list(None).try_collect::<Vec<_>>().await {
        Ok(entries) => {
            for e in entries {
                let name = e.location.to_string();
                if !KEYS.contains(&name.as_str()) {
                    anomalies.push(format!("unknown key listed: {name}"));
                }
                if listing.insert(name.clone(), e.size).is_some() {
                    anomalies.push(format!("key listed twice: {name}"));
                }
            }
        }
        Err(e) => anomalies.push(format!("list failed: {}", short(&e))),
    }
    let mut keys = Vec::new();
    for k in 0..KEYS.len() as u8 {
        let listed = listing.get(KEYS[k as usize]).copied();
        keys.push(observe_key(os, &key_path(k), listed).await);
    }
    View { keys, anomalies }
}

// ---------------------------------------------------------------------------
// verdict on one view against {old, new}

/// Problems of `view` given that every key must read as `old[k]` (last
/// completed commit) or `new[k]` (what the interrupted operation was
/// writing). Returns (class, detail) pairs; empty = fine.
pub fn judge(view: &View, old: &Model, new: &Model, interrupted: Option<&Op>) -> Vec<(String, String)> {
    let mut out = Vec::new();
    for a in &view.anomalies {
        out.push(("listing-anomaly".to_string(), a.clone()));
    }
    for (i, o) in view.keys.iter().enumerate() {
        match o {
            Obs::Broken(e) => out.push(("unreadable-key".into(), format!("{}: {e}", KEYS[i]))),
            Obs::Absent => {
                if old[i].is_some() && new[i].is_some() {
                    out.push((
                        "key-lost".into(),
                        format!("{} is absent; allowed: {} or {}", KEYS[i], dv(&old[i]), dv(&new[i])),
                    ));
                }
            }
            Obs::Value(v) => {
                let is_old = old[i].as_deref() == Some(v.as_slice());
                let is_new = new[i].as_deref() == Some(v.as_slice());
                if !is_old && !is_new {
                    out.push((
                        "neither-old-nor-new".into(),
                        format!(
                            "{} reads {}; allowed: {} or {}",
                            KEYS[i],
                            describe_value(v),
                            dv(&old[i]),
                            dv(&new[i])
                        ),
                    ));
                }
            }
        }
    }
    // rename: never both lost — once the source is gone the destination must
    // hold the new value.
    if let Some(Op::Rename { f, t, .. }) = interrupted
        && old != new
        && view.keys[*f as usize] == Obs::Absent
        && view.keys[*t as usize] != new[*t as usize].clone().map(Obs::Value).unwrap_or(Obs::Absent)
    {
        out.push((
            "rename-lost-value".into(),
            format!(
                "source {} is gone but destination {} reads {}",
                KEYS[*f as usize],
                KEYS[*t as usize],
                view.keys[*t as usize].describe()
            ),
        ));
    }
    out
}

fn dv(v: &Option<Vec<u8>>) -> String {
    v.as_ref().map(|v| describe_value(v)).unwrap_or_else(|| "absent".into())
}

// ---------------------------------------------------------------------------
// direct inspection of the inner store

#[derive(Deserialize)]
struct Pointer {
    #[serde(rename = "g", default)]
    generation: Option<String>,
}

/// For every commit point `meta/<key>` of `content`: the payload path it
/// references (`gen/<key>/<generation>` or the legacy `data/<key>`).
pub fn referenced_payloads(content: &Content) -> BTreeMap<String, String> {
    let mut out = BTreeMap::new();
    for (path, doc) in content {
        let Some(key) = path.strip_prefix("meta/") else {
            continue;
        };
        let Ok(p) = cbor2::from_slice::<Pointer>(doc) else {
            continue;
        };
        let payload = match p.generation {
            Some(g) => format!("gen/{key}/{g}"),
            None => format!("data/{key}"),
        };
        out.insert(path.clone(), payload);
    }
    out
}

/// Commit points or referenced payloads of `before` that are missing or
/// changed in `after`.
pub fn damaged_by_gc(before: &Content, after: &Content) -> Vec<String> {
    let mut out = Vec::new();
    for (meta, payload) in referenced_payloads(before) {
        if before.get(&meta) != after.get(&meta) {
            out.push(format!("commit point {meta} changed or removed"));
        }
        if let Some(b) = before.get(&payload)
            && after.get(&payload) != Some(b)
        {
            out.push(format!("referenced payload {payload} (of {meta}) removed or changed"));
        }
    }
    out
}

/// Payload objects (`gen/`, `data/`) no commit point references.
pub fn unreferenced_payloads(content: &Content) -> Vec<String> {
    let refs: std::collections::BTreeSet<String> = referenced_payloads(content).into_values().collect();
    content
        .keys()
        .filter(|p| (p.starts_with("gen/") || p.starts_with("data/")) && !refs.contains(*p))
        .cloned()
        .collect()
}

// ---------------------------------------------------------------------------
// legacy (pre-0.10) objects, built directly in the inner store from the
// documented layout: payload at `data/<key>`, metadata at `meta/<key>`
// without a generation pointer.

#[derive(Serialize)]
struct LegacyMetaDoc {
    #[serde(rename = "s")]
    size: u64,
    #[serde(rename = "e")]
    e_tag: Option<String>,
    #[serde(rename = "o")]
    original_tag: Option<String>,
    #[serde(rename = "v")]
    original_version: Option<String>,
}

#[derive(Serialize)]
struct LegacyEncDoc {
    #[serde(rename = "s")]
    size: u64,
    #[serde(rename = "e")]
    e_tag: Option<String>,
    #[serde(rename = "o")]
    original_tag: Option<String>,
    #[serde(rename = "v")]
    original_version: Option<String>,
    #[serde(rename = "n")]
    aes_nonce: ByteArray<12>,
    #[serde(rename = "t")]
    aes_tags: Vec<ByteArray<16>>,
    #[serde(rename = "c", skip_serializing_if = "Option::is_none")]
    chunk_size: Option<u64>,
    #[serde(rename = "av", skip_serializing_if = "Option::is_none")]
    chunk_aad_version: Option<u8>,
    #[serde(rename = "an", skip_serializing_if = "Option::is_none")]
    auth_nonce: Option<ByteArray<12>>,
    #[serde(rename = "at", skip_serializing_if = "Option::is_none")]
    auth_tag: Option<ByteArray<16>>,
}

#[derive(Clone, Copy, Debug, PartialEq, Eq, Serialize, Deserialize)]
pub enum LegacyFlavor {
    /// MetaStore pre-0.10 / EncryptedStore pre-authentication: no `an`/`at`,
    /// chunks sealed with an empty AAD.
    Plain,
    /// EncryptedStore 0.9.x: sealed metadata, bound chunk AAD, no generation.
    SealedV1,
}

fn derive_nonce(base: &[u8; 12], idx: u64) -> [u8; 12] {
    let mut nonce = *base;
    let mut ctr = [0u8; 8];
    ctr.copy_from_slice(&nonce[4..12]);
    let c = u64::from_le_bytes(ctr).wrapping_add(idx);
    nonce[4..12].copy_from_slice(&c.to_le_bytes());
    nonce
}

fn chunk_aad(chunk_size: u64, idx: u64) -> Vec<u8> {
    let mut aad = Vec::with_capacity(52);
    aad.extend_from_slice(b"anda_object_store.encrypted.chunk.v1");
    aad.extend_from_slice(&chunk_size.to_le_bytes());
    aad.extend_from_slice(&idx.to_le_bytes());
    aad
}

fn push_bytes(out: &mut Vec<u8>, v: &[u8]) {
    out.extend_from_slice(&(v.len() as u64).to_le_bytes());
    out.extend_from_slice(v);
}

fn push_opt_str(out: &mut Vec<u8>, v: Option<&str>) {
    match v {
        Some(v) => {
            out.push(1);
            push_bytes(out, v.as_bytes());
        }
        None => out.push(0),
    }
}

/// AAD of the 0.9.x metadata seal (no generation, no commit timestamp).
fn sealed_v1_aad(key: &str, d: &LegacyEncDoc) -> Vec<u8> {
    let mut aad = Vec::new();
    aad.extend_from_slice(b"anda_object_store.encrypted.metadata.v1");
    push_bytes(&mut aad, key.as_bytes());
    aad.extend_from_slice(&d.size.to_le_bytes());
    push_opt_str(&mut aad, d.e_tag.as_deref());
    push_opt_str(&mut aad, d.original_tag.as_deref());
    push_opt_str(&mut aad, d.original_version.as_deref());
    push_bytes(&mut aad, d.aes_nonce.as_slice());
    match d.chunk_size {
        Some(c) => {
            aad.push(1);
            aad.extend_from_slice(&c.to_le_bytes());
        }
        None => aad.push(0),
    }
    match d.chunk_aad_version {
        Some(v) => {
            aad.push(1);
            aad.push(v);
        }
        None => aad.push(0),
    }
    aad.extend_from_slice(&(d.aes_tags.len() as u64).to_le_bytes());
    for t in &d.aes_tags {
        push_bytes(&mut aad, t.as_slice());
    }
    aad
}

/// Adds a legacy object for key `k` holding `value(tag)` to `content`.
pub fn put_legacy(content: &mut Content, kind: Kind, flavor: LegacyFlavor, k: u8, tag: u8) {
    let key = KEYS[k as usize];
    let plain = value(tag);
    match kind {
        Kind::Meta => {
            let doc = LegacyMetaDoc {
                size: plain.len() as u64,
                e_tag: Some(format!("legacy-etag-{tag}")),
                original_tag: Some("0".into()),
                original_version: None,
            };
            content.insert(format!("data/{key}"), Bytes::from(plain));
            content.insert(format!("meta/{key}"), Bytes::from(cbor2::to_vec(&doc).expect("cbor")));
        }
        Kind::Enc => {
            let cipher = Aes256Gcm::new(&Key::<Aes256Gcm>::from(ENC_SECRET));
            let base: [u8; 12] = [0x40 + tag; 12];
            let bound = flavor == LegacyFlavor::SealedV1;
            let mut ct = plain.clone();
            let mut tags = Vec::new();
            for (i, chunk) in ct.chunks_mut(ENC_CHUNK as usize).enumerate() {
                let nonce = derive_nonce(&base, i as u64);
                let aad = if bound { chunk_aad(ENC_CHUNK, i as u64) } else { Vec::new() };
                let t = cipher
                    .encrypt_inout_detached(&Nonce::from(nonce), &aad, chunk.into())
                    .expect("encrypt");
                let t: [u8; 16] = t.into();
                tags.push(ByteArray::from(t));
            }
            let mut doc = LegacyEncDoc {
                size: plain.len() as u64,
                e_tag: Some(format!("legacy-etag-{tag}")),
                original_tag: Some("0".into()),
                original_version: None,
                aes_nonce: ByteArray::from(base),
                aes_tags: tags,
                chunk_size: Some(ENC_CHUNK),
                chunk_aad_version: if bound { Some(1) } else { None },
                auth_nonce: None,
                auth_tag: None,
            };
            if bound {
                let n: [u8; 12] = [0x90 + tag; 12];
                let aad = sealed_v1_aad(key, &doc);
                let mut empty = [];
                let t = cipher
                    .encrypt_inout_detached(&Nonce::from(n), &aad, (&mut empty[..]).into())
                    .expect("seal");
                let t: [u8; 16] = t.into();
                doc.auth_nonce = Some(ByteArray::from(n));
                doc.auth_tag = Some(ByteArray::from(t));
            }
            content.insert(format!("data/{key}"), Bytes::from(ct));
            content.insert(format!("meta/{key}"), Bytes::from(cbor2::to_vec(&doc).expect("cbor")));
        }
    }
}

// ---------------------------------------------------------------------------
// start states

#[derive(Clone, Debug, PartialEq, Eq, Serialize, Deserialize)]
pub enum Start {
    Empty,
    /// Key 0 is a legacy object.
    LegacyA(LegacyFlavor),
    /// Both keys are legacy objects.
    LegacyAB(LegacyFlavor),
    /// Key 0 legacy plus an orphaned legacy payload `data/<key1>` without a
    /// commit point (a pre-0.10 crash leftover).
    LegacyAOrphanB(LegacyFlavor),
}

impl Start {
    pub fn name(&self) -> String {
        match self {
            Start::Empty => "empty".into(),
            Start::LegacyA(f) => format!("legacy-a/{f:?}"),
            Start::LegacyAB(f) => format!("legacy-a+b/{f:?}"),
            Start::LegacyAOrphanB(f) => format!("legacy-a+orphan-data-b/{f:?}"),
        }
    }
    pub fn is_legacy(&self) -> bool {
        *self != Start::Empty
    }
    pub fn build(&self, kind: Kind) -> (Content, Model) {
        let mut c = Content::new();
        let mut m = empty_model();
        match self {
            Start::Empty => {}
            Start::LegacyA(f) => {
                put_legacy(&mut c, kind, *f, 0, LEGACY_TAGS[0]);
                m[0] = Some(value(LEGACY_TAGS[0]));
            }
            Start::LegacyAB(f) => {
                put_legacy(&mut c, kind, *f, 0, LEGACY_TAGS[0]);
                put_legacy(&mut c, kind, *f, 1, LEGACY_TAGS[1]);
                m[0] = Some(value(LEGACY_TAGS[0]));
                m[1] = Some(value(LEGACY_TAGS[1]));
            }
            Start::LegacyAOrphanB(f) => {
                put_legacy(&mut c, kind, *f, 0, LEGACY_TAGS[0]);
                put_legacy(&mut c, kind, *f, 1, LEGACY_TAGS[1]);
                c.remove(&format!("meta/{}", KEYS[1]));
                m[0] = Some(value(LEGACY_TAGS[0]));
            }
        }
        (c, m)
    }
}

pub fn starts_for(kind: Kind) -> Vec<Start> {
    let mut v = vec![
        Start::Empty,
        Start::LegacyA(LegacyFlavor::Plain),
        Start::LegacyAB(LegacyFlavor::Plain),
        Start::LegacyAOrphanB(LegacyFlavor::Plain),
    ];
    if kind == Kind::Enc {
        v.push(Start::LegacyA(LegacyFlavor::SealedV1));
        v.push(Start::LegacyAB(LegacyFlavor::SealedV1));
    }
    v
}

/// Installs the logical clock on this thread: next read returns `at`.
pub fn clock(at: u64) {
    anda_db_utils::verif::set_clock(Some((at, 1)));
}

pub fn clock_now() -> u64 {
    anda_db_utils::verif::peek_clock().expect("logical clock installed")
}

// ---------------------------------------------------------------------------
// UpStore: the backend's multipart upload, modelled on top of `CtlStore`.
//
// `CtlStore`'s own uploader journals an empty payload when `complete()` is
// called a second time and has no post-effect scheduling point. Here an upload
// is what it is for `InMemory`: the parts are collected, `complete()`
// materialises their concatenation with ONE atomic put (through the gated,
// journalling, fault-scripted `CtlStore::put_opts`), so a repeated
// `complete()` is journalled with its true content and the materialisation
// has both scheduling points. Two backend behaviours:
//
// * `Backend::Memory` — exactly `object_store::memory::InMemory`: a part is
//   stored when `put_part` is called, `complete()` may be repeated (it
//   re-materialises), `abort()` does nothing.
// * `Backend::Cloud` — the shape of the S3/GCS/Azure clients: `put_part`
//   reserves the part number when called and uploads when its future runs
//   (one scheduling point, scriptable failure); `complete()` fails while a
//   reserved part is missing; once `complete()` landed or `abort()` ran the
//   upload id is gone and every further call on the handle fails.

use async_trait::async_trait;
use futures::stream::BoxStream;
use object_store::{
    GetOptions, GetResult, ListResult, MultipartUpload, ObjectMeta, PutMultipartOptions, PutOptions, PutResult,
    UploadPart,
};
use std::sync::Mutex;
use vcore::ctlstore::Answer;

#[derive(Clone, Copy, Debug, PartialEq, Eq, Serialize, Deserialize)]
pub enum Backend {
    Memory,
    Cloud,
}

#[derive(Default)]
struct UpState {
    part_gate: bool,
    part_calls: u64,
    part_script: BTreeMap<u64, Answer>,
}

/// Controls of the upload model (shared by every instance over one store).
#[derive(Default)]
pub struct UpCtl {
    st: Mutex<UpState>,
}

impl UpCtl {
    /// Cloud backend only: every part upload suspends once before it takes effect.
    pub fn set_part_gate(&self, on: bool) {
        self.st.lock().unwrap().part_gate = on;
    }
    /// Number of part uploads issued so far (Cloud backend).
    pub fn part_calls(&self) -> u64 {
        self.st.lock().unwrap().part_calls
    }
    /// Scripts the answer of the part upload with absolute index `idx`.
    pub fn script_part(&self, idx: u64, a: Answer) {
        self.st.lock().unwrap().part_script.insert(idx, a);
    }
    pub fn reset_faults(&self) {
        self.st.lock().unwrap().part_script.clear();
    }
}

#[derive(Debug)]
pub struct UpStore {
    inner: Arc<CtlStore>,
    backend: Backend,
    up: Arc<UpCtl>,
}

impl std::fmt::Debug for UpCtl {
    fn fmt(&self, f: &mut std::fmt::Formatter<'_>) -> std::fmt::Result {
        write!(f, "UpCtl")
    }
}

impl UpStore {
    pub fn new(inner: Arc<CtlStore>, backend: Backend) -> (Arc<UpStore>, Arc<UpCtl>) {
        let up = Arc::new(UpCtl::default());
        (
            Arc::new(UpStore {
                inner,
                backend,
                up: up.clone(),
            }),
            up,
        )
    }
}

impl std::fmt::Display for UpStore {
    fn fmt(&self, f: &mut std::fmt::Formatter<'_>) -> std::fmt::Result {
        write!(f, "UpStore({:?})", self.backend)
    }
}

/// Suspends exactly once (self-waking), like a `CtlStore` gate.
struct Yield(bool);

impl std::future::Future for Yield {
    type Output = ();
    fn poll(mut self: std::pin::Pin<&mut Self>, cx: &mut std::task::Context<'_>) -> std::task::Poll<()> {
        if self.0 {
            self.0 = false;
            cx.waker().wake_by_ref();
            std::task::Poll::Pending
        } else {
            std::task::Poll::Ready(())
        }
    }
}

fn up_err(what: &str, path: &Path) -> Error {
    Error::Generic {
        store: "UpStore",
        source: format!("{what} ({path})").into(),
    }
}

#[async_trait]
impl ObjectStore for UpStore {
    async fn put_opts(&self, location: &Path, payload: PutPayload, opts: PutOptions) -> object_store::Result<PutResult> {
        self.inner.put_opts(location, payload, opts).await
    }

    async fn put_multipart_opts(
        &self,
        location: &Path,
        opts: PutMultipartOptions,
    ) -> object_store::Result<Box<dyn MultipartUpload>> {
        // the start of an upload is a backend call (scheduling point, label,
        // power state); CtlStore's own uploader is not used
        drop(self.inner.put_multipart_opts(location, opts.clone()).await?);
        Ok(Box::new(UpUploader {
            location: location.clone(),
            store: self.inner.clone(),
            backend: self.backend,
            up: self.up.clone(),
            opts,
            parts: Arc::new(Mutex::new(Vec::new())),
            finished: false,
        }))
    }

    async fn get_opts(&self, location: &Path, options: GetOptions) -> object_store::Result<GetResult> {
        self.inner.get_opts(location, options).await
    }

    async fn get_ranges(&self, location: &Path, ranges: &[std::ops::Range<u64>]) -> object_store::Result<Vec<Bytes>> {
        self.inner.get_ranges(location, ranges).await
    }

    fn delete_stream(
        &self,
        locations: BoxStream<'static, object_store::Result<Path>>,
    ) -> BoxStream<'static, object_store::Result<Path>> {
        self.inner.delete_stream(locations)
    }

    fn list(&self, prefix: Option<&Path>) -> BoxStream<'static, object_store::Result<ObjectMeta>> {
        self.inner.list(prefix)
    }

    fn list_with_offset(&self, prefix: Option<&Path>, offset: &Path) -> BoxStream<'static, object_store::Result<ObjectMeta>> {
        self.inner.list_with_offset(prefix, offset)
    }

    async fn list_with_delimiter(&self, prefix: Option<&Path>) -> object_store::Result<ListResult> {
        self.inner.list_with_delimiter(prefix).await
    }

    async fn copy_opts(&self, from: &Path, to: &Path, options: CopyOptions) -> object_store::Result<()> {
        self.inner.copy_opts(from, to, options).await
    }

    async fn rename_opts(&self, from: &Path, to: &Path, options: RenameOptions) -> object_store::Result<()> {
        self.inner.rename_opts(from, to, options).await
    }
}

#[derive(Debug)]
struct UpUploader {
    location: Path,
    store: Arc<CtlStore>,
    backend: Backend,
    up: Arc<UpCtl>,
    opts: PutMultipartOptions,
    /// One slot per `put_part` call, in call order; `None` = reserved, not uploaded.
    parts: Arc<Mutex<Vec<Option<Bytes>>>>,
    /// Cloud backend: the upload id is gone (completed or aborted).
    finished: bool,
}

struct Landed<'a> {
    finished: &'a mut bool,
    cloud: bool,
    store: &'a CtlStore,
    from: usize,
    path: String,
}

impl Drop for Landed<'_> {
    fn drop(&mut self) {
        let landed = self
            .store
            .ctl()
            .journal_from(self.from)
            .iter()
            .any(|e| matches!(&e.mutation, vcore::ctlstore::Mutation::Put { path, .. } if *path == self.path));
        if self.cloud && landed {
            *self.finished = true;
        }
    }
}

fn payload_to_bytes(p: &PutPayload) -> Bytes {
    let mut v = Vec::with_capacity(p.content_length());
    for seg in p.iter() {
        v.extend_from_slice(seg);
    }
    Bytes::from(v)
}

#[async_trait]
impl MultipartUpload for UpUploader {
    fn put_part(&mut self, payload: PutPayload) -> UploadPart {
        let data = payload_to_bytes(&payload);
        match self.backend {
            Backend::Memory => {
                self.parts.lock().unwrap().push(Some(data));
                Box::pin(futures::future::ready(Ok(())))
            }
            Backend::Cloud => {
                if self.finished {
                    let e = up_err("part upload to a finished upload id", &self.location);
                    return Box::pin(futures::future::ready(Err(e)));
                }
                let slot = {
                    let mut p = self.parts.lock().unwrap();
                    p.push(None);
                    p.len() - 1
                };
                let (parts, up, location) = (self.parts.clone(), self.up.clone(), self.location.clone());
                Box::pin(async move {
                    let (gate, answer) = {
                        let mut st = up.st.lock().unwrap();
                        let n = st.part_calls;
                        st.part_calls += 1;
                        (st.part_gate, st.part_script.remove(&n))
                    };
                    if gate {
                        Yield(true).await;
                    }
                    match answer {
                        Some(Answer::ErrBefore) => Err(up_err("injected fault: part upload failed, nothing stored", &location)),
                        Some(Answer::ErrAfter) => {
                            parts.lock().unwrap()[slot] = Some(data);
                            Err(up_err("injected fault: part stored, answer lost", &location))
                        }
                        None => {
                            parts.lock().unwrap()[slot] = Some(data);
                            Ok(())
                        }
                    }
                })
            }
        }
    }

    async fn complete(&mut self) -> object_store::Result<PutResult> {
        if self.finished {
            return Err(up_err("complete of a finished upload id", &self.location));
        }
        let mut buf = Vec::new();
        for p in self.parts.lock().unwrap().iter() {
            match p {
                Some(b) => buf.extend_from_slice(b),
                None => return Err(up_err("complete with a missing part", &self.location)),
            }
        }
        let opts = PutOptions {
            tags: self.opts.tags.clone(),
            attributes: self.opts.attributes.clone(),
            ..Default::default()
        };
        // the upload id is consumed as soon as the materialisation landed,
        // whatever answer reaches the caller — also when the caller drops
        // this future while the answer is in flight
        let _landed = Landed {
            finished: &mut self.finished,
            cloud: self.backend == Backend::Cloud,
            store: &self.store,
            from: self.store.ctl().journal_len(),
            path: self.location.to_string(),
        };
        self.store.put_opts(&self.location, PutPayload::from(buf), opts).await
    }

    async fn abort(&mut self) -> object_store::Result<()> {
        if self.store.ctl().is_powered_off() {
            return Err(up_err("abort: power failure", &self.location));
        }
        match self.backend {
            Backend::Memory => Ok(()),
            Backend::Cloud => {
                if self.finished {
                    return Err(up_err("abort of a finished upload id", &self.location));
                }
                self.finished = true;
                Ok(())
            }
        }
    }
}

// ---------------------------------------------------------------------------
// driving a future by hand (abandoning it at a chosen suspension point)

struct WakeFlag(std::sync::atomic::AtomicBool);

impl std::task::Wake for WakeFlag {
    fn wake(self: Arc<Self>) {
        self.0.store(true, std::sync::atomic::Ordering::SeqCst);
    }
    fn wake_by_ref(self: &Arc<Self>) {
        self.0.store(true, std::sync::atomic::Ordering::SeqCst);
    }
}

/// Polls `f` until it is ready, or until `stop(polls made so far)` says so
/// (asked before every poll): then `f` is dropped where it is suspended.
/// Returns the output (None = dropped while pending) and the polls made.
pub fn drive_until<F: std::future::Future>(f: F, mut stop: impl FnMut(u32) -> bool) -> (Option<F::Output>, u32) {
    use std::sync::atomic::Ordering;
    let flag = Arc::new(WakeFlag(std::sync::atomic::AtomicBool::new(true)));
    let waker = std::task::Waker::from(flag.clone());
    let mut cx = std::task::Context::from_waker(&waker);
    let mut f = std::pin::pin!(f);
    let mut polls = 0u32;
    loop {
        if stop(polls) {
            return (None, polls);
        }
        flag.0.store(false, Ordering::SeqCst);
        polls += 1;
        if let std::task::Poll::Ready(v) = f.as_mut().poll(&mut cx) {
            return (Some(v), polls);
        }
        if !flag.0.load(Ordering::SeqCst) {
            vcore::report::machinery("a call blocked with no wake-up (a lock left behind by a dropped future?)");
        }
        if polls > 100_000 {
            vcore::report::machinery("livelock while driving a call");
        }
    }
}

//! C10 — `BTreeIndex<u64, K>` against `BTreeMap<K, BTreeSet<u64>>`.

use crate::engine::{Fail, FlushOut, HOp, JEntry, ObjKey, Store, Sut};
use anda_db_btree::{BTreeConfig, BTreeError, BTreeIndex, BTreeMetadata, BucketObject, RangeQuery};
use serde::{Deserialize, Serialize, de::DeserializeOwned};
use std::cell::{Cell, RefCell};
use std::collections::{BTreeMap, BTreeSet};
use std::fmt::Debug;
use std::hash::Hash;
use std::marker::PhantomData;
use vcore::util::block_on;

pub type Model<K> = BTreeMap<K, BTreeSet<u64>>;

/// Key type of the index under test: a 4-key universe (a, b, c, long), the
/// sorted list of query constants (universe + absent probes below, between
/// and above), and the primary keys used.
pub trait Key: Ord + Eq + Hash + Debug + Clone + Serialize + DeserializeOwned + Send + Sync + 'static {
    const NAME: &'static str;
    /// index 0..4 = a, b, c, long
    fn universe() -> Vec<Self>;
    /// sorted ascending
    fn probes() -> Vec<Self>;
    fn pk(i: u8) -> u64;
    fn show(&self) -> String;
    /// checks only available for this key type (prefix queries)
    fn extra_checks(_idx: &BTreeIndex<u64, Self>, _model: &Model<Self>, _evals: &mut u64) -> Result<(), Fail> {
        Ok(())
    }
}

pub const LONG_STR: &str = "bbbbbbbbbbbbbbbbbbbbbbbbbbbbbbbbbbbbbbbbbbbbbbbb"; // 48 bytes, sorts between "b" and "c"

impl Key for String {
    const NAME: &'static str = "String";
    fn universe() -> Vec<String> {
        vec!["a".into(), "b".into(), "c".into(), LONG_STR.into()]
    }
    fn probes() -> Vec<String> {
        vec![
            "".into(),
            "a".into(),
            "b".into(),
            LONG_STR.into(),
            "bz".into(),
            "c".into(),
            "d".into(),
        ]
    }
    fn pk(i: u8) -> u64 {
        i as u64 + 1
    }
    fn show(&self) -> String {
        if self.len() > 8 {
            format!("{}..({})", &self[..3], self.len())
        } else {
            self.clone()
        }
    }
    fn extra_checks(idx: &BTreeIndex<u64, String>, model: &Model<String>, evals: &mut u64) -> Result<(), Fail> {
        let long_x = format!("{LONG_STR}x");
        let prefixes: [&str; 9] = ["", "a", "b", "bb", LONG_STR, long_x.as_str(), "bz", "c", "z"];
        for p in prefixes {
            let expect: Vec<(String, Vec<u64>)> = model
                .iter()
                .filter(|(k, _)| k.starts_with(p))
                .map(|(k, v)| (k.clone(), v.iter().copied().collect()))
                .collect();
            // stop after the s-th callback; s = len+1 never stops
            for s in 1..=expect.len() + 1 {
                let mut calls = 0usize;
                let got: Vec<(String, Vec<u64>)> = idx.prefix_query_with(p, |k, ids| {
                    calls += 1;
                    let mut ids = ids.clone();
                    ids.sort_unstable();
                    (calls < s, Some((k.to_string(), ids)))
                });
                *evals += 1;
                let want: Vec<(String, Vec<u64>)> = expect.iter().take(s).cloned().collect();
                if got != want {
                    return Err(Fail::new(
                        if s <= expect.len() { "prefix:early-stop" } else { "prefix:full" },
                        format!("prefix {p:?} stop-after {s}: got {got:?}, model {want:?}"),
                    ));
                }
            }
        }
        Ok(())
    }
}

pub const BIG: u64 = 1 << 62;

impl Key for u64 {
    const NAME: &'static str = "u64";
    fn universe() -> Vec<u64> {
        vec![10, 20, 30, u64::MAX - 1]
    }
    fn probes() -> Vec<u64> {
        vec![0, 10, 15, 20, 30, u64::MAX - 1, u64::MAX]
    }
    /// large primary keys (9-byte CBOR) so that 64-byte buckets split
    fn pk(i: u8) -> u64 {
        BIG + i as u64 + 1
    }
    fn show(&self) -> String {
        self.to_string()
    }
}

#[derive(Clone, Debug, Serialize, Deserialize)]
pub struct BtCfg {
    /// "String" | "u64" (used by --replay to pick the instantiation)
    pub key_type: String,
    pub unique: bool,
    pub bucket_overload_size: usize,
}

#[derive(Clone, Debug, PartialEq, Eq, Serialize, Deserialize)]
pub enum BtOp {
    /// (id index, key index)
    Insert(u8, u8),
    Remove(u8, u8),
    InsertArray(u8, Vec<u8>),
    RemoveArray(u8, Vec<u8>),
    /// (id, old keys, new keys)
    BatchUpdate(u8, Vec<u8>, Vec<u8>),
}

pub struct Bt<K>(PhantomData<K>);

#[derive(Serialize, Deserialize)]
struct MetaWrap {
    metadata: BTreeMetadata,
}

#[derive(Deserialize)]
#[serde(bound(deserialize = "K: DeserializeOwned + Ord"))]
struct BucketMirror<K: Ord> {
    #[serde(rename = "p")]
    postings: BTreeMap<K, (u32, u64, Vec<u64>)>,
}

#[derive(Serialize)]
#[serde(bound(serialize = "K: Serialize + Ord"))]
struct BucketOut<K: Ord> {
    #[serde(rename = "p")]
    postings: BTreeMap<K, (u32, u64, Vec<u64>)>,
}

fn decode_bucket<K: Key>(data: &[u8]) -> Option<BTreeMap<K, (u32, u64, Vec<u64>)>> {
    cbor2::from_slice::<BucketMirror<K>>(data).ok().map(|b| b.postings)
}

fn encode_bucket<K: Key>(postings: BTreeMap<K, (u32, u64, Vec<u64>)>) -> Option<Vec<u8>> {
    let mut buf = Vec::new();
    cbor2::to_writer(&BucketOut { postings }, &mut buf).ok()?;
    Some(buf)
}

fn keys_of<K: Key>(ks: &[u8]) -> Vec<K> {
    let u = K::universe();
    ks.iter().map(|i| u[*i as usize].clone()).collect()
}

fn m_insert<K: Key>(m: &mut Model<K>, id: u64, k: &K) -> bool {
    m.entry(k.clone()).or_default().insert(id)
}

fn m_remove<K: Key>(m: &mut Model<K>, id: u64, k: &K) -> bool {
    if let Some(set) = m.get_mut(k) {
        let r = set.remove(&id);
        if set.is_empty() {
            m.remove(k);
        }
        r
    } else {
        false
    }
}

/// unique index: a key owned by another id rejects the insert
fn m_conflict<K: Key>(m: &Model<K>, unique: bool, id: u64, k: &K) -> bool {
    unique && m.get(k).map(|s| !s.contains(&id)).unwrap_or(false)
}

fn m_insert_array<K: Key>(m: &mut Model<K>, unique: bool, id: u64, ks: &[K]) -> Result<usize, ()> {
    if ks.iter().any(|k| m_conflict(m, unique, id, k)) {
        return Err(());
    }
    let mut n = 0;
    for k in ks {
        if m_insert(m, id, k) {
            n += 1;
        }
    }
    Ok(n)
}

fn m_remove_array<K: Key>(m: &mut Model<K>, id: u64, ks: &[K]) -> usize {
    let mut n = 0;
    for k in ks {
        if m_remove(m, id, k) {
            n += 1;
        }
    }
    n
}

fn show_model<K: Key>(m: &Model<K>) -> String {
    let mut s = String::from("{");
    for (k, ids) in m {
        let ids: Vec<String> = ids.iter().map(|i| (i & 0xff).to_string()).collect();
        s.push_str(&format!("{}:[{}] ", k.show(), ids.join(",")));
    }
    s.push('}');
    s
}

impl<K: Key> Sut for Bt<K> {
    const PROP: &'static str = "C10";
    type Cfg = BtCfg;
    type Op = BtOp;
    type Model = Model<K>;
    type Index = BTreeIndex<u64, K>;

    fn cfg_label(cfg: &BtCfg) -> String {
        format!("{}-{}-b{}", K::NAME, if cfg.unique { "unique" } else { "dup" }, cfg.bucket_overload_size)
    }

    fn op_kind(op: &BtOp) -> String {
        match op {
            BtOp::Insert(..) => "insert",
            BtOp::Remove(..) => "remove",
            BtOp::InsertArray(..) => "insert_array",
            BtOp::RemoveArray(..) => "remove_array",
            BtOp::BatchUpdate(..) => "batch_update",
        }
        .to_string()
    }

    fn new_index(cfg: &BtCfg) -> Self::Index {
        BTreeIndex::new(
            "vindex".to_string(),
            Some(BTreeConfig {
                bucket_overload_size: cfg.bucket_overload_size,
                allow_duplicates: !cfg.unique,
            }),
        )
    }

    fn apply(idx: &Self::Index, cfg: &BtCfg, op: &BtOp, model: &mut Model<K>, now: u64) -> Result<(), Fail> {
        let u = K::universe();
        match op {
            BtOp::Insert(i, k) => {
                let (id, key) = (K::pk(*i), u[*k as usize].clone());
                let want: Result<bool, ()> = if m_conflict(model, cfg.unique, id, &key) {
                    Err(())
                } else {
                    Ok(m_insert(model, id, &key))
                };
                let got = idx.insert(id, key, now);
                match (&got, &want) {
                    (Ok(g), Ok(w)) if g == w => Ok(()),
                    (Err(BTreeError::AlreadyExists { .. }), Err(())) => Ok(()),
                    _ => Err(Fail::new("insert:return", format!("{op:?}: got {got:?}, model {want:?}"))),
                }
            }
            BtOp::Remove(i, k) => {
                let (id, key) = (K::pk(*i), u[*k as usize].clone());
                let want = m_remove(model, id, &key);
                let got = idx.remove(id, key, now);
                if got == want {
                    Ok(())
                } else {
                    Err(Fail::new("remove:return", format!("{op:?}: got {got}, model {want}")))
                }
            }
            BtOp::InsertArray(i, ks) => {
                let id = K::pk(*i);
                let keys = keys_of::<K>(ks);
                let want = m_insert_array(model, cfg.unique, id, &keys);
                let got = idx.insert_array(id, keys, now);
                match (&got, &want) {
                    (Ok(g), Ok(w)) if g == w => Ok(()),
                    (Err(BTreeError::AlreadyExists { .. }), Err(())) => Ok(()),
                    _ => Err(Fail::new("insert_array:return", format!("{op:?}: got {got:?}, model {want:?}"))),
                }
            }
            BtOp::RemoveArray(i, ks) => {
                let id = K::pk(*i);
                let keys = keys_of::<K>(ks);
                let want = m_remove_array(model, id, &keys);
                let got = idx.remove_array(id, keys, now);
                if got == want {
                    Ok(())
                } else {
                    Err(Fail::new("remove_array:return", format!("{op:?}: got {got}, model {want}")))
                }
            }
            BtOp::BatchUpdate(i, old, new) => {
                let id = K::pk(*i);
                let (old_k, new_k) = (keys_of::<K>(old), keys_of::<K>(new));
                let old_s: BTreeSet<K> = old_k.iter().cloned().collect();
                let new_s: BTreeSet<K> = new_k.iter().cloned().collect();
                let to_insert: Vec<K> = new_s.difference(&old_s).cloned().collect();
                let to_remove: Vec<K> = old_s.difference(&new_s).cloned().collect();
                // a rejected update changes nothing
                let want: Result<(usize, usize), ()> = match m_insert_array(model, cfg.unique, id, &to_insert) {
                    Err(()) => Err(()),
                    Ok(ins) => Ok((m_remove_array(model, id, &to_remove), ins)),
                };
                let got = idx.batch_update(id, old_k, new_k, now);
                match (&got, &want) {
                    (Ok(g), Ok(w)) if g == w => Ok(()),
                    (Err(BTreeError::AlreadyExists { .. }), Err(())) => Ok(()),
                    _ => Err(Fail::new("batch_update:return", format!("{op:?}: got {got:?}, model {want:?}"))),
                }
            }
        }
    }

    fn compact(idx: &Self::Index) {
        let _ = idx.compact_buckets();
    }

    fn flush(idx: &Self::Index, now: u64, fail_at: Option<usize>, hook: Option<(usize, &dyn Fn())>) -> FlushOut {
        let puts: RefCell<Vec<JEntry>> = RefCell::new(Vec::new());
        let count = Cell::new(0usize);
        let res = block_on(idx.flush_owned_with(
            now,
            |data: Vec<u8>| {
                let k = count.get();
                count.set(k + 1);
                if let Some((at, f)) = hook
                    && at == k
                {
                    f();
                }
                let r: Result<(), anda_db_btree::BoxError> = if Some(k) == fail_at {
                    Err("injected metadata write error".into())
                } else {
                    puts.borrow_mut().push(JEntry::Put(ObjKey::Meta, data));
                    Ok(())
                };
                std::future::ready(r)
            },
            |obj: BucketObject, data: Vec<u8>| {
                let k = count.get();
                count.set(k + 1);
                if let Some((at, f)) = hook
                    && at == k
                {
                    f();
                }
                let r: Result<(), anda_db_btree::BoxError> = if Some(k) == fail_at {
                    Err("injected bucket write error".into())
                } else {
                    puts.borrow_mut()
                        .push(JEntry::Put(ObjKey::Bucket(obj.bucket_id, obj.generation), data));
                    Ok(())
                };
                std::future::ready(r)
            },
        ));
        FlushOut {
            puts: puts.into_inner(),
            result: res
                .map(|o| o.obsolete.iter().map(|b| ObjKey::Bucket(b.bucket_id, b.generation)).collect())
                .map_err(|e| format!("{e:?}")),
        }
    }

    fn load(_cfg: &BtCfg, store: &Store) -> Result<Self::Index, String> {
        let meta = store.get(&ObjKey::Meta).ok_or_else(|| "no metadata object".to_string())?;
        block_on(BTreeIndex::<u64, K>::load_all(&meta[..], async |obj: BucketObject| {
            Ok(store.get(&ObjKey::Bucket(obj.bucket_id, obj.generation)).cloned())
        }))
        .map_err(|e| format!("{e:?}"))
    }

    fn light_battery(idx: &Self::Index, cfg: &BtCfg, model: &Model<K>, evals: &mut u64) -> Result<(), Fail> {
        let probes = K::probes();
        let mkeys: Vec<K> = model.keys().cloned().collect();
        // len / is_empty / stats
        *evals += 3;
        if idx.len() != model.len() || idx.is_empty() != model.is_empty() {
            return Err(Fail::new(
                "len",
                format!("len {} is_empty {}, model {}", idx.len(), idx.is_empty(), show_model(model)),
            ));
        }
        let st = idx.stats();
        if st.num_elements != model.len() as u64 {
            return Err(Fail::new("stats:num_elements", format!("{} vs model {}", st.num_elements, model.len())));
        }
        if idx.allow_duplicates() == cfg.unique {
            return Err(Fail::new("config:allow_duplicates", "configuration not preserved".to_string()));
        }
        // key listing
        *evals += 1;
        let all = idx.keys(None, None);
        if all != mkeys {
            return Err(Fail::new(
                "keys:all",
                format!("keys {:?}, model {}", all.iter().map(|k| k.show()).collect::<Vec<_>>(), show_model(model)),
            ));
        }
        // point queries (also for absent keys)
        for k in &probes {
            *evals += 1;
            let got: Option<Vec<u64>> = idx.query_with(k, |ids| Some(ids.clone()));
            let want: Option<Vec<u64>> = model.get(k).map(|s| s.iter().copied().collect());
            let got_sorted = got.clone().map(|mut v| {
                v.sort_unstable();
                v
            });
            if got_sorted != want {
                return Err(Fail::new(
                    "query_with",
                    format!("key {}: got {got:?}, model {want:?} ({})", k.show(), show_model(model)),
                ));
            }
            if !cfg.unique {
                continue;
            }
            if let Some(v) = &got
                && v.len() > 1
            {
                return Err(Fail::new("unique:two-owners", format!("key {}: {v:?}", k.show())));
            }
        }
        // full scans in both directions (ordered traversal == model order)
        let full = [
            Spec::Ge(probes[0].clone()),
            Spec::Le(probes[probes.len() - 1].clone()),
            Spec::Not(Box::new(Spec::Include(vec![]))),
        ];
        for spec in &full {
            check_spec(idx, model, spec, false, evals)?;
        }
        // top-level Include with a non-adjacent repeat in unsorted order: each key once, in key order
        for l in include_lists::<K>().into_iter().take(2) {
            check_spec(idx, model, &Spec::Include(l), false, evals)?;
        }
        // one bounded page from a cursor (the complete cursor x limit matrix is in the deep battery)
        if let Some(first) = mkeys.first() {
            *evals += 1;
            let got = idx.keys(Some(first.clone()), Some(1));
            let want: Vec<K> = mkeys.iter().skip(1).take(1).cloned().collect();
            if got != want {
                return Err(Fail::new("keys:cursor-limit", format!("keys(first, 1): got {got:?}, model {want:?}")));
            }
        }
        Ok(())
    }

    fn deep_battery(idx: &Self::Index, _cfg: &BtCfg, model: &Model<K>, depth: usize, evals: &mut u64) -> Result<(), Fail> {
        let probes = K::probes();
        let mkeys: Vec<K> = model.keys().cloned().collect();
        // keys(cursor, limit): every cursor (incl. absent ones) x every limit
        let mut cursors: Vec<Option<K>> = vec![None];
        cursors.extend(probes.iter().cloned().map(Some));
        for cur in &cursors {
            let after: Vec<K> = mkeys
                .iter()
                .filter(|k| cur.as_ref().map(|c| *k > c).unwrap_or(true))
                .cloned()
                .collect();
            for lim in 0..=after.len() + 1 {
                *evals += 1;
                let got = idx.keys(cur.clone(), Some(lim));
                let want: Vec<K> = after.iter().take(lim).cloned().collect();
                if got != want {
                    return Err(Fail::new(
                        "keys:cursor-limit",
                        format!(
                            "keys({:?}, {lim}): got {:?}, model {:?}",
                            cur.as_ref().map(|c| c.show()),
                            got.iter().map(|k| k.show()).collect::<Vec<_>>(),
                            want.iter().map(|k| k.show()).collect::<Vec<_>>()
                        ),
                    ));
                }
            }
            *evals += 1;
            if idx.keys(cur.clone(), None) != after {
                return Err(Fail::new(
                    "keys:cursor",
                    format!("keys({:?}, None) differs from the model", cur.as_ref().map(|c| c.show())),
                ));
            }
        }
        K::extra_checks(idx, model, evals)?;
        for spec in trees::<K>(depth) {
            check_spec(idx, model, &spec, true, evals)?;
        }
        // Nested trees (depth 3) in the quick tier: which keys a tree selects is a function
        // of the KEY SET only (range_keys / range_key_matches_query read the ordered key
        // set, never the postings), so the nested battery runs once per distinct key set
        // of each index configuration instead of once per model state.
        if depth == 2 {
            let tag = format!("{}|{}|{:?}", K::NAME, _cfg.unique, mkeys.iter().map(|k| k.show()).collect::<Vec<_>>());
            let first = NESTED_DONE.lock().insert(tag);
            if first {
                for spec in nested_trees::<K>() {
                    check_spec(idx, model, &spec, true, evals)?;
                }
                NESTED_KEYSETS.fetch_add(1, std::sync::atomic::Ordering::Relaxed);
            }
        }
        Ok(())
    }

    fn model_key(model: &Model<K>) -> String {
        show_model(model)
    }

    fn flags(idx: &Self::Index) -> String {
        let md = idx.metadata();
        format!(
            "mb{} d{} p{} m{:?}",
            md.stats.max_bucket_id,
            idx.has_dirty_buckets() as u8,
            idx.has_pending_metadata_flush() as u8,
            md.buckets.keys().collect::<Vec<_>>()
        )
    }

    fn canon_bucket(_cfg: &BtCfg, data: &[u8]) -> String {
        match cbor2::from_slice::<BucketMirror<K>>(data) {
            Ok(b) => {
                let mut s = String::new();
                for (k, (_, _, mut ids)) in b.postings {
                    ids.sort_unstable();
                    let ids: Vec<String> = ids.iter().map(|i| (i & 0xff).to_string()).collect();
                    s.push_str(&format!("{}={};", k.show(), ids.join(",")));
                }
                s
            }
            Err(_) => format!("raw{:016x}", vcore::util::fnv64(data)),
        }
    }

    /// Legacy (manifest-less, un-suffixed generation-0) layouts with the
    /// leftovers the loader documents: the same key in two bucket objects
    /// ("higher bucket ids are the newer state") and an empty posting
    /// ("treat it as a tombstone: skip it, drop any stale copy already loaded
    /// from an older bucket"). The model follows those two sentences: walk the
    /// objects by ascending bucket id, a later posting replaces an earlier
    /// one, an empty one deletes the key.
    fn fabricate(cfg: &BtCfg, store: &Store, model: &Model<K>, recipe: &str) -> Option<(Store, Model<K>)> {
        let mut out = Self::to_legacy(cfg, store)?;
        let mut objs: BTreeMap<u32, BTreeMap<K, (u32, u64, Vec<u64>)>> = BTreeMap::new();
        for (k, d) in &out {
            if let ObjKey::Bucket(b, _) = k {
                objs.insert(*b, decode_bucket::<K>(d)?);
            }
        }
        // the key to play with: the largest key of the highest non-empty bucket above bucket 0
        let (high, key) = objs
            .iter()
            .rev()
            .find(|(b, p)| **b > 0 && !p.is_empty())
            .map(|(b, p)| (*b, p.keys().next_back().unwrap().clone()))?;
        let low = *objs.keys().next()?;
        if low >= high || objs[&low].contains_key(&key) {
            return None;
        }
        let real = objs[&high][&key].clone();
        let mut m = model.clone();
        match recipe {
            // an older copy of a posting that migrated upwards, with other ids
            "stale-dup" => {
                objs.get_mut(&low)?.insert(key.clone(), (low, 1, vec![K::pk(2)]));
            }
            // the posting was emptied after it migrated: tombstone above, stale copy below
            "tombstone-over-stale" => {
                objs.get_mut(&low)?.insert(key.clone(), (low, 1, real.2.clone()));
                objs.get_mut(&high)?.insert(key.clone(), (high, real.1 + 1, vec![]));
                m.remove(&key);
            }
            // an empty posting with no older copy
            "tombstone" => {
                objs.get_mut(&high)?.insert(key.clone(), (high, real.1 + 1, vec![]));
                m.remove(&key);
            }
            _ => return None,
        }
        for (b, p) in objs {
            out.insert(ObjKey::Bucket(b, 0), encode_bucket::<K>(p)?);
        }
        Some((out, m))
    }

    fn to_legacy(_cfg: &BtCfg, store: &Store) -> Option<Store> {
        let meta = store.get(&ObjKey::Meta)?;
        let mut w: MetaWrap = cbor2::from_slice(meta).ok()?;
        let mut out = Store::new();
        for (id, generation) in &w.metadata.buckets {
            let d = store.get(&ObjKey::Bucket(*id, *generation))?;
            out.insert(ObjKey::Bucket(*id, 0), d.clone());
        }
        w.metadata.buckets.clear();
        let mut buf = Vec::new();
        cbor2::to_writer(&w, &mut buf).ok()?;
        out.insert(ObjKey::Meta, buf);
        Some(out)
    }
}

// ---------------------------------------------------------------- range queries

/// Query specification with its own semantics (`matches`), independent of
/// the implementation.
#[derive(Clone, Debug)]
pub enum Spec<K> {
    Eq(K),
    Gt(K),
    Ge(K),
    Lt(K),
    Le(K),
    Between(K, K),
    Include(Vec<K>),
    And(Vec<Spec<K>>),
    Or(Vec<Spec<K>>),
    Not(Box<Spec<K>>),
}

impl<K: Key> Spec<K> {
    pub fn to_query(&self) -> RangeQuery<K> {
        match self {
            Spec::Eq(v) => RangeQuery::Eq(v.clone()),
            Spec::Gt(v) => RangeQuery::Gt(v.clone()),
            Spec::Ge(v) => RangeQuery::Ge(v.clone()),
            Spec::Lt(v) => RangeQuery::Lt(v.clone()),
            Spec::Le(v) => RangeQuery::Le(v.clone()),
            Spec::Between(a, b) => RangeQuery::Between(a.clone(), b.clone()),
            Spec::Include(vs) => RangeQuery::Include(vs.clone()),
            Spec::And(s) => RangeQuery::And(s.iter().map(|x| Box::new(x.to_query())).collect()),
            Spec::Or(s) => RangeQuery::Or(s.iter().map(|x| Box::new(x.to_query())).collect()),
            Spec::Not(s) => RangeQuery::Not(Box::new(s.to_query())),
        }
    }

    /// Set semantics: And = intersection (of nothing = nothing, as the
    /// repository's own reference model defines it), Or = union, Not =
    /// complement within the indexed keys, Between(a, b) with a > b = empty.
    pub fn matches(&self, key: &K) -> bool {
        match self {
            Spec::Eq(v) => key == v,
            Spec::Gt(v) => key > v,
            Spec::Ge(v) => key >= v,
            Spec::Lt(v) => key < v,
            Spec::Le(v) => key <= v,
            Spec::Between(a, b) => a <= b && key >= a && key <= b,
            Spec::Include(vs) => vs.contains(key),
            Spec::And(s) => !s.is_empty() && s.iter().all(|x| x.matches(key)),
            Spec::Or(s) => s.iter().any(|x| x.matches(key)),
            Spec::Not(s) => !s.matches(key),
        }
    }

    pub fn shape(&self) -> String {
        match self {
            Spec::Eq(_) => "Eq".into(),
            Spec::Gt(_) => "Gt".into(),
            Spec::Ge(_) => "Ge".into(),
            Spec::Lt(_) => "Lt".into(),
            Spec::Le(_) => "Le".into(),
            Spec::Between(a, b) => if a > b { "BetweenInv" } else { "Between" }.into(),
            Spec::Include(v) => {
                let distinct: BTreeSet<&K> = v.iter().collect();
                if v.is_empty() {
                    "Include0"
                } else if distinct.len() < v.len() {
                    "IncludeRepeat"
                } else {
                    "Include"
                }
                .into()
            }
            Spec::And(s) => format!("And({})", s.iter().map(|x| x.shape()).collect::<Vec<_>>().join(",")),
            Spec::Or(s) => format!("Or({})", s.iter().map(|x| x.shape()).collect::<Vec<_>>().join(",")),
            Spec::Not(s) => format!("Not({})", s.shape()),
        }
    }

    pub fn show(&self) -> String {
        match self {
            Spec::Eq(v) => format!("Eq({})", v.show()),
            Spec::Gt(v) => format!("Gt({})", v.show()),
            Spec::Ge(v) => format!("Ge({})", v.show()),
            Spec::Lt(v) => format!("Lt({})", v.show()),
            Spec::Le(v) => format!("Le({})", v.show()),
            Spec::Between(a, b) => format!("Between({},{})", a.show(), b.show()),
            Spec::Include(v) => format!("Include({:?})", v.iter().map(|x| x.show()).collect::<Vec<_>>()),
            Spec::And(s) => format!("And({})", s.iter().map(|x| x.show()).collect::<Vec<_>>().join(",")),
            Spec::Or(s) => format!("Or({})", s.iter().map(|x| x.show()).collect::<Vec<_>>().join(",")),
            Spec::Not(s) => format!("Not({})", s.show()),
        }
    }
}

/// One query, both directions, the callback stopping at every position.
/// `every_stop = false`: only the unbounded run and a stop after the first key.
fn check_spec<K: Key>(
    idx: &BTreeIndex<u64, K>,
    model: &Model<K>,
    spec: &Spec<K>,
    every_stop: bool,
    evals: &mut u64,
) -> Result<(), Fail> {
    let matching: Vec<(K, Vec<u64>)> = model
        .iter()
        .filter(|(k, _)| spec.matches(k))
        .map(|(k, v)| (k.clone(), v.iter().copied().collect()))
        .collect();
    let m = matching.len();
    let stops: Vec<usize> = if every_stop || m == 0 {
        (1..=m + 1).collect()
    } else {
        vec![1, m + 1]
    };
    for descending in [false, true] {
        for &s in &stops {
            let mut calls = 0usize;
            let f = |k: &K, ids: &Vec<u64>| {
                calls += 1;
                let mut ids = ids.clone();
                ids.sort_unstable();
                (calls < s, vec![(k.clone(), ids)])
            };
            let got: Vec<(K, Vec<u64>)> = if descending {
                idx.range_query_rev_with(spec.to_query(), f)
            } else {
                idx.range_query_with(spec.to_query(), f)
            };
            *evals += 1;
            let take = s.min(m);
            let want: &[(K, Vec<u64>)] = if descending { &matching[m - take..] } else { &matching[..take] };
            if got.as_slice() != want {
                let early = s <= m;
                return Err(Fail::new(
                    format!(
                        "range:{}:{}:{}",
                        spec.shape(),
                        if descending { "desc" } else { "asc" },
                        if early { "early-stop" } else { "full" }
                    ),
                    format!(
                        "{} {} stop-at-call {s}: got {:?}, model {:?}; index content {}",
                        spec.show(),
                        if descending { "descending" } else { "ascending" },
                        got.iter().map(|(k, v)| (k.show(), v.clone())).collect::<Vec<_>>(),
                        want.iter().map(|(k, v)| (k.show(), v.clone())).collect::<Vec<_>>(),
                        show_model(model)
                    ),
                ));
            }
        }
    }
    Ok(())
}

/// Include lists over the indexed universe (a, b, c): non-adjacent repeat in
/// unsorted order, unsorted without repeat, adjacent repeat.
pub fn include_lists<K: Key>() -> Vec<Vec<K>> {
    let u = K::universe();
    let (a, b, c) = (u[0].clone(), u[1].clone(), u[2].clone());
    vec![
        vec![b.clone(), a.clone(), b.clone()],
        vec![c.clone(), a.clone(), b.clone(), a.clone()],
        vec![c, a.clone(), b],
        vec![a.clone(), a],
    ]
}

/// Leaf queries. `level` 1: small set (quick); 2: the full set; 3: the
/// reduced set used below depth-3 trees.
pub fn atoms<K: Key>(level: usize) -> Vec<Spec<K>> {
    let p = K::probes(); // p0 < a < b < p3 < p4 < p5 < p6
    let n = p.len();
    let mut out = Vec::new();
    match level {
        3 => {
            out.push(Spec::Eq(p[2].clone()));
            out.push(Spec::Gt(p[1].clone()));
            out.push(Spec::Le(p[3].clone()));
            out.push(Spec::Lt(p[4].clone()));
            out.push(Spec::Between(p[1].clone(), p[n - 2].clone()));
            out.push(Spec::Between(p[n - 2].clone(), p[1].clone()));
            let inc = include_lists::<K>();
            out.push(Spec::Include(inc[1].clone()));
            out.push(Spec::Include(inc[0].clone()));
            out.push(Spec::Include(vec![]));
        }
        1 => {
            for i in [1, 4] {
                out.push(Spec::Eq(p[i].clone()));
            }
            for i in [2, 4] {
                out.push(Spec::Gt(p[i].clone()));
                out.push(Spec::Ge(p[i].clone()));
                out.push(Spec::Lt(p[i].clone()));
                out.push(Spec::Le(p[i].clone()));
            }
            out.push(Spec::Between(p[1].clone(), p[n - 2].clone()));
            out.push(Spec::Between(p[n - 2].clone(), p[1].clone()));
            out.push(Spec::Between(p[3].clone(), p[3].clone()));
            out.push(Spec::Include(vec![]));
            out.push(Spec::Include(vec![p[n - 2].clone(), p[1].clone()]));
            out.push(Spec::Include(vec![p[1].clone(), p[1].clone()]));
            out.push(Spec::Include(p.clone()));
            for l in include_lists::<K>() {
                out.push(Spec::Include(l));
            }
        }
        _ => {
            for x in &p {
                out.push(Spec::Eq(x.clone()));
            }
            for x in &p {
                out.push(Spec::Gt(x.clone()));
                out.push(Spec::Ge(x.clone()));
                out.push(Spec::Lt(x.clone()));
                out.push(Spec::Le(x.clone()));
            }
            for (a, b) in [(1, n - 2), (2, 3), (3, 3), (n - 2, 1), (0, n - 1), (4, 4), (2, 4), (0, 1), (n - 1, 0)] {
                out.push(Spec::Between(p[a].clone(), p[b].clone()));
            }
            out.push(Spec::Include(vec![]));
            out.push(Spec::Include(vec![p[1].clone()]));
            out.push(Spec::Include(vec![p[1].clone(), p[1].clone()]));
            out.push(Spec::Include(vec![p[4].clone()]));
            out.push(Spec::Include(vec![p[n - 2].clone(), p[1].clone()]));
            out.push(Spec::Include(p.clone()));
            for l in include_lists::<K>() {
                out.push(Spec::Include(l));
            }
        }
    }
    out
}

/// All trees of depth <= 2 over `a`: leaves, Not(leaf), And/Or of every
/// ordered pair of leaves, the degenerate arities 0 and 1, and a few ternaries.
fn depth2<K: Key>(a: &[Spec<K>]) -> Vec<Spec<K>> {
    let mut out: Vec<Spec<K>> = a.to_vec();
    out.push(Spec::And(vec![]));
    out.push(Spec::Or(vec![]));
    for x in a {
        out.push(Spec::Not(Box::new(x.clone())));
        out.push(Spec::And(vec![x.clone()]));
        out.push(Spec::Or(vec![x.clone()]));
    }
    for x in a {
        for y in a {
            out.push(Spec::And(vec![x.clone(), y.clone()]));
            out.push(Spec::Or(vec![x.clone(), y.clone()]));
        }
    }
    let n = a.len();
    for i in 0..n {
        let (x, y, z) = (&a[i], &a[(i + 3) % n], &a[(i + 7) % n]);
        out.push(Spec::And(vec![x.clone(), y.clone(), z.clone()]));
        out.push(Spec::Or(vec![x.clone(), y.clone(), z.clone()]));
    }
    out
}

/// The tree battery for a depth bound (leaf = depth 1).
/// depth 2 (quick): all trees over `atoms(1)` plus every leaf of `atoms(2)`;
/// depth 3 (thorough): all depth<=2 trees over `atoms(2)`, plus all trees of
/// depth 3 (Not / binary And / binary Or over depth<=2 trees) over `atoms(3)`.
pub fn trees<K: Key>(depth: usize) -> Vec<Spec<K>> {
    match depth {
        0 => vec![],
        1 => atoms::<K>(2),
        2 => {
            let mut out = depth2(&atoms::<K>(1));
            out.extend(atoms::<K>(2));
            out
        }
        _ => {
            let mut out = depth2(&atoms::<K>(2));
            let t2 = depth2(&atoms::<K>(3));
            for x in &t2 {
                out.push(Spec::Not(Box::new(x.clone())));
            }
            for x in &t2 {
                for y in &t2 {
                    out.push(Spec::And(vec![x.clone(), y.clone()]));
                    out.push(Spec::Or(vec![x.clone(), y.clone()]));
                }
            }
            out
        }
    }
}

/// key sets (per key type and uniqueness) that already had the nested battery
static NESTED_DONE: parking_lot::Mutex<BTreeSet<String>> = parking_lot::Mutex::new(BTreeSet::new());
pub static NESTED_KEYSETS: std::sync::atomic::AtomicU64 = std::sync::atomic::AtomicU64::new(0);

/// Depth-3 trees for the quick tier. Leaves L: one of each seed rank (Eq,
/// Include with a repeat, Between, open ranges in both directions).
/// Composites C over L: Not(l), And/Or of every ordered pair. Trees:
/// Not(c); And/Or of (c, l) and (l, c) for every c and l; And/Or of every
/// ordered pair of the negations and of (Not(l), c). Every operand kind thus
/// occurs nested as the intersection seed, as a non-seed filter operand, as a
/// union member and under a negation.
pub fn nested_trees<K: Key>() -> Vec<Spec<K>> {
    let p = K::probes();
    let inc = include_lists::<K>();
    let leaves: Vec<Spec<K>> = vec![
        Spec::Eq(p[2].clone()),
        Spec::Include(inc[1].clone()),
        Spec::Between(p[2].clone(), p[5].clone()),
        Spec::Gt(p[1].clone()),
        Spec::Le(p[3].clone()),
    ];
    let nots: Vec<Spec<K>> = leaves.iter().map(|l| Spec::Not(Box::new(l.clone()))).collect();
    let mut comps: Vec<Spec<K>> = nots.clone();
    for x in &leaves {
        for y in &leaves {
            comps.push(Spec::And(vec![x.clone(), y.clone()]));
            comps.push(Spec::Or(vec![x.clone(), y.clone()]));
        }
    }
    let mut out = Vec::new();
    for c in &comps {
        out.push(Spec::Not(Box::new(c.clone())));
        for l in &leaves {
            out.push(Spec::And(vec![c.clone(), l.clone()]));
            out.push(Spec::And(vec![l.clone(), c.clone()]));
            out.push(Spec::Or(vec![c.clone(), l.clone()]));
            out.push(Spec::Or(vec![l.clone(), c.clone()]));
        }
    }
    for n in &nots {
        for c in &comps {
            out.push(Spec::And(vec![n.clone(), c.clone()]));
            out.push(Spec::And(vec![c.clone(), n.clone()]));
            out.push(Spec::Or(vec![n.clone(), c.clone()]));
        }
    }
    // a nested operand between two leaves (swap_remove of the seed reorders the rest)
    for c in comps.iter().step_by(3) {
        out.push(Spec::And(vec![leaves[3].clone(), c.clone(), leaves[4].clone()]));
        out.push(Spec::And(vec![leaves[0].clone(), leaves[4].clone(), c.clone()]));
    }
    out
}

pub fn tree_count<K: Key>(depth: usize) -> usize {
    trees::<K>(depth).len()
}

// ---------------------------------------------------------------- alphabets

const ARRAYS: [&[u8]; 4] = [&[0, 1], &[2, 3], &[0, 1, 2, 3], &[1, 1]];
const UPDATES: [(&[u8], &[u8]); 4] = [
    (&[0], &[1]),
    (&[0, 1], &[1, 2]),
    (&[0, 1, 2, 3], &[]),
    (&[], &[3, 0]),
];

/// Simplest first. `ids`: how many primary keys (1..=3).
pub fn alphabet(ids: u8, arrays: bool, updates: bool) -> Vec<HOp<BtOp>> {
    let mut a = Vec::new();
    for i in 0..ids {
        for k in 0..4u8 {
            a.push(HOp::Do(BtOp::Insert(i, k)));
        }
    }
    for i in 0..ids {
        for k in 0..4u8 {
            a.push(HOp::Do(BtOp::Remove(i, k)));
        }
    }
    a.push(HOp::Flush);
    a.push(HOp::FlushLoad);
    a.push(HOp::Compact);
    if arrays {
        for i in 0..ids {
            for ks in ARRAYS {
                a.push(HOp::Do(BtOp::InsertArray(i, ks.to_vec())));
            }
        }
        for i in 0..ids {
            for ks in ARRAYS {
                a.push(HOp::Do(BtOp::RemoveArray(i, ks.to_vec())));
            }
        }
        a.push(HOp::Do(BtOp::InsertArray(0, vec![])));
        a.push(HOp::Do(BtOp::RemoveArray(0, vec![])));
    }
    if updates {
        for i in 0..ids {
            for (o, n) in UPDATES {
                a.push(HOp::Do(BtOp::BatchUpdate(i, o.to_vec(), n.to_vec())));
            }
        }
    }
    a
}

/// Focused alphabet: grow and shrink the posting of the long key (plus one
/// small key sharing its bucket) so that an EXISTING posting overflows its
/// bucket and migrates; small enough to reach depth 8 in the quick tier.
pub fn alphabet_growth() -> Vec<HOp<BtOp>> {
    let mut a = Vec::new();
    for i in 0..3u8 {
        a.push(HOp::Do(BtOp::Insert(i, 3)));
    }
    for i in 0..3u8 {
        a.push(HOp::Do(BtOp::Remove(i, 3)));
    }
    a.push(HOp::Flush);
    a.push(HOp::FlushLoad);
    a.push(HOp::Compact);
    a.push(HOp::Do(BtOp::Insert(0, 0)));
    a.push(HOp::Do(BtOp::Remove(0, 0)));
    a
}

/// Start states whose ops are executed but not enumerated.
pub fn preludes() -> Vec<(&'static str, Vec<HOp<BtOp>>)> {
    // every key owned by ids 0 and 1 (postings that can SHRINK without becoming empty), the
    // long key and key a by id 2 as well: several 64-byte buckets
    let populated = vec![
        HOp::Do(BtOp::InsertArray(0, vec![0, 1, 2, 3])),
        HOp::Do(BtOp::InsertArray(1, vec![0, 1, 2, 3])),
        HOp::Do(BtOp::Insert(2, 3)),
        HOp::Do(BtOp::Insert(2, 0)),
    ];
    let mut flushed = populated.clone();
    flushed.push(HOp::Flush);
    // shrunk after the flush so that buckets are under-filled, then compacted and flushed
    let mut compacted = flushed.clone();
    compacted.extend([
        HOp::Do(BtOp::Remove(2, 3)),
        HOp::Do(BtOp::RemoveArray(1, vec![2, 3])),
        HOp::Compact,
        HOp::Flush,
    ]);
    // for unique indexes: one owner per key
    let unique = vec![
        HOp::Do(BtOp::InsertArray(0, vec![0, 3])),
        HOp::Do(BtOp::Insert(1, 1)),
        HOp::Do(BtOp::Insert(2, 2)),
        HOp::Flush,
        HOp::Do(BtOp::Remove(2, 2)),
        HOp::Compact,
        HOp::Flush,
    ];
    vec![
        ("prelude-populated", populated),
        ("prelude-populated-flushed", flushed),
        ("prelude-shrunk-compacted-flushed", compacted),
        ("prelude-unique-compacted-flushed", unique),
    ]
}

/// (label, seed, recipe) of the hand-made legacy layouts (`Bt::fabricate`).
pub fn fabricated() -> Vec<(&'static str, Vec<HOp<BtOp>>, &'static str)> {
    let seed = vec![
        HOp::Do(BtOp::Insert(0, 0)),
        HOp::Do(BtOp::Insert(0, 1)),
        HOp::Do(BtOp::InsertArray(1, vec![0, 3])),
        HOp::Do(BtOp::Insert(0, 2)),
        HOp::Do(BtOp::Insert(1, 2)),
    ];
    vec![
        ("legacy-stale-duplicate-below", seed.clone(), "stale-dup"),
        ("legacy-tombstone-over-stale-copy", seed.clone(), "tombstone-over-stale"),
        ("legacy-tombstone", seed, "tombstone"),
    ]
}

/// Where the histories of a job start.
#[derive(Clone, Copy, Debug)]
pub enum Origin {
    Fresh,
    /// index into `legacy_seeds()`
    Legacy(usize),
    /// index into `preludes()`
    Prelude(usize),
    /// index into `fabricated()`
    Fabricated(usize),
}

pub fn origin_start(o: Origin) -> (crate::engine::Start<BtOp>, String) {
    use crate::engine::Start;
    match o {
        Origin::Fresh => (Start::Fresh, "fresh".to_string()),
        Origin::Legacy(i) => {
            let (name, seed) = legacy_seeds().swap_remove(i);
            (Start::Legacy(seed), name.to_string())
        }
        Origin::Prelude(i) => {
            let (name, ops) = preludes().swap_remove(i);
            (Start::Prelude(ops), name.to_string())
        }
        Origin::Fabricated(i) => {
            let (name, seed, recipe) = fabricated().swap_remove(i);
            (Start::Fabricated { seed, recipe: recipe.to_string() }, name.to_string())
        }
    }
}

/// Seeds whose flushed state is rewritten into the pre-manifest layout.
pub fn legacy_seeds() -> Vec<(&'static str, Vec<HOp<BtOp>>)> {
    vec![
        ("legacy-empty", vec![]),
        (
            "legacy-3buckets",
            vec![
                HOp::Do(BtOp::Insert(0, 3)),
                HOp::Do(BtOp::InsertArray(1, vec![0, 1, 2, 3])),
                HOp::Do(BtOp::Insert(2, 0)),
            ],
        ),
        (
            "legacy-after-removal",
            vec![
                HOp::Do(BtOp::InsertArray(0, vec![0, 1, 2, 3])),
                HOp::Flush,
                HOp::Do(BtOp::Remove(0, 3)),
                HOp::Do(BtOp::Insert(1, 1)),
            ],
        ),
    ]
}

//! Shared helpers for the vindex check parts.

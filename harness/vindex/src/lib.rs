//! vindex — model checking of the two index crates (`anda_db_btree`,
//! `anda_db_tfs`) against boring reference models.
//!
//! * `engine`  — generic HIST (explicit-state search over operation
//!   histories) and CRASH (every prefix / cut of every flush journal) drivers;
//! * `bt`      — C10: `BTreeIndex` vs `BTreeMap<Key, BTreeSet<Pk>>`;
//! * `tfs`     — C11: `BM25Index` vs a naive inverted index.

pub mod bt;
pub mod engine;
pub mod tfs;

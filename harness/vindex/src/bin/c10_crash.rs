//! C10 / crash — every prefix and cut of the object writes of every flush
//! reachable by a bounded history, loaded with `load_all` and compared with
//! the last committed / the interrupted model state; plus one failed write at
//! every position followed by a retry.

use serde_json::json;
use vcore::{Run, Tier};
use vindex::bt::{self, Bt, BtCfg, BtOp, Key, Origin};
use vindex::engine::{self, CrashOpts, Explore, ExploreOut, HOp, Mode};

struct Job {
    key_type: &'static str,
    unique: bool,
    start: Origin,
    alphabet: Vec<HOp<BtOp>>,
    depth: usize,
    share: f64,
}

fn followups() -> Vec<HOp<BtOp>> {
    vec![
        HOp::Do(BtOp::Insert(0, 0)),
        HOp::Do(BtOp::Insert(1, 3)),
        HOp::Do(BtOp::Remove(0, 0)),
        HOp::Do(BtOp::RemoveArray(1, vec![0, 1, 2, 3])),
        HOp::Compact,
    ]
}

/// histories up to this depth get the mutation-during-flush enumeration (quick 2, thorough 3)
static MIDFLUSH_DEPTH: std::sync::atomic::AtomicUsize = std::sync::atomic::AtomicUsize::new(2);

fn mode() -> Mode<BtOp> {
    Mode::Crash(CrashOpts {
        followups: followups(),
        cuts: true,
        err_prefixes: true,
        midflush: vec![
            BtOp::Insert(2, 0),
            BtOp::Insert(2, 3),
            BtOp::Remove(0, 0),
            BtOp::Remove(0, 3),
            BtOp::InsertArray(1, vec![0, 1, 2, 3]),
        ],
        midflush_depth: MIDFLUSH_DEPTH.load(std::sync::atomic::Ordering::Relaxed),
    })
}

fn run_job<K: Key>(run: &mut Run, job: &Job, budget_s: f64) -> ExploreOut {
    let cfg = BtCfg {
        key_type: K::NAME.to_string(),
        unique: job.unique,
        bucket_overload_size: 64,
    };
    let (start, start_label) = bt::origin_start(job.start);
    let x = Explore::<Bt<K>> {
        cfg,
        start,
        start_label,
        alphabet: job.alphabet.clone(),
        max_depth: job.depth,
        dedup: true,
        mode: mode(),
        deep_depth: 0,
        past_known: false,
    };
    engine::explore(run, "crash", &x, budget_s, budget_s)
}

fn main() {
    let mut run = Run::from_args("C10", "crash", "model_checking");
    MIDFLUSH_DEPTH.store(run.tier.pick(2, 3), std::sync::atomic::Ordering::Relaxed);
    if let Some(file) = run.replay_file.clone() {
        let doc: serde_json::Value = match std::fs::read(&file).ok().and_then(|d| serde_json::from_slice(&d).ok()) {
            Some(d) => d,
            None => vcore::report::machinery("cannot read replay file"),
        };
        match doc["replay"]["cfg"]["key_type"].as_str() {
            Some("u64") => engine::replay::<Bt<u64>>(&mut run, "crash", &doc, mode, 0),
            _ => engine::replay::<Bt<String>>(&mut run, "crash", &doc, mode, 0),
        }
        run.finish();
    }

    let full = bt::alphabet(3, true, true);
    let small = bt::alphabet(2, true, false);
    use Origin::*;
    let jobs: Vec<Job> = match run.tier {
        Tier::Quick => vec![
            Job { key_type: "String", unique: false, start: Fresh, alphabet: full.clone(), depth: 2, share: 0.15 },
            Job { key_type: "String", unique: false, start: Fresh, alphabet: small.clone(), depth: 3, share: 0.35 },
            Job { key_type: "String", unique: true, start: Fresh, alphabet: small.clone(), depth: 3, share: 0.10 },
            Job { key_type: "u64", unique: false, start: Fresh, alphabet: small.clone(), depth: 3, share: 0.15 },
            Job { key_type: "String", unique: false, start: Legacy(0), alphabet: small.clone(), depth: 2, share: 0.05 },
            Job { key_type: "String", unique: false, start: Legacy(1), alphabet: small.clone(), depth: 2, share: 0.10 },
            Job { key_type: "String", unique: false, start: Legacy(2), alphabet: small.clone(), depth: 2, share: 0.10 },
            Job { key_type: "String", unique: false, start: Prelude(0), alphabet: small.clone(), depth: 2, share: 0.05 },
            Job { key_type: "String", unique: false, start: Prelude(2), alphabet: small.clone(), depth: 2, share: 0.05 },
            Job { key_type: "String", unique: false, start: Fabricated(0), alphabet: small.clone(), depth: 1, share: 0.03 },
            Job { key_type: "String", unique: false, start: Fabricated(1), alphabet: small.clone(), depth: 1, share: 0.03 },
        ],
        Tier::Thorough => vec![
            Job { key_type: "String", unique: false, start: Fresh, alphabet: full.clone(), depth: 7, share: 0.40 },
            Job { key_type: "String", unique: true, start: Fresh, alphabet: full.clone(), depth: 7, share: 0.12 },
            Job { key_type: "u64", unique: false, start: Fresh, alphabet: full.clone(), depth: 7, share: 0.15 },
            Job { key_type: "u64", unique: true, start: Fresh, alphabet: full.clone(), depth: 7, share: 0.08 },
            Job { key_type: "String", unique: false, start: Legacy(0), alphabet: full.clone(), depth: 4, share: 0.05 },
            Job { key_type: "String", unique: false, start: Legacy(1), alphabet: full.clone(), depth: 4, share: 0.10 },
            Job { key_type: "String", unique: false, start: Legacy(2), alphabet: full.clone(), depth: 4, share: 0.08 },
            Job { key_type: "String", unique: false, start: Prelude(0), alphabet: full.clone(), depth: 4, share: 0.05 },
            Job { key_type: "String", unique: false, start: Prelude(2), alphabet: full.clone(), depth: 4, share: 0.05 },
            Job { key_type: "String", unique: false, start: Fabricated(0), alphabet: full.clone(), depth: 3, share: 0.03 },
            Job { key_type: "String", unique: false, start: Fabricated(1), alphabet: full.clone(), depth: 3, share: 0.03 },
        ],
    };

    let total = run.budget_s * 0.95;
    let mut outs = Vec::new();
    let mut carry = 0.0;
    for job in &jobs {
        // quick: fixed bounds, the budget is only a cap
        let budget = if run.tier == Tier::Quick { run.remaining_s() * 0.95 } else { total * job.share + carry };
        let t = run.elapsed();
        let out = match job.key_type {
            "u64" => run_job::<u64>(&mut run, job, budget),
            _ => run_job::<String>(&mut run, job, budget),
        };
        let used = run.elapsed() - t;
        carry = (budget - used).max(0.0);
        println!(
            "  [{}] alphabet={} depth {}/{} states={} transitions={} dedup_hits={} evals={} frontier={:?} {:.1}s",
            out.label, out.alphabet, out.completed_depth, out.requested_depth, out.states, out.transitions, out.dedup_hits,
            out.light_evals, out.frontier_sizes, used
        );
        outs.push(json!(out));
    }
    if std::env::var("VINDEX_PROF").is_ok() {
        let p: Vec<f64> = engine::PROF.iter().map(|a| a.load(std::sync::atomic::Ordering::Relaxed) as f64 / 1e9).collect();
        println!("  profile (cpu s): start+ops {:.2}, live battery {:.2}, probe flush {:.2}, probe load+battery {:.2}, key {:.2}, crash {:.2}", p[0], p[1], p[2], p[3], p[4], p[5]);
    }
    run.set("runs", json!(outs));
    run.rule(
        "histories as in the hist part (same alphabet, dedup key and per-step checks); for the flush of EVERY candidate history \
         (so: first flush, incremental flush after a flush, flush after compact_buckets, flush after load_all, flush of a loaded \
         legacy manifest-less layout) the journal of object writes is captured through the flush closures in issue order \
         (bucket puts ascending by bucket id, awaited one by one; metadata put = commit; then deletion of FlushOutcome::obsolete, as the \
         production adapter does). Crash states: every linear prefix, every subset of the bucket puts without the commit, commit + \
         every subset of the deletions; each is loaded with load_all and must answer the light battery as the last committed model \
         or as the interrupted flush's model (whole); from each distinct crash state 5 follow-up ops (insert, insert long key, \
         remove, remove_array, compact) each followed by flush + load + battery. Every write position is also failed once \
         (closure returns Err): flush must return Err, live index unchanged, durable = last commit, retried flush persists the state. \
         Mutation during a flush (histories to depth 2 quick / 3 thorough): at every write position one mutation from a small set is \
         applied from INSIDE the flush write closure (the flush is suspended in its I/O); the disturbed flush must commit the \
         pre-mutation snapshot whole, the live index has the mutation, and the next undisturbed flush + load has it too",
    );
    run.assume("a crash loses exactly the writes not yet acknowledged by the flush closures; object puts/deletes are atomic per object (object-store contract, checked by C07/C08)");
    run.rule(
        "additional start states: the populated multi-bucket prelude and the shrunk + compacted + flushed prelude (depth 2), and two \
         hand-made legacy layouts (key duplicated in a lower bucket; empty posting above an older copy) at depth 1: the first flush \
         after loading them (repair of the lower bucket + first manifest) is crash-enumerated like every other flush",
    );
    run.assume("legacy start states are fabricated from a real flush: manifest stripped from the metadata, bucket objects renamed to generation 0 (the layout the crate docs and its tests describe); duplicates / empty postings are written into those objects by hand following the loader's documentation");
    run.assume("dedup key does not see in-memory bucket size estimates or version counters");
    run.finish();
}

//! C10 / hist — explicit-state search over operation histories of
//! `BTreeIndex<u64, String>` and `BTreeIndex<u64, u64>` (64-byte buckets,
//! unique and non-unique) against `BTreeMap<Key, BTreeSet<Pk>>`.

use serde_json::json;
use vcore::{Run, Tier};
use vindex::bt::{self, Bt, BtCfg, BtOp, Key, Origin};
use vindex::engine::{self, Explore, ExploreOut, HOp, Mode};

struct Job {
    key_type: &'static str,
    unique: bool,
    start: Origin,
    alphabet: Vec<HOp<BtOp>>,
    depth: usize,
    dedup: bool,
    /// share of the part's time budget
    share: f64,
}

fn run_job<K: Key>(run: &mut Run, job: &Job, deep_depth: usize, budget_s: f64) -> ExploreOut {
    let cfg = BtCfg {
        key_type: K::NAME.to_string(),
        unique: job.unique,
        bucket_overload_size: 64,
    };
    let (start, start_label) = bt::origin_start(job.start);
    let x = Explore::<Bt<K>> {
        cfg,
        start,
        start_label,
        alphabet: job.alphabet.clone(),
        max_depth: job.depth,
        dedup: job.dedup,
        mode: Mode::Hist,
        deep_depth,
        past_known: false,
    };
    engine::explore(run, "hist", &x, budget_s * 0.6, budget_s)
}

fn main() {
    let mut run = Run::from_args("C10", "hist", "model_checking");
    let deep_depth = run.tier.pick(2, 3);
    if let Some(file) = run.replay_file.clone() {
        let doc: serde_json::Value = match std::fs::read(&file).ok().and_then(|d| serde_json::from_slice(&d).ok()) {
            Some(d) => d,
            None => vcore::report::machinery("cannot read replay file"),
        };
        match doc["replay"]["cfg"]["key_type"].as_str() {
            Some("u64") => engine::replay::<Bt<u64>>(&mut run, "hist", &doc, || Mode::Hist, deep_depth),
            _ => engine::replay::<Bt<String>>(&mut run, "hist", &doc, || Mode::Hist, deep_depth),
        }
        run.finish();
    }

    let full = bt::alphabet(3, true, true);
    let medium = bt::alphabet(2, true, true);
    let small = bt::alphabet(2, true, false);
    let growth = bt::alphabet_growth();
    use Origin::*;
    let jobs: Vec<Job> = match run.tier {
        Tier::Quick => vec![
            // cross-check of the dedup key: everything to depth 2 without pruning
            Job { key_type: "String", unique: false, start: Fresh, alphabet: full.clone(), depth: 2, dedup: false, share: 0.05 },
            Job { key_type: "String", unique: false, start: Fresh, alphabet: full.clone(), depth: 3, dedup: true, share: 0.15 },
            Job { key_type: "String", unique: false, start: Fresh, alphabet: medium.clone(), depth: 4, dedup: true, share: 0.30 },
            Job { key_type: "String", unique: true, start: Fresh, alphabet: full.clone(), depth: 3, dedup: true, share: 0.10 },
            Job { key_type: "u64", unique: false, start: Fresh, alphabet: full.clone(), depth: 3, dedup: true, share: 0.15 },
            Job { key_type: "u64", unique: true, start: Fresh, alphabet: small.clone(), depth: 3, dedup: true, share: 0.05 },
            Job { key_type: "String", unique: false, start: Legacy(1), alphabet: small.clone(), depth: 2, dedup: true, share: 0.05 },
            Job { key_type: "String", unique: false, start: Legacy(2), alphabet: small.clone(), depth: 2, dedup: true, share: 0.05 },
            Job { key_type: "String", unique: false, start: Fresh, alphabet: growth.clone(), depth: 8, dedup: true, share: 0.05 },
            Job { key_type: "u64", unique: false, start: Fresh, alphabet: growth.clone(), depth: 8, dedup: true, share: 0.05 },
            // multi-bucket start states (ops of the prelude are not enumerated)
            Job { key_type: "String", unique: false, start: Prelude(0), alphabet: medium.clone(), depth: 3, dedup: true, share: 0.05 },
            Job { key_type: "String", unique: false, start: Prelude(1), alphabet: full.clone(), depth: 2, dedup: true, share: 0.05 },
            Job { key_type: "String", unique: false, start: Prelude(2), alphabet: full.clone(), depth: 2, dedup: true, share: 0.05 },
            Job { key_type: "u64", unique: false, start: Prelude(2), alphabet: full.clone(), depth: 2, dedup: true, share: 0.05 },
            Job { key_type: "String", unique: true, start: Prelude(3), alphabet: full.clone(), depth: 2, dedup: true, share: 0.05 },
            // hand-made legacy layouts with the leftovers the loader documents
            Job { key_type: "String", unique: false, start: Fabricated(0), alphabet: small.clone(), depth: 2, dedup: true, share: 0.03 },
            Job { key_type: "String", unique: false, start: Fabricated(1), alphabet: small.clone(), depth: 2, dedup: true, share: 0.03 },
            Job { key_type: "String", unique: false, start: Fabricated(2), alphabet: small.clone(), depth: 2, dedup: true, share: 0.03 },
            Job { key_type: "u64", unique: false, start: Fabricated(0), alphabet: small.clone(), depth: 2, dedup: true, share: 0.03 },
        ],
        Tier::Thorough => vec![
            Job { key_type: "String", unique: false, start: Fresh, alphabet: full.clone(), depth: 3, dedup: false, share: 0.05 },
            Job { key_type: "String", unique: false, start: Fresh, alphabet: full.clone(), depth: 8, dedup: true, share: 0.40 },
            Job { key_type: "String", unique: true, start: Fresh, alphabet: full.clone(), depth: 8, dedup: true, share: 0.15 },
            Job { key_type: "u64", unique: false, start: Fresh, alphabet: full.clone(), depth: 8, dedup: true, share: 0.15 },
            Job { key_type: "u64", unique: true, start: Fresh, alphabet: full.clone(), depth: 8, dedup: true, share: 0.07 },
            Job { key_type: "String", unique: false, start: Legacy(0), alphabet: full.clone(), depth: 4, dedup: true, share: 0.04 },
            Job { key_type: "String", unique: false, start: Legacy(1), alphabet: full.clone(), depth: 5, dedup: true, share: 0.07 },
            Job { key_type: "String", unique: false, start: Legacy(2), alphabet: full.clone(), depth: 5, dedup: true, share: 0.07 },
            Job { key_type: "String", unique: false, start: Fresh, alphabet: growth.clone(), depth: 12, dedup: true, share: 0.03 },
            Job { key_type: "u64", unique: false, start: Fresh, alphabet: growth.clone(), depth: 12, dedup: true, share: 0.03 },
            Job { key_type: "String", unique: false, start: Prelude(0), alphabet: full.clone(), depth: 5, dedup: true, share: 0.04 },
            Job { key_type: "String", unique: false, start: Prelude(2), alphabet: full.clone(), depth: 5, dedup: true, share: 0.04 },
            Job { key_type: "u64", unique: false, start: Prelude(2), alphabet: full.clone(), depth: 5, dedup: true, share: 0.03 },
            Job { key_type: "String", unique: true, start: Prelude(3), alphabet: full.clone(), depth: 5, dedup: true, share: 0.03 },
            Job { key_type: "String", unique: false, start: Fabricated(0), alphabet: full.clone(), depth: 4, dedup: true, share: 0.02 },
            Job { key_type: "String", unique: false, start: Fabricated(1), alphabet: full.clone(), depth: 4, dedup: true, share: 0.02 },
            Job { key_type: "String", unique: false, start: Fabricated(2), alphabet: full.clone(), depth: 4, dedup: true, share: 0.02 },
            Job { key_type: "u64", unique: false, start: Fabricated(0), alphabet: full.clone(), depth: 4, dedup: true, share: 0.02 },
        ],
    };

    let total = run.budget_s * 0.92;
    let mut outs = Vec::new();
    let mut carry = 0.0; // unused time of earlier jobs is handed on
    for job in &jobs {
        // quick: fixed bounds, the budget is only a cap -> every job may use what is left of the part's budget
        let budget = if run.tier == Tier::Quick { run.remaining_s() * 0.95 } else { total * job.share + carry };
        let t = run.elapsed();
        let out = match job.key_type {
            "u64" => run_job::<u64>(&mut run, job, deep_depth, budget),
            _ => run_job::<String>(&mut run, job, deep_depth, budget),
        };
        let used = run.elapsed() - t;
        carry = (budget - used).max(0.0);
        println!(
            "  [{}] dedup={} alphabet={} depth {}/{} states={} transitions={} dedup_hits={} model_states={} deep_checked={} evals={}+{} frontier={:?} {:.1}s",
            out.label, job.dedup, out.alphabet, out.completed_depth, out.requested_depth, out.states, out.transitions,
            out.dedup_hits, out.model_states, out.deep_states_checked, out.light_evals, out.deep_evals, out.frontier_sizes, used
        );
        if run.tier == Tier::Quick && out.completed_depth < out.requested_depth && out.violations == 0 {
            // quick bounds are fixed: not completing them is reported by cap_hit (done in explore)
        }
        outs.push(json!({"dedup": job.dedup, "out": out}));
    }
    if std::env::var("VINDEX_PROF").is_ok() {
        let p: Vec<f64> = engine::PROF.iter().map(|a| a.load(std::sync::atomic::Ordering::Relaxed) as f64 / 1e9).collect();
        println!("  profile (cpu s): start+ops {:.2}, live battery {:.2}, probe flush {:.2}, probe load+battery {:.2}, key {:.2}, crash {:.2}", p[0], p[1], p[2], p[3], p[4], p[5]);
    }
    run.set("runs", json!(outs));
    run.set(
        "nested_range_trees",
        json!({"trees": bt::nested_trees::<String>().len(), "key_sets_checked": bt::NESTED_KEYSETS.load(std::sync::atomic::Ordering::Relaxed)}),
    );
    run.set(
        "range_trees_per_state",
        json!({"String": bt::tree_count::<String>(deep_depth), "u64": bt::tree_count::<u64>(deep_depth), "depth": deep_depth}),
    );
    run.rule(
        "level-synchronous search over histories: every kept history x every op of the alphabet \
         {insert, remove (3 ids x 4 keys a,b,c,48-byte key), insert_array, remove_array (4 arrays incl. duplicate + empty), \
         batch_update (4 old/new pairs), compact_buckets, flush, flush+load_all}; plus a focused alphabet (grow/shrink the long \
         key's posting until it migrates) to depth 8/12 and start states in the legacy manifest-less layout; each candidate is \
         re-executed from scratch on a fresh real index (64-byte buckets); checked after the last op: return value / uniqueness \
         error vs model, light battery (len, is_empty, stats.num_elements, keys(None,None), query_with per key incl. absent keys, \
         three full scans and two top-level Include lists with a non-adjacent repeat, in both directions with and without early stop, one bounded page), then flush + load_all + the same \
         battery on the loaded index; dedup key = (model, committed model, public flags, canonical durable objects, canonical objects \
         written by the probe flush); distinct = distinct dedup keys other than the initial state | deep battery, once per distinct \
         model state on a re-executed representative history: keys(cursor, limit) for every cursor (incl. absent) x every limit, \
         prefix_query_with for 9 prefixes x every stop position (String keys), and every RangeQuery tree of the tier's battery \
         (quick: all trees to depth 2 over 21 leaves, plus the 54 leaves of the thorough set; thorough: all trees to depth 2 over 54 leaves \
         [Eq/Gt/Ge/Lt/Le over 7 constants, Between incl. inverted/point/absent, Include incl. empty / adjacent repeat / non-adjacent repeat in unsorted order ([b,a,b], [c,a,b,a]) / unsorted] and all trees \
         of depth 3 [Not, binary And, binary Or over every depth<=2 tree] over 9 leaves), each in both directions with the callback \
         stopping at every position",
    );
    run.rule(
        "multi-bucket start states (prelude ops executed, not enumerated): every key owned by ids 1 and 2, the long key and key a also \
         by id 3 (postings that can shrink without becoming empty) as inserted / flushed / shrunk after the flush + compacted + \
         flushed; a unique variant; from these depth 3 over 45 ops and depth 2 over all 65 ops (quick), so that flush -> remove_array / \
         batch_update that only shrinks postings -> flush + load, and compaction -> flush -> two further mutations -> flush + load are \
         inside the enumerated space | hand-made legacy manifest-less layouts (a real flush rewritten): the same key in two bucket \
         objects with different ids (the higher bucket is the newer state), an empty posting above an older copy, an empty posting \
         alone (tombstones); model = the two documented loader rules; from each depth 2 (quick) / 4 (thorough) incl. removing the \
         key, flush, load | nested range trees in the quick tier: 2018 trees of depth 3 (Not over every depth-2 composite of 5 \
         leaves; And/Or of composite x leaf in both operand orders; And/Or of negation x composite; ternary And with a nested \
         operand), both directions, callback stopping at every position, once per distinct KEY SET of each key type x uniqueness \
         (16 key sets each)",
    );
    run.assume("which keys a range tree selects is a function of the ordered key set only (range_keys / range_key_matches_query never read postings); the nested battery is therefore run per key set, the first model state that shows it supplies the postings");
    run.assume("range/prefix query evaluation reads only the key set and the postings (code reading: range_query_inner/range_keys), so the tree battery is run once per distinct model state, not once per history");
    run.assume("dedup key does not see in-memory bucket size estimates, dirty_version/posting version counters or posting id order; a no-dedup run to a smaller depth cross-checks it");
    run.assume("single-threaded histories only (thread interleavings are the `thread` part); flush never overlaps a mutation, as the crate documents");
    run.finish();
}

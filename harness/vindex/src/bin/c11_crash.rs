//! C11 / crash — every prefix and cut of the object writes of every flush
//! reachable by a bounded history of `BM25Index`, loaded and compared with the
//! last committed / the interrupted model state; plus one failed write at
//! every position followed by a retry.

use serde_json::json;
use vcore::{Run, Tier};
use vindex::engine::{self, CrashOpts, Explore, ExploreOut, HOp, Mode};
use vindex::tfs::{self, Origin, Tfs, TfsCfg, TfsOp};

struct Job {
    bucket: usize,
    start: Origin,
    alphabet: Vec<HOp<TfsOp>>,
    depth: usize,
    share: f64,
}

/// histories up to this depth get the mutation-during-flush enumeration (quick 2, thorough 3)
static MIDFLUSH_DEPTH: std::sync::atomic::AtomicUsize = std::sync::atomic::AtomicUsize::new(2);

fn mode() -> Mode<TfsOp> {
    Mode::Crash(CrashOpts {
        followups: vec![
            HOp::Do(TfsOp::Insert(4, 2)),
            HOp::Do(TfsOp::Insert(1, 1)),
            HOp::Do(TfsOp::RemoveOriginal(1)),
            HOp::Do(TfsOp::Purge(vec![2, 3])),
            HOp::Compact,
            // removal with a text that shares no term with any document: durable only through
            // the per-bucket document sets the loader rebuilt
            HOp::Do(TfsOp::RemoveWith(2, 4)),
        ],
        cuts: true,
        err_prefixes: true,
        // a new id sharing terms with buckets of the snapshot / removal of a document of the snapshot
        midflush: vec![TfsOp::Insert(4, 1), TfsOp::Insert(4, 2), TfsOp::RemoveOriginal(1), TfsOp::RemoveOriginal(2)],
        midflush_depth: MIDFLUSH_DEPTH.load(std::sync::atomic::Ordering::Relaxed),
    })
}

fn run_job(run: &mut Run, job: &Job, budget_s: f64) -> ExploreOut {
    let cfg = TfsCfg {
        bucket_overload_size: job.bucket,
    };
    let (start, start_label) = tfs::origin_start(job.start);
    let x = Explore::<Tfs> {
        cfg,
        start,
        start_label,
        alphabet: job.alphabet.clone(),
        max_depth: job.depth,
        dedup: true,
        mode: mode(),
        deep_depth: 0,
        past_known: true,
    };
    engine::explore(run, "crash", &x, budget_s, budget_s)
}

fn main() {
    let mut run = Run::from_args("C11", "crash", "model_checking");
    MIDFLUSH_DEPTH.store(run.tier.pick(2, 3), std::sync::atomic::Ordering::Relaxed);
    if let Some(file) = run.replay_file.clone() {
        let doc: serde_json::Value = match std::fs::read(&file).ok().and_then(|d| serde_json::from_slice(&d).ok()) {
            Some(d) => d,
            None => vcore::report::machinery("cannot read replay file"),
        };
        engine::replay::<Tfs>(&mut run, "crash", &doc, mode, 0);
        run.finish();
    }
    let full = tfs::alphabet(4, &[0, 1, 2, 3, 4, 5], &[0, 2, 5]);
    let small = tfs::alphabet(3, &[0, 1, 2, 3], &[0, 2]);
    let focus = tfs::alphabet(3, &[0, 1, 4], &[0, 2, 4]);
    use Origin::*;
    let jobs: Vec<Job> = match run.tier {
        Tier::Quick => vec![
            Job { bucket: 32, start: Fresh, alphabet: full.clone(), depth: 2, share: 0.30 },
            Job { bucket: 32, start: Fresh, alphabet: small.clone(), depth: 3, share: 0.50 },
            Job { bucket: 32, start: Legacy(0), alphabet: small.clone(), depth: 2, share: 0.15 },
            Job { bucket: 40, start: Prelude(0), alphabet: focus.clone(), depth: 2, share: 0.15 },
        ],
        Tier::Thorough => vec![
            Job { bucket: 32, start: Fresh, alphabet: full.clone(), depth: 7, share: 0.40 },
            Job { bucket: 20, start: Fresh, alphabet: full.clone(), depth: 7, share: 0.15 },
            Job { bucket: 512 * 1024, start: Fresh, alphabet: full.clone(), depth: 7, share: 0.10 },
            Job { bucket: 32, start: Legacy(0), alphabet: full.clone(), depth: 4, share: 0.10 },
            Job { bucket: 40, start: Prelude(0), alphabet: full.clone(), depth: 5, share: 0.10 },
            Job { bucket: 64, start: Prelude(3), alphabet: full.clone(), depth: 5, share: 0.10 },
        ],
    };
    let total = run.budget_s * 0.95;
    let mut outs = Vec::new();
    let mut carry = 0.0;
    for job in &jobs {
        // quick: fixed bounds, the budget is only a cap
        let budget = if run.tier == Tier::Quick { run.remaining_s() * 0.95 } else { total * job.share + carry };
        let t = run.elapsed();
        let out = run_job(&mut run, job, budget);
        let used = run.elapsed() - t;
        carry = (budget - used).max(0.0);
        println!(
            "  [{}] alphabet={} depth {}/{} states={} transitions={} dedup_hits={} evals={} frontier={:?} {:.1}s",
            out.label, out.alphabet, out.completed_depth, out.requested_depth, out.states, out.transitions, out.dedup_hits,
            out.light_evals, out.frontier_sizes, used
        );
        outs.push(json!(out));
    }
    run.set("runs", json!(outs));
    run.rule(
        "histories as in the hist part; for the flush of EVERY candidate history (first flush, incremental flush, flush after \
         compact_buckets, flush after load_all, flush of a loaded legacy manifest-less layout) the object writes are journalled \
         through the flush_with closures in issue order (bucket puts ascending by bucket id, awaited one by one; metadata put = \
         commit; then deletion of FlushOutcome::obsolete). Crash states: every linear prefix, every subset of the bucket puts \
         without the commit, commit + every subset of the deletions; each is loaded with load_all and must answer the light \
         battery (counters, every term, 6 boolean shapes) as the last committed model or as the interrupted flush's \
         model (whole); from each distinct crash state 5 follow-up ops (insert new id, re-insert id 1, remove, purge_ids, compact) \
         each followed by flush + load + battery; a sixth follow-up removes document 2 with a text that shares no term with any document. \
         Additional start state: three documents over >= 2 buckets (bucket_overload_size 40), depth 2; histories that fail with the \
         recorded finding C11/stale-posting-of-reinserted-id are kept and checked against the reference adjusted by exactly that \
         finding (see hist). Every write position is also failed once: flush must return Err, live index \
         unchanged, durable state = last commit or the failed flush in full, a retried flush persists the state. \
         Mutation during a flush (histories to depth 2 quick / 3 thorough): at every write position one mutation from a small set is \
         applied from INSIDE the flush write closure (the flush is suspended in its I/O); the disturbed flush must commit the \
         pre-mutation snapshot whole, the live index has the mutation, and the next undisturbed flush + load has it too",
    );
    run.assume("a crash loses exactly the writes not yet acknowledged by the flush closures; object puts/deletes are atomic per object");
    run.assume("legacy start state fabricated from a real flush (manifest stripped, objects renamed to generation 0)");
    run.assume("dedup key does not see in-memory bucket size estimates or version counters");
    run.finish();
}

//! C11 / hist — explicit-state search over operation histories of `BM25Index`
//! (default tokenizer, tiny buckets) against a naive inverted index.

use serde_json::json;
use vcore::{Run, Tier};
use vindex::engine::{self, Explore, ExploreOut, HOp, Mode};
use vindex::tfs::{self, Origin, Tfs, TfsCfg, TfsOp};

struct Job {
    bucket: usize,
    start: Origin,
    alphabet: Vec<HOp<TfsOp>>,
    depth: usize,
    dedup: bool,
    share: f64,
}

fn run_job(run: &mut Run, job: &Job, deep_depth: usize, budget_s: f64) -> ExploreOut {
    let cfg = TfsCfg {
        bucket_overload_size: job.bucket,
    };
    let (start, start_label) = tfs::origin_start(job.start);
    let x = Explore::<Tfs> {
        cfg,
        start,
        start_label,
        alphabet: job.alphabet.clone(),
        max_depth: job.depth,
        dedup: job.dedup,
        mode: Mode::Hist,
        deep_depth,
        past_known: true,
    };
    engine::explore(run, "hist", &x, budget_s * 0.6, budget_s)
}

/// Fixed scenario: repeated identical 4-word plain query on one index instance.
fn scenario(run: &mut Run) {
    let (evals, found) = tfs::multiword_repeat_scenario(512);
    run.add("evaluations", evals);
    run.add("traces_validated_against_impl", 1);
    if let Some((summary, replay)) = found {
        println!("scenario: {summary}");
        run.violation(vcore::Violation {
            signature: tfs::SIG_HASH_ORDER.to_string(),
            summary,
            replay,
        });
    }
}

/// Large-corpus phase (NOT-complement guard at 10 000 / 10 001 documents): counters and violations.
fn large_report(run: &mut Run, out: tfs::LargeOut, cpu_s: f64) {
    run.add("evaluations", out.evaluations);
    run.add("large_corpus_tree_checks", out.trees);
    run.add("traces_validated_against_impl", 1);
    println!(
        "  [large-corpus] documents 10000 then 10001: tree checks={} answered={} refused={} operand-order classes={} evals={} failures={} {:.1}s (own thread)",
        out.trees, out.answered, out.refused, out.order_classes, out.evaluations, out.failures.len(), cpu_s
    );
    run.set(
        "large_corpus",
        json!({"tree_checks": out.trees, "answered": out.answered, "refused_by_not_complement_guard": out.refused,
               "operand_order_classes": out.order_classes, "seconds_on_own_thread": (cpu_s * 10.0).round() / 10.0}),
    );
    // one violation per failure class (the first case of each)
    let mut seen = std::collections::BTreeSet::new();
    for (kind, summary, replay) in out.failures {
        if seen.insert(kind.clone()) {
            println!("large-corpus: {summary}");
            run.violation(vcore::Violation { signature: format!("C11/hist/{kind}"), summary, replay });
        }
    }
}

fn timed_large(only: Option<(usize, String)>) -> (tfs::LargeOut, f64) {
    let t = std::time::Instant::now();
    let out = tfs::large_corpus_scenario(only);
    (out, t.elapsed().as_secs_f64())
}

fn main() {
    let mut run = Run::from_args("C11", "hist", "model_checking");
    let deep_depth = run.tier.pick(2, 3);
    if let Some(file) = run.replay_file.clone() {
        let doc: serde_json::Value = match std::fs::read(&file).ok().and_then(|d| serde_json::from_slice(&d).ok()) {
            Some(d) => d,
            None => vcore::report::machinery("cannot read replay file"),
        };
        if doc["replay"]["scenario"].as_str() == Some("multiword-repeat") {
            scenario(&mut run);
        } else if doc["replay"]["scenario"].as_str() == Some("large-corpus") {
            let only = doc["replay"]["query"]
                .as_str()
                .map(|q| (doc["replay"]["docs"].as_u64().unwrap_or(0) as usize, q.to_string()));
            let (out, s) = timed_large(only);
            large_report(&mut run, out, s);
        } else {
            engine::replay::<Tfs>(&mut run, "hist", &doc, || Mode::Hist, deep_depth);
        }
        run.finish();
    }

    let full = tfs::alphabet(4, &[0, 1, 2, 3, 4, 5], &[0, 2, 5]);
    let small = tfs::alphabet(3, &[0, 1, 2, 3], &[0, 2]);
    // for the multi-bucket start states: every id of the prelude x {texts of the prelude + a
    // disjoint one} as re-insert and as non-original removal text
    let wide = tfs::alphabet(4, &[0, 1, 2, 3, 4, 5], &[0, 1, 2, 4, 5]);
    let focus = tfs::alphabet(3, &[0, 1, 4], &[0, 2, 4]);
    use Origin::*;
    let jobs: Vec<Job> = match run.tier {
        Tier::Quick => vec![
            Job { bucket: 32, start: Fresh, alphabet: small.clone(), depth: 2, dedup: false, share: 0.05 },
            Job { bucket: 32, start: Fresh, alphabet: full.clone(), depth: 3, dedup: true, share: 0.45 },
            Job { bucket: 32, start: Fresh, alphabet: small.clone(), depth: 4, dedup: true, share: 0.35 },
            Job { bucket: 32, start: Legacy(0), alphabet: small.clone(), depth: 2, dedup: true, share: 0.10 },
            Job { bucket: 40, start: Prelude(0), alphabet: focus.clone(), depth: 4, dedup: true, share: 0.10 },
            Job { bucket: 64, start: Prelude(0), alphabet: wide.clone(), depth: 3, dedup: true, share: 0.10 },
            Job { bucket: 40, start: Prelude(2), alphabet: wide.clone(), depth: 2, dedup: true, share: 0.10 },
            Job { bucket: 64, start: Prelude(3), alphabet: wide.clone(), depth: 2, dedup: true, share: 0.10 },
        ],
        Tier::Thorough => vec![
            Job { bucket: 32, start: Fresh, alphabet: full.clone(), depth: 3, dedup: false, share: 0.08 },
            Job { bucket: 32, start: Fresh, alphabet: full.clone(), depth: 8, dedup: true, share: 0.35 },
            Job { bucket: 20, start: Fresh, alphabet: full.clone(), depth: 8, dedup: true, share: 0.12 },
            Job { bucket: 512 * 1024, start: Fresh, alphabet: full.clone(), depth: 8, dedup: true, share: 0.08 },
            Job { bucket: 32, start: Legacy(0), alphabet: full.clone(), depth: 5, dedup: true, share: 0.07 },
            Job { bucket: 40, start: Prelude(0), alphabet: wide.clone(), depth: 6, dedup: true, share: 0.10 },
            Job { bucket: 64, start: Prelude(0), alphabet: wide.clone(), depth: 6, dedup: true, share: 0.08 },
            Job { bucket: 40, start: Prelude(2), alphabet: wide.clone(), depth: 5, dedup: true, share: 0.06 },
            Job { bucket: 64, start: Prelude(3), alphabet: wide.clone(), depth: 5, dedup: true, share: 0.06 },
        ],
    };
    scenario(&mut run);
    // own phase on its own thread, next to the history search; joined before the report
    let large = std::thread::spawn(|| timed_large(None));
    let total = run.budget_s * 0.92;
    let mut outs = Vec::new();
    let mut carry = 0.0;
    for job in &jobs {
        // quick: fixed bounds, the budget is only a cap -> every job may use what is left of the part's budget
        let budget = if run.tier == Tier::Quick { run.remaining_s() * 0.95 } else { total * job.share + carry };
        let t = run.elapsed();
        let out = run_job(&mut run, job, deep_depth, budget);
        let used = run.elapsed() - t;
        carry = (budget - used).max(0.0);
        println!(
            "  [{}] dedup={} alphabet={} depth {}/{} states={} transitions={} dedup_hits={} model_states={} deep_checked={} evals={}+{} frontier={:?} {:.1}s",
            out.label, job.dedup, out.alphabet, out.completed_depth, out.requested_depth, out.states, out.transitions,
            out.dedup_hits, out.model_states, out.deep_states_checked, out.light_evals, out.deep_evals, out.frontier_sizes, used
        );
        outs.push(json!({"dedup": job.dedup, "out": out}));
    }
    if std::env::var("VINDEX_PROF").is_ok() {
        let p: Vec<f64> = engine::PROF.iter().map(|a| a.load(std::sync::atomic::Ordering::Relaxed) as f64 / 1e9).collect();
        println!("  profile (s): start+ops {:.2}, live battery {:.2}, probe flush {:.2}, probe load+battery {:.2}, key {:.2}, crash {:.2}", p[0], p[1], p[2], p[3], p[4], p[5]);
    }
    match large.join() {
        Ok((out, s)) => large_report(&mut run, out, s),
        Err(_) => vcore::report::machinery("large-corpus phase panicked"),
    }
    run.set("runs", json!(outs));
    run.set(
        "boolean_trees_per_state",
        json!({"depth": deep_depth, "trees": tfs::tree_count(deep_depth), "parameter_sets": tfs::params_list().len()}),
    );
    run.rule(
        "level-synchronous search over histories: every kept history x every op of the alphabet {insert(id, text) for ids 1..4 and 6 \
         texts of 1-3 tokens over {alpha,beta,gamma,delta} incl. repeats (so: re-insert of a removed id, insert of a live id = \
         AlreadyExists, a text without tokens = TokenizeFailed), remove(id, original text), remove(id, one of 3 other texts), \
         purge_ids (5 sets incl. empty and absent), compact_buckets, flush, flush+load_all}; each candidate is re-executed from \
         scratch on a fresh real index (bucket_overload_size 32: two tokens per bucket; thorough also 20 and the 512 KiB default); \
         checked after the last op: return value vs model, light battery (len, get_doc_tokens per id, stats num_elements and \
         avg_doc_tokens bit-exact, search() for every term incl. an absent one + a 3-word query, 6 boolean shapes via \
         try_search_advanced: id set = set algebra over the naive inverted index, scores finite and >= 0, order (score desc, id asc)), \
         then flush + load_all + the same battery; dedup key = (model incl. the stale posting entries the remove contract allows, \
         committed model, public flags, canonical durable objects, canonical objects written by the probe flush) | deep battery, once \
         per distinct model state (discovery order) on a re-executed representative history: every 1-/2-word search and every \
         boolean tree to the tier's depth (quick 2: 70 trees; thorough 3: Not / binary And / binary Or over all depth<=2 trees), each \
         with the identical-repeat check and top-k = prefix of the full list for k in 0..n+1; 12 BM25 parameter sets (default, k1=0, \
         b=0, b=1, NaN, +-inf, negative, f32::MAX) over terms + 6 shapes (quick) / every depth<=2 tree (thorough); 3- and 4-word \
         searches repeated 8 times",
    );
    run.rule(
        "multi-bucket start states (ops of the prelude are executed, not enumerated): three documents over the whole vocabulary \
         inserted so that the four terms lie in >= 2 buckets (bucket_overload_size 40: two terms per bucket, 64: three), as inserted / \
         compacted + flushed / fragmented by a document that came and went, then compacted + flushed; from these the same level-by-level \
         search (quick: depth 4 over 30 ops, depth 3 and 2 over 57 ops incl. 5 non-original removal texts per id, one of them sharing \
         no term with any document), so that compact -> flush -> remove(id, non-original text) -> flush + load and \
         compacted+flushed -> two further mutations -> flush + load are inside the enumerated space",
    );
    run.rule(
        "search behind the recorded finding C11/stale-posting-of-reinserted-id: a history that fails with exactly that class is \
         evaluated once more against the adjusted reference (a LIVE document additionally contains the terms of the posting entries \
         its earlier removal with non-original text left behind; counters, lengths and documents that are not live unchanged) and, \
         when that agrees, is kept in the frontier; its extensions are checked against the adjusted reference (signature prefix \
         past-known:). Counter states_behind_recorded_findings = states kept that way",
    );
    run.rule(
        "ranking differential, in the light battery of EVERY state (live and after flush + load_all, also in the crash part) and in the \
         deep battery: the full list of every term search and every boolean shape (deep: every 1-/2-word search and every depth<=2 \
         tree) must be the list a FRESH index returns that got the model's current documents by plain inserts: same ids, same order, \
         scores equal within a relative 1e-5 (N, document lengths and average length of both are equal, checked bit-exactly before); \
         skipped for exactly the queries that mention a token of which a live document has a stale posting entry although its text \
         does not contain it (recorded finding C11/stale-posting-of-reinserted-id)",
    );
    run.rule(
        "large-corpus phase (one index, default configuration, built once: 10 000 documents whose texts cycle through the 6 texts, \
         then document 10 001): every tree of a battery of 10 literals {term, NOT term}, AND/OR of every ordered pair of literals, \
         AND/OR of 3 term triples x 6 operand orders x 8 negation masks, (NOT a AND b) one level down under OR / AND / NOT in both \
         operand orders, through try_search_advanced AND search_advanced with k = n+1: the answer is the model's set algebra with \
         finite scores >= 0 in (score desc, id asc) order, or - only above 10 000 documents, only with the NOT-complement message, \
         only when the tree needs the complement of a NOT as a set of its own (a NOT alone, under OR, or in an AND of NOTs only; \
         defined without regard to operand order) - a refusal, which search_advanced turns into the empty list; trees that differ \
         in operand order only are all refused or all answered",
    );
    run.assume("the model tokenizes with the crate's own collect_tokens(default_tokenizer()), as the property prescribes; the tokenizer itself is trusted");
    run.assume("scoring is a function of postings, doc_tokens and total_tokens; the deep battery therefore runs once per distinct model state (model state includes the stale posting entries allowed by remove-with-non-original-text)");
    run.rule("fixed scenario (6 documents, one 4-word plain query repeated 512 times on one index instance): every repeat bit-identical");
    run.assume("the order in which score_term adds per-token scores comes from a randomly seeded std HashMap; a repeat difference is therefore found with probability 1 - 0.8^512 per run, not with certainty");
    run.assume("dedup key does not see in-memory bucket size estimates or version counters; a no-dedup run to a smaller depth cross-checks it");
    run.finish();
}

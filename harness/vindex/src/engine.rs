//! HIST and CRASH drivers, generic over the index under test.
//!
//! HIST: a state *is* its operation history. Level d+1 is built by
//! re-executing `history + [op]` from scratch on a fresh real index for every
//! history kept at level d and every op of the alphabet. After the last op
//! the light battery compares the live index with the reference model, then a
//! "probe" (flush into the object map, `load` from it, light battery on the
//! loaded index) is run. Only after both agree is the candidate compared with
//! the set of seen dedup keys; a key is (model state, committed model state,
//! public flags, canonical content of the durable objects before the probe,
//! canonical content of the objects the probe flush wrote). Bucket size
//! estimates and version counters are NOT part of the key (stated in the
//! evidence as an assumption).
//!
//! The deep battery (large query-tree enumeration) is a deterministic function
//! of the observable content, so it is run once per distinct model state, on a
//! re-executed representative history (the first one found, BFS order).
//!
//! CRASH: for the probe flush of every kept state the journal of object
//! writes (bucket puts in the order the flush issues them, the metadata put =
//! commit, then the deletions of `FlushOutcome::obsolete`) is captured. Crash
//! states = every linear prefix, plus every subset of the bucket puts without
//! the commit, plus commit + every subset of the deletions (the cuts that
//! concurrent issue of each phase would allow). Each crash state is loaded and
//! must answer the light battery exactly as the last committed model or as the
//! interrupted flush's model; then one follow-up op + flush + load is run from
//! it. Additionally every write position is failed once (writer returns an
//! error): the flush must report the error, the live index must be unchanged,
//! the object map must still load as the last commit, and a retried flush must
//! persist the current state.

use serde::{Deserialize, Serialize, de::DeserializeOwned};
use serde_json::{Value, json};
use std::collections::{BTreeMap, HashSet};
use std::fmt::Debug;
use std::panic::{AssertUnwindSafe, catch_unwind};
use std::sync::atomic::{AtomicBool, Ordering};
use std::time::Instant;
use vcore::{Run, Violation, util};

#[derive(Clone, Copy, Debug, PartialEq, Eq, PartialOrd, Ord, Hash)]
pub enum ObjKey {
    Meta,
    /// (bucket id, generation)
    Bucket(u32, u64),
}

#[derive(Clone, Debug)]
pub enum JEntry {
    Put(ObjKey, Vec<u8>),
    Del(ObjKey),
}

pub type Store = BTreeMap<ObjKey, Vec<u8>>;

pub fn apply_entry(store: &mut Store, e: &JEntry) {
    match e {
        JEntry::Put(k, d) => {
            store.insert(*k, d.clone());
        }
        JEntry::Del(k) => {
            store.remove(k);
        }
    }
}

fn entry_label(e: &JEntry) -> String {
    match e {
        JEntry::Put(ObjKey::Meta, d) => format!("put meta ({}B)", d.len()),
        JEntry::Put(ObjKey::Bucket(b, g), d) => format!("put bucket {b}@{g} ({}B)", d.len()),
        JEntry::Del(ObjKey::Bucket(b, g)) => format!("del bucket {b}@{g}"),
        JEntry::Del(ObjKey::Meta) => "del meta".to_string(),
    }
}

/// A failed comparison (or a panic / unexpected error of the code under test).
#[derive(Clone, Debug)]
pub struct Fail {
    /// Stable class of the failing check; becomes part of the signature.
    pub kind: String,
    /// Volatile description (values), goes to the summary only.
    pub detail: String,
}

impl Fail {
    pub fn new(kind: impl Into<String>, detail: impl Into<String>) -> Fail {
        Fail {
            kind: kind.into(),
            detail: detail.into(),
        }
    }
    fn prefixed(self, p: &str) -> Fail {
        Fail {
            kind: format!("{p}{}", self.kind),
            detail: self.detail,
        }
    }
}

/// Runs code of the index under test; a panic becomes a `Fail`.
pub fn guard<T>(what: &str, f: impl FnOnce() -> Result<T, Fail>) -> Result<T, Fail> {
    match catch_unwind(AssertUnwindSafe(f)) {
        Ok(r) => r,
        Err(p) => {
            let msg = p
                .downcast_ref::<String>()
                .cloned()
                .or_else(|| p.downcast_ref::<&str>().map(|s| s.to_string()))
                .unwrap_or_else(|| "non-string panic".into());
            Err(Fail::new(format!("panic:{what}"), msg))
        }
    }
}

/// History-level operation: an index mutation or one of the engine ops.
#[derive(Clone, Debug, PartialEq, Eq, Serialize, Deserialize)]
pub enum HOp<O> {
    Do(O),
    Compact,
    Flush,
    /// flush, then replace the live index by `load` of the object map
    FlushLoad,
}

/// Where a history starts.
#[derive(Clone, Debug, PartialEq, Eq, Serialize, Deserialize)]
pub enum Start<O> {
    /// fresh index + creation flush (metadata object only), as the production adapter does
    Fresh,
    /// run `seed` on a fresh index, flush, rewrite the object map into the
    /// pre-manifest layout (no manifest, un-suffixed generation-0 objects),
    /// and start from `load` of that.
    Legacy(Vec<HOp<O>>),
    /// fresh index + creation flush, then the given ops (mutations, compact,
    /// flush, flush+load) are executed without being enumerated or checked
    /// beyond their return values: a start state that already has several
    /// non-trivial buckets / a compacted and flushed layout.
    Prelude(Vec<HOp<O>>),
    /// run `seed` on a fresh index, flush, let `Sut::fabricate(recipe)` rewrite
    /// the object map into a hand-made durable layout (one that an older
    /// release or an interrupted in-place flush of it can have left behind),
    /// and start from `load` of that; the model is what the documented loader
    /// rules give for the layout.
    Fabricated { seed: Vec<HOp<O>>, recipe: String },
}

pub struct FlushOut {
    /// object puts that landed, in issue order
    pub puts: Vec<JEntry>,
    /// Ok(obsolete objects) or the error the flush returned
    pub result: Result<Vec<ObjKey>, String>,
}

pub trait Sut: 'static {
    const PROP: &'static str;
    type Cfg: Clone + Send + Sync + Debug + Serialize + DeserializeOwned;
    type Op: Clone + Send + Sync + Debug + PartialEq + Serialize + DeserializeOwned;
    type Model: Clone + Send + Sync + Debug + Default + PartialEq;
    type Index;

    fn cfg_label(cfg: &Self::Cfg) -> String;
    fn op_kind(op: &Self::Op) -> String;
    fn new_index(cfg: &Self::Cfg) -> Self::Index;
    /// Applies `op` to the real index and to the model and compares the
    /// return value / error with the model's.
    fn apply(
        idx: &Self::Index,
        cfg: &Self::Cfg,
        op: &Self::Op,
        model: &mut Self::Model,
        now: u64,
    ) -> Result<(), Fail>;
    fn compact(idx: &Self::Index);
    /// One flush; every object write is recorded. `fail_at = Some(k)`: the
    /// k-th write (0-based, bucket puts then the metadata put) returns an error
    /// instead of landing.
    /// `hook = Some((k, f))`: `f` is called from INSIDE the write closure of
    /// the k-th write, before that write lands (a mutation that arrives while
    /// the flush is awaiting its I/O).
    fn flush(idx: &Self::Index, now: u64, fail_at: Option<usize>, hook: Option<(usize, &dyn Fn())>) -> FlushOut;
    fn load(cfg: &Self::Cfg, store: &Store) -> Result<Self::Index, String>;
    /// Model adjustment when the live index is replaced by a loaded one.
    fn on_load(_model: &mut Self::Model) {}
    fn light_battery(
        idx: &Self::Index,
        cfg: &Self::Cfg,
        model: &Self::Model,
        evals: &mut u64,
    ) -> Result<(), Fail>;
    fn deep_battery(
        idx: &Self::Index,
        cfg: &Self::Cfg,
        model: &Self::Model,
        depth: usize,
        evals: &mut u64,
    ) -> Result<(), Fail>;
    /// Canonical string of the model state (dedup + representative selection).
    fn model_key(model: &Self::Model) -> String;
    /// Public flags of the live index that are hidden from the model.
    fn flags(idx: &Self::Index) -> String;
    /// Canonical content of a bucket payload (versions masked, maps sorted).
    fn canon_bucket(cfg: &Self::Cfg, data: &[u8]) -> String;
    /// Failure classes that are one defect irrespective of configuration,
    /// start state and last op get one canonical signature.
    fn canonical_signature(_kind: &str) -> Option<String> {
        None
    }
    /// Rewrites a manifest-format object map into the legacy layout.
    fn to_legacy(_cfg: &Self::Cfg, _store: &Store) -> Option<Store> {
        None
    }
    /// Hand-made durable layout `recipe` derived from a real flushed object
    /// map; returns the new object map and the contents the documented loader
    /// rules give for it.
    fn fabricate(_cfg: &Self::Cfg, _store: &Store, _model: &Self::Model, _recipe: &str) -> Option<(Store, Self::Model)> {
        None
    }
    /// `true` for the failure class of a RECORDED finding whose effect on the
    /// observable answers is exactly describable (see `set_lenient`). A
    /// history failing with it is then re-evaluated against the adjusted
    /// reference and, when that agrees, kept in the search, so that the states
    /// behind a recorded finding are explored too.
    fn lenient_for(_kind: &str) -> bool {
        false
    }
    /// Switches the model to the reference that includes the recorded
    /// finding's effect (and nothing else).
    fn set_lenient(_model: &mut Self::Model) {}
}

pub struct Live<S: Sut> {
    pub idx: S::Index,
    pub store: Store,
    pub model: S::Model,
    /// model state of the last committed flush
    pub committed: S::Model,
    pub now: u64,
}

pub struct FlushRec {
    pub pre_store: Store,
    /// puts (in order) followed by the deletions of the obsolete objects
    pub journal: Vec<JEntry>,
    pub n_puts: usize,
    pub committed: bool,
}

fn do_flush<S: Sut>(live: &mut Live<S>, fail_at: Option<usize>) -> Result<FlushRec, (FlushRec, String)> {
    live.now += 1;
    let pre_store = live.store.clone();
    let now = live.now;
    let out = match catch_unwind(AssertUnwindSafe(|| S::flush(&live.idx, now, fail_at, None))) {
        Ok(o) => o,
        Err(_) => FlushOut {
            puts: vec![],
            result: Err("panic inside flush".into()),
        },
    };
    let n_puts = out.puts.len();
    let mut journal = out.puts;
    for e in &journal {
        apply_entry(&mut live.store, e);
    }
    let committed = journal.iter().any(|e| matches!(e, JEntry::Put(ObjKey::Meta, _)));
    match out.result {
        Ok(obsolete) => {
            for k in obsolete {
                let e = JEntry::Del(k);
                apply_entry(&mut live.store, &e);
                journal.push(e);
            }
            if committed {
                live.committed = live.model.clone();
            }
            Ok(FlushRec {
                pre_store,
                journal,
                n_puts,
                committed,
            })
        }
        Err(e) => Err((
            FlushRec {
                pre_store,
                journal,
                n_puts,
                committed,
            },
            e,
        )),
    }
}

pub fn start_live<S: Sut>(cfg: &S::Cfg, start: &Start<S::Op>, lenient: bool) -> Result<Live<S>, Fail> {
    let idx = S::new_index(cfg);
    let mut model = S::Model::default();
    if lenient {
        S::set_lenient(&mut model);
    }
    let mut live = Live::<S> {
        idx,
        store: Store::new(),
        committed: model.clone(),
        model,
        now: 1000,
    };
    // creation flush: writes the metadata object of the empty index
    do_flush(&mut live, None).map_err(|(_, e)| Fail::new("create:flush-error", e))?;
    if let Start::Legacy(seed) = start {
        for op in seed {
            step(&mut live, cfg, op)?;
        }
        do_flush(&mut live, None).map_err(|(_, e)| Fail::new("legacy-seed:flush-error", e))?;
        let legacy = S::to_legacy(cfg, &live.store)
            .ok_or_else(|| Fail::new("machinery:legacy-conversion", "to_legacy returned None"))?;
        live.store = legacy;
        let store = live.store.clone();
        live.idx = guard("load", || {
            S::load(cfg, &store).map_err(|e| Fail::new("legacy:load-failed", e))
        })?;
        S::on_load(&mut live.model);
        live.committed = live.model.clone();
    }
    if let Start::Fabricated { seed, recipe } = start {
        for op in seed {
            step(&mut live, cfg, op)?;
        }
        do_flush(&mut live, None).map_err(|(_, e)| Fail::new("fabricated-seed:flush-error", e))?;
        let (store, model) = S::fabricate(cfg, &live.store, &live.model, recipe)
            .ok_or_else(|| Fail::new("machinery:fabricate", format!("recipe {recipe:?} not applicable to the seed's layout")))?;
        live.store = store;
        live.model = model;
        let store = live.store.clone();
        live.idx = guard("load", || {
            S::load(cfg, &store).map_err(|e| Fail::new("fabricated:load-failed", e))
        })?;
        S::on_load(&mut live.model);
        live.committed = live.model.clone();
    }
    if let Start::Prelude(ops) = start {
        for op in ops {
            step(&mut live, cfg, op).map_err(|f| f.prefixed("prelude:"))?;
        }
    }
    Ok(live)
}

pub fn step<S: Sut>(live: &mut Live<S>, cfg: &S::Cfg, op: &HOp<S::Op>) -> Result<(), Fail> {
    match op {
        HOp::Do(o) => {
            live.now += 1;
            let now = live.now;
            let (idx, model) = (&live.idx, &mut live.model);
            guard("op", || S::apply(idx, cfg, o, model, now))
        }
        HOp::Compact => {
            let idx = &live.idx;
            guard("compact", || {
                S::compact(idx);
                Ok(())
            })
        }
        HOp::Flush => do_flush(live, None)
            .map(|_| ())
            .map_err(|(_, e)| Fail::new("flush-error", e)),
        HOp::FlushLoad => {
            do_flush(live, None).map_err(|(_, e)| Fail::new("flush-error", e))?;
            let store = &live.store;
            let idx = guard("load", || {
                S::load(cfg, store).map_err(|e| Fail::new("load-failed", e))
            })?;
            live.idx = idx;
            S::on_load(&mut live.model);
            Ok(())
        }
    }
}

pub fn hop_kind<S: Sut>(op: &HOp<S::Op>) -> String {
    match op {
        HOp::Do(o) => S::op_kind(o),
        HOp::Compact => "compact".into(),
        HOp::Flush => "flush".into(),
        HOp::FlushLoad => "flush+load".into(),
    }
}

#[derive(Clone, Debug, Default)]
pub struct CrashTally {
    pub flushes_with_writes: u64,
    pub prefixes: u64,
    pub cuts: u64,
    pub crash_states_loaded: u64,
    pub matched_old: u64,
    pub matched_new: u64,
    pub followups: u64,
    pub err_prefixes: u64,
    pub midflush: u64,
    pub max_journal_len: u64,
}

impl CrashTally {
    fn merge(&mut self, o: &CrashTally) {
        self.flushes_with_writes += o.flushes_with_writes;
        self.prefixes += o.prefixes;
        self.cuts += o.cuts;
        self.crash_states_loaded += o.crash_states_loaded;
        self.matched_old += o.matched_old;
        self.matched_new += o.matched_new;
        self.followups += o.followups;
        self.err_prefixes += o.err_prefixes;
        self.midflush += o.midflush;
        self.max_journal_len = self.max_journal_len.max(o.max_journal_len);
    }
}

pub struct CrashOpts<O> {
    /// ops tried (one at a time) after loading each crash state
    pub followups: Vec<HOp<O>>,
    /// also enumerate subsets of each phase (not only linear prefixes)
    pub cuts: bool,
    /// also fail every write position once and retry
    pub err_prefixes: bool,
    /// mutations performed (one at a time) from inside the write closure at
    /// every write position of the flush, for histories up to `midflush_depth`
    pub midflush: Vec<O>,
    pub midflush_depth: usize,
}

pub enum Mode<O> {
    Hist,
    Crash(CrashOpts<O>),
}

pub struct Cand {
    pub fail: Option<Fail>,
    pub key: (u64, u64),
    pub model_key: String,
    pub evals: u64,
    pub journal: Vec<String>,
    pub crash: CrashTally,
    pub execs: u64,
    /// set when the strict evaluation failed with a `lenient_for` class: the
    /// same history evaluated against the adjusted reference
    pub retry: Option<Box<Cand>>,
}

fn two_hashes(s: &str) -> (u64, u64) {
    let a = util::fnv64(s.as_bytes());
    let mut salted = Vec::with_capacity(s.len() + 8);
    salted.extend_from_slice(b"\x9e\x37salt");
    salted.extend_from_slice(s.as_bytes());
    salted.reverse();
    (a, util::fnv64(&salted))
}

fn canon_store<S: Sut>(cfg: &S::Cfg, store: &Store) -> String {
    let mut out = String::new();
    for (k, d) in store {
        if let ObjKey::Bucket(b, _) = k {
            out.push_str(&format!("[{b}:{}]", S::canon_bucket(cfg, d)));
        }
    }
    out
}

/// Executes `hist` from `start`; checks are applied to the LAST step only
/// (earlier steps were checked when they were candidates themselves).
pub fn eval_candidate<S: Sut>(
    cfg: &S::Cfg,
    start: &Start<S::Op>,
    hist: &[&HOp<S::Op>],
    mode: &Mode<S::Op>,
    lenient: bool,
) -> Cand {
    let mut c = Cand {
        fail: None,
        key: (0, 0),
        model_key: String::new(),
        evals: 0,
        journal: vec![],
        crash: CrashTally::default(),
        execs: 1,
        retry: None,
    };
    match eval_inner::<S>(cfg, start, hist, mode, lenient, &mut c) {
        Ok(()) => {}
        Err(f) => c.fail = Some(f),
    }
    c
}

/// Strict evaluation; when it fails with a class `Sut::lenient_for` accepts
/// (and `past_known` is on), the same history is evaluated once more against
/// the adjusted reference and attached as `retry`.
pub fn eval_with_retry<S: Sut>(
    cfg: &S::Cfg,
    start: &Start<S::Op>,
    hist: &[&HOp<S::Op>],
    mode: &Mode<S::Op>,
    lenient: bool,
    past_known: bool,
) -> Cand {
    let mut c = eval_candidate::<S>(cfg, start, hist, mode, lenient);
    if !lenient && past_known && c.fail.as_ref().is_some_and(|f| S::lenient_for(&f.kind)) {
        c.retry = Some(Box::new(eval_candidate::<S>(cfg, start, hist, mode, true)));
    }
    c
}

fn run_ops<S: Sut>(cfg: &S::Cfg, start: &Start<S::Op>, hist: &[&HOp<S::Op>], lenient: bool) -> Result<Live<S>, Fail> {
    let mut live = start_live::<S>(cfg, start, lenient)?;
    for op in hist {
        step(&mut live, cfg, op)?;
    }
    Ok(live)
}

/// Coarse profile of candidate evaluation (ns): start+ops, live battery,
/// probe flush, probe load+battery, dedup key, crash enumeration.
pub static PROF: [std::sync::atomic::AtomicU64; 6] = [const { std::sync::atomic::AtomicU64::new(0) }; 6];

fn prof(i: usize, t: &mut Instant) {
    let now = Instant::now();
    PROF[i].fetch_add((now - *t).as_nanos() as u64, Ordering::Relaxed);
    *t = now;
}

fn eval_inner<S: Sut>(
    cfg: &S::Cfg,
    start: &Start<S::Op>,
    hist: &[&HOp<S::Op>],
    mode: &Mode<S::Op>,
    lenient: bool,
    c: &mut Cand,
) -> Result<(), Fail> {
    let n = hist.len();
    let mut t = Instant::now();
    let mut live = start_live::<S>(cfg, start, lenient)?;
    for (i, op) in hist.iter().enumerate() {
        if i + 1 < n {
            step(&mut live, cfg, op).map_err(|f| f.prefixed("replayed-prefix:"))?;
        } else {
            step(&mut live, cfg, op)?;
        }
    }
    prof(0, &mut t);
    // light battery on the live index
    {
        let (idx, model) = (&live.idx, &live.model);
        let evals = &mut c.evals;
        guard("battery", || S::light_battery(idx, cfg, model, evals))?;
    }
    prof(1, &mut t);
    let flags = S::flags(&live.idx);
    let committed_before = live.committed.clone();
    // probe: flush + load + battery
    let rec = do_flush(&mut live, None).map_err(|(_, e)| Fail::new("probe:flush-error", e))?;
    c.journal = rec.journal.iter().map(entry_label).collect();
    prof(2, &mut t);
    {
        let store = &live.store;
        let loaded = guard("probe:load", || {
            S::load(cfg, store).map_err(|e| Fail::new("probe:load-failed", e))
        })?;
        let model = &live.model;
        let evals = &mut c.evals;
        guard("probe:battery", || S::light_battery(&loaded, cfg, model, evals)).map_err(|f| f.prefixed("probe:"))?;
    }
    prof(3, &mut t);
    c.model_key = S::model_key(&live.model);
    let written: String = rec
        .journal
        .iter()
        .filter_map(|e| match e {
            JEntry::Put(ObjKey::Bucket(b, _), d) => Some(format!("[{b}:{}]", S::canon_bucket(cfg, d))),
            _ => None,
        })
        .collect();
    let key_str = format!(
        "M={}|C={}|F={}|D={}|W={}",
        c.model_key,
        S::model_key(&committed_before),
        flags,
        canon_store::<S>(cfg, &rec.pre_store),
        written
    );
    c.key = two_hashes(&key_str);
    prof(4, &mut t);

    if let Mode::Crash(opts) = mode {
        crash_enumerate::<S>(cfg, start, hist, lenient, opts, &rec, &committed_before, &live.model, c)?;
        prof(5, &mut t);
    }
    Ok(())
}

fn subsets(n: usize) -> Vec<Vec<usize>> {
    (0..(1usize << n))
        .map(|m| (0..n).filter(|i| m & (1 << i) != 0).collect())
        .collect()
}

#[allow(clippy::too_many_arguments)]
fn crash_enumerate<S: Sut>(
    cfg: &S::Cfg,
    start: &Start<S::Op>,
    hist: &[&HOp<S::Op>],
    lenient: bool,
    opts: &CrashOpts<S::Op>,
    rec: &FlushRec,
    old: &S::Model,
    new: &S::Model,
    c: &mut Cand,
) -> Result<(), Fail> {
    let j = &rec.journal;
    if j.is_empty() {
        return Ok(());
    }
    c.crash.flushes_with_writes += 1;
    c.crash.max_journal_len = c.crash.max_journal_len.max(j.len() as u64);
    let n_bucket_puts = j
        .iter()
        .take(rec.n_puts)
        .filter(|e| matches!(e, JEntry::Put(ObjKey::Bucket(..), _)))
        .count();
    let n_dels = j.len() - rec.n_puts;
    // crash states as lists of journal indices
    let mut states: Vec<(String, Vec<usize>)> = Vec::new();
    for k in 0..=j.len() {
        states.push((format!("prefix:{k}/{}", j.len()), (0..k).collect()));
    }
    c.crash.prefixes += (j.len() + 1) as u64;
    if opts.cuts && n_bucket_puts <= 6 && n_dels <= 6 {
        for s in subsets(n_bucket_puts) {
            // linear prefixes are already there
            if s.iter().enumerate().all(|(i, x)| i == *x) {
                continue;
            }
            states.push((format!("cut:buckets{s:?}"), s));
        }
        if rec.committed {
            for s in subsets(n_dels) {
                if s.iter().enumerate().all(|(i, x)| i == *x) {
                    continue;
                }
                let mut idxs: Vec<usize> = (0..rec.n_puts).collect();
                idxs.extend(s.iter().map(|i| rec.n_puts + i));
                states.push((format!("cut:commit+dels{s:?}"), idxs));
            }
        }
        c.crash.cuts += (states.len() - (j.len() + 1)) as u64;
    }
    let mut seen_stores: HashSet<(u64, u64)> = HashSet::new();
    for (label, idxs) in &states {
        let mut store = rec.pre_store.clone();
        for i in idxs {
            apply_entry(&mut store, &j[*i]);
        }
        // phase of the crash state, by what has landed
        let meta_landed = idxs.iter().any(|i| matches!(j[*i], JEntry::Put(ObjKey::Meta, _)));
        let dels_landed = idxs.iter().any(|i| matches!(j[*i], JEntry::Del(_)));
        let class = match (label.starts_with("prefix"), meta_landed, dels_landed) {
            (true, false, _) => "before-commit",
            (true, true, false) => "at-commit",
            (true, true, true) => "during-deletes",
            (false, false, _) => "cut-before-commit",
            (false, true, _) => "cut-during-deletes",
        };
        let loaded = guard("crash:load", || {
            S::load(cfg, &store).map_err(|e| Fail::new(format!("crash:{class}:load-failed"), format!("{label}: {e}")))
        })?;
        c.crash.crash_states_loaded += 1;
        let mut ev = 0u64;
        let as_old = guard("crash:battery", || S::light_battery(&loaded, cfg, old, &mut ev));
        let matched: &S::Model = match as_old {
            Ok(()) => {
                c.crash.matched_old += 1;
                old
            }
            Err(f_old) => {
                let as_new = guard("crash:battery", || S::light_battery(&loaded, cfg, new, &mut ev));
                match as_new {
                    Ok(()) => {
                        c.crash.matched_new += 1;
                        new
                    }
                    Err(f_new) => {
                        c.evals += ev;
                        return Err(Fail::new(
                            format!("crash:{class}:neither-old-nor-new"),
                            format!(
                                "{label} journal={:?}: vs last commit [{}] {}; vs interrupted flush [{}] {}",
                                j.iter().map(entry_label).collect::<Vec<_>>(),
                                f_old.kind,
                                f_old.detail,
                                f_new.kind,
                                f_new.detail
                            ),
                        ));
                    }
                }
            }
        };
        c.evals += ev;
        // follow-ups from this crash state (once per distinct object map)
        let skey = {
            let mut s = String::new();
            for (k, d) in &store {
                s.push_str(&format!("{k:?}:{:016x};", util::fnv64(d)));
            }
            two_hashes(&s)
        };
        if !seen_stores.insert(skey) {
            continue;
        }
        for f in &opts.followups {
            let idx = guard("crash:load", || {
                S::load(cfg, &store).map_err(|e| Fail::new(format!("crash:{class}:load-failed"), format!("{label}: {e}")))
            })?;
            let mut l2 = Live::<S> {
                idx,
                store: store.clone(),
                model: matched.clone(),
                committed: matched.clone(),
                now: 5000,
            };
            S::on_load(&mut l2.model);
            c.crash.followups += 1;
            c.execs += 1;
            let tag = format!("crash:{class}:followup:");
            step(&mut l2, cfg, f).map_err(|x| x.prefixed(&tag))?;
            {
                let (idx, model) = (&l2.idx, &l2.model);
                let evals = &mut c.evals;
                guard("battery", || S::light_battery(idx, cfg, model, evals)).map_err(|x| x.prefixed(&tag))?;
            }
            do_flush(&mut l2, None).map_err(|(_, e)| Fail::new(format!("{tag}flush-error"), e))?;
            let st = &l2.store;
            let re = guard("load", || {
                S::load(cfg, st).map_err(|e| Fail::new(format!("{tag}load-failed"), e))
            })?;
            let model = &l2.model;
            let evals = &mut c.evals;
            guard("battery", || S::light_battery(&re, cfg, model, evals))
                .map_err(|x| x.prefixed(&format!("{tag}reload:")))?;
        }
    }

    if opts.err_prefixes {
        for k in 0..rec.n_puts {
            c.crash.err_prefixes += 1;
            c.execs += 1;
            let mut live = run_ops::<S>(cfg, start, hist, lenient).map_err(|f| f.prefixed("replayed-prefix:"))?;
            let class = if k + 1 == rec.n_puts && rec.committed {
                "commit-write"
            } else {
                "bucket-write"
            };
            let tag = format!("flush-error:{class}:");
            match do_flush(&mut live, Some(k)) {
                Ok(_) => {
                    return Err(Fail::new(
                        format!("{tag}swallowed"),
                        format!("write {k} of {} failed but flush returned Ok", rec.n_puts),
                    ));
                }
                Err((r2, _e)) => {
                    if r2.journal.len() != k {
                        return Err(Fail::new(
                            format!("{tag}writes-after-error"),
                            format!("expected {k} landed writes, saw {}", r2.journal.len()),
                        ));
                    }
                }
            }
            // live index unchanged
            {
                let (idx, model) = (&live.idx, &live.model);
                let evals = &mut c.evals;
                guard("battery", || S::light_battery(idx, cfg, model, evals)).map_err(|x| x.prefixed(&format!("{tag}live:")))?;
            }
            // the object map still loads as the last commit (or, as for a
            // crash at this point, as the interrupted flush in full)
            {
                let st = &live.store;
                let re = guard("load", || {
                    S::load(cfg, st).map_err(|e| Fail::new(format!("{tag}load-failed"), e))
                })?;
                let evals = &mut c.evals;
                if let Err(f_old) = guard("battery", || S::light_battery(&re, cfg, old, evals)) {
                    guard("battery", || S::light_battery(&re, cfg, new, evals)).map_err(|f_new| {
                        Fail::new(
                            format!("{tag}durable-neither-old-nor-new"),
                            format!("vs last commit [{}] {}; vs failed flush [{}] {}", f_old.kind, f_old.detail, f_new.kind, f_new.detail),
                        )
                    })?;
                }
            }
            // retry persists the current state
            do_flush(&mut live, None).map_err(|(_, e)| Fail::new(format!("{tag}retry-flush-error"), e))?;
            {
                let st = &live.store;
                let re = guard("load", || {
                    S::load(cfg, st).map_err(|e| Fail::new(format!("{tag}retry-load-failed"), e))
                })?;
                let model = &live.model;
                let evals = &mut c.evals;
                guard("battery", || S::light_battery(&re, cfg, model, evals))
                    .map_err(|x| x.prefixed(&format!("{tag}retry-reload:")))?;
            }
        }
    }
    // a mutation that lands while the flush is awaiting its writes
    if hist.len() <= opts.midflush_depth {
        for k in 0..rec.n_puts {
            for op in &opts.midflush {
                c.crash.midflush += 1;
                c.execs += 1;
                midflush_one::<S>(cfg, start, hist, lenient, k, k + 1 == rec.n_puts && rec.committed, op, c)?;
            }
        }
    }
    Ok(())
}

/// History, then a flush during which `op` is applied from inside the write
/// closure of write `k`; then an undisturbed second flush. Demands what
/// flush documents: the payloads are frozen before the first await (so the
/// first flush commits the pre-mutation snapshot, whole), the mutation stays
/// dirty, and the next flush persists it.
fn midflush_one<S: Sut>(
    cfg: &S::Cfg,
    start: &Start<S::Op>,
    hist: &[&HOp<S::Op>],
    lenient: bool,
    k: usize,
    at_commit: bool,
    op: &S::Op,
    c: &mut Cand,
) -> Result<(), Fail> {
    let mut live = run_ops::<S>(cfg, start, hist, lenient).map_err(|f| f.prefixed("replayed-prefix:"))?;
    let pos = if at_commit { "before-commit-write" } else { "before-bucket-write" };
    let tag = format!("midflush:{pos}:{}:", S::op_kind(op));
    let pre_model = live.model.clone();
    live.now += 2;
    let now = live.now;
    let cell: std::cell::RefCell<(S::Model, Result<(), Fail>, u32)> =
        std::cell::RefCell::new((live.model.clone(), Ok(()), 0));
    let out = {
        let idx = &live.idx;
        let hook = || {
            let mut g = cell.borrow_mut();
            let (m, r, n) = &mut *g;
            *n += 1;
            *r = guard("op", || S::apply(idx, cfg, op, m, now));
        };
        match catch_unwind(AssertUnwindSafe(|| S::flush(idx, now - 1, None, Some((k, &hook))))) {
            Ok(o) => o,
            Err(_) => return Err(Fail::new(format!("{tag}panic-in-flush"), "flush panicked")),
        }
    };
    let (post_model, applied, calls) = cell.into_inner();
    applied.map_err(|f| f.prefixed(&tag))?;
    if calls != 1 {
        return Err(Fail::new("machinery:midflush-hook", format!("hook ran {calls} times at write {k}")));
    }
    live.model = post_model;
    let obsolete = out.result.map_err(|e| Fail::new(format!("{tag}flush-error"), e))?;
    for e in &out.puts {
        apply_entry(&mut live.store, e);
    }
    for o in obsolete {
        apply_entry(&mut live.store, &JEntry::Del(o));
    }
    // 1. what the disturbed flush committed is the pre-mutation snapshot, whole
    {
        let st = &live.store;
        let re = guard("load", || S::load(cfg, st).map_err(|e| Fail::new(format!("{tag}load-failed"), e)))?;
        let evals = &mut c.evals;
        guard("battery", || S::light_battery(&re, cfg, &pre_model, evals))
            .map_err(|x| x.prefixed(&format!("{tag}first-flush-not-the-snapshot:")))?;
    }
    // 2. the live index has the mutation
    {
        let (idx, model) = (&live.idx, &live.model);
        let evals = &mut c.evals;
        guard("battery", || S::light_battery(idx, cfg, model, evals)).map_err(|x| x.prefixed(&format!("{tag}live:")))?;
    }
    // 3. the next, undisturbed flush persists it
    live.committed = pre_model;
    do_flush(&mut live, None).map_err(|(_, e)| Fail::new(format!("{tag}second-flush-error"), e))?;
    {
        let st = &live.store;
        let re = guard("load", || S::load(cfg, st).map_err(|e| Fail::new(format!("{tag}second-load-failed"), e)))?;
        let model = &live.model;
        let evals = &mut c.evals;
        guard("battery", || S::light_battery(&re, cfg, model, evals))
            .map_err(|x| x.prefixed(&format!("{tag}not-persisted-by-next-flush:")))?;
    }
    Ok(())
}

pub struct Explore<S: Sut> {
    pub cfg: S::Cfg,
    pub start: Start<S::Op>,
    pub start_label: String,
    pub alphabet: Vec<HOp<S::Op>>,
    pub max_depth: usize,
    pub dedup: bool,
    pub mode: Mode<S::Op>,
    /// 0 = skip the deep battery phase
    pub deep_depth: usize,
    /// keep searching behind histories that fail with a recorded finding the
    /// Sut can describe exactly (`Sut::lenient_for` / `set_lenient`)
    pub past_known: bool,
}

#[derive(Clone, Debug, Default, Serialize)]
pub struct ExploreOut {
    pub label: String,
    pub completed_depth: usize,
    pub requested_depth: usize,
    pub alphabet: usize,
    pub states: u64,
    pub transitions: u64,
    pub dedup_hits: u64,
    pub frontier_sizes: Vec<usize>,
    pub model_states: usize,
    pub deep_states_checked: usize,
    pub light_evals: u64,
    pub deep_evals: u64,
    pub violations: u64,
    pub known_findings: u64,
    /// states kept behind a recorded finding (evaluated against the adjusted reference)
    pub past_known_states: u64,
}

fn hist_json<S: Sut>(x: &Explore<S>, hist: &[u16]) -> Value {
    let ops: Vec<&HOp<S::Op>> = hist.iter().map(|i| &x.alphabet[*i as usize]).collect();
    json!(ops)
}

fn make_violation<S: Sut>(part: &str, x: &Explore<S>, hist: &[u16], f: &Fail, phase: &str) -> Violation {
    let lenient = phase.starts_with(PAST_KNOWN);
    let last = hist
        .last()
        .map(|i| hop_kind::<S>(&x.alphabet[*i as usize]))
        .unwrap_or_else(|| "start".into());
    let signature = S::canonical_signature(&f.kind).unwrap_or_else(|| {
        format!(
            "{}/{}/{}/{}/{}{}/after:{}",
            S::PROP,
            part,
            S::cfg_label(&x.cfg),
            x.start_label,
            phase,
            f.kind,
            last
        )
    });
    let ops = hist_json::<S>(x, hist);
    Violation {
        signature,
        summary: format!(
            "{} {} [{} {}] history {} -> {}{}: {}",
            S::PROP,
            part,
            S::cfg_label(&x.cfg),
            x.start_label,
            ops,
            phase,
            f.kind,
            f.detail
        ),
        replay: json!({
            "cfg": x.cfg,
            "start": x.start,
            "start_label": x.start_label,
            "ops": ops,
            "lenient": lenient,
            "fail_kind": format!("{phase}{}", f.kind),
            "detail": f.detail,
        }),
    }
}

/// Phase prefix of violations found behind a recorded finding.
pub const PAST_KNOWN: &str = "past-known:";

/// Level-synchronous search. Returns the outcome; counters and violations
/// are added to `run`.
pub fn explore<S: Sut>(
    run: &mut Run,
    part: &str,
    x: &Explore<S>,
    bfs_deadline_s: f64,
    total_budget_s: f64,
) -> ExploreOut
where
    S::Cfg: Sync,
{
    let label = format!("{} {}", S::cfg_label(&x.cfg), x.start_label);
    let mut out = ExploreOut {
        label: label.clone(),
        requested_depth: x.max_depth,
        alphabet: x.alphabet.len(),
        ..Default::default()
    };
    let t0 = Instant::now();
    let mut seen: HashSet<(u64, u64)> = HashSet::new();
    // model state -> (discovery rank, first history reaching it, evaluated against the adjusted reference)
    let mut reps: BTreeMap<String, (usize, Vec<u16>, bool)> = BTreeMap::new();
    let mut crash = CrashTally::default();
    let mut execs = 0u64;

    // root
    let root = eval_candidate::<S>(&x.cfg, &x.start, &[], &x.mode, false);
    out.light_evals += root.evals;
    crash.merge(&root.crash);
    execs += root.execs;
    if let Some(f) = &root.fail {
        run.violation(make_violation::<S>(part, x, &[], f, ""));
        out.violations += 1;
        finish_counts(run, &out, &crash, execs);
        return out;
    }
    seen.insert(root.key);
    out.states += 1;
    reps.insert(root.model_key.clone(), (0, vec![], false));
    let root_key = root.key;
    let mut frontier: Vec<(Vec<u16>, bool)> = vec![(vec![], false)];
    out.frontier_sizes.push(1);
    let stop = AtomicBool::new(false);
    let mut samples_given = 0;

    for depth in 1..=x.max_depth {
        if frontier.is_empty() {
            out.completed_depth = x.max_depth;
            break;
        }
        let items: Vec<(Vec<u16>, bool)> = std::mem::take(&mut frontier);
        let results: Vec<Option<Vec<Cand>>> = util::par_map(items.clone(), util::n_threads(), |(h, lenient)| {
            if stop.load(Ordering::Relaxed) {
                return None;
            }
            if t0.elapsed().as_secs_f64() > bfs_deadline_s {
                stop.store(true, Ordering::Relaxed);
                return None;
            }
            let mut v = Vec::with_capacity(x.alphabet.len());
            for oi in 0..x.alphabet.len() {
                let mut ops: Vec<&HOp<S::Op>> = h.iter().map(|i| &x.alphabet[*i as usize]).collect();
                ops.push(&x.alphabet[oi]);
                v.push(eval_with_retry::<S>(&x.cfg, &x.start, &ops, &x.mode, lenient, x.past_known));
            }
            Some(v)
        });
        let mut complete = true;
        for ((h, parent_lenient), r) in items.iter().zip(results.into_iter()) {
            let Some(cands) = r else {
                complete = false;
                continue;
            };
            for (oi, mut c) in cands.into_iter().enumerate() {
                out.transitions += 1;
                out.light_evals += c.evals;
                crash.merge(&c.crash);
                execs += c.execs;
                let mut hist = h.clone();
                hist.push(oi as u16);
                let mut lenient = *parent_lenient;
                if let Some(f) = &c.fail {
                    // a violation listed in known_findings.json is recorded by `run` but
                    // does not stop the search
                    let before = run.violation_count();
                    run.violation(make_violation::<S>(part, x, &hist, f, if lenient { PAST_KNOWN } else { "" }));
                    let known = run.violation_count() == before;
                    if known {
                        out.known_findings += 1;
                    } else {
                        out.violations += 1;
                    }
                    // the failing history is extended only when it failed with a recorded
                    // finding AND agrees with the reference adjusted by exactly that finding
                    let Some(retry) = c.retry.take().filter(|_| known) else {
                        continue;
                    };
                    out.light_evals += retry.evals;
                    crash.merge(&retry.crash);
                    execs += retry.execs;
                    if let Some(f2) = &retry.fail {
                        let before = run.violation_count();
                        run.violation(make_violation::<S>(part, x, &hist, f2, PAST_KNOWN));
                        if run.violation_count() > before {
                            out.violations += 1;
                        } else {
                            out.known_findings += 1;
                        }
                        continue;
                    }
                    c = *retry;
                    lenient = true;
                }
                let fresh = seen.insert(c.key);
                if fresh {
                    out.states += 1;
                    if lenient {
                        out.past_known_states += 1;
                    }
                    if c.key != root_key {
                        run.distinct(c.key.0);
                    }
                    if samples_given < 2 && depth >= 2 && c.journal.len() >= 3 {
                        samples_given += 1;
                        run.sample(json!({
                            "config": label,
                            "history": hist_json::<S>(x, &hist),
                            "model_state": c.model_key,
                            "probe_flush_journal": c.journal,
                            "checked": "light battery on live index; flush; load; light battery on loaded index",
                        }));
                    }
                } else {
                    out.dedup_hits += 1;
                }
                let rank = reps.len();
                reps.entry(c.model_key.clone()).or_insert_with(|| (rank, hist.clone(), lenient));
                if fresh || !x.dedup {
                    frontier.push((hist, lenient));
                }
            }
        }
        if !complete {
            run.cap_hit(&format!(
                "{label}: time cap during depth {depth} (depth {} complete)",
                depth - 1
            ));
            break;
        }
        out.completed_depth = depth;
        out.frontier_sizes.push(frontier.len());
        if out.violations > 200 {
            run.cap_hit(&format!("{label}: stopped after {} violations", out.violations));
            break;
        }
    }
    out.model_states = reps.len();

    // deep battery: once per distinct model state, on its representative history
    if x.deep_depth > 0 && out.violations == 0 {
        // discovery (BFS) order: when the time cap cuts the phase short, the
        // states reached by the shortest histories have been checked
        let mut items: Vec<(usize, Vec<u16>, bool)> = reps.into_values().collect();
        items.sort();
        let stop2 = AtomicBool::new(false);
        let t1 = Instant::now();
        let deep_budget_s = (total_budget_s - t0.elapsed().as_secs_f64()).max(0.0);
        // par_map pops from the back: reverse so that BFS order is served first
        let mut order = items.clone();
        order.reverse();
        let mut results = util::par_map(order, util::n_threads(), |(_, h, lenient)| {
            if stop2.load(Ordering::Relaxed) {
                return None;
            }
            if t1.elapsed().as_secs_f64() > deep_budget_s {
                stop2.store(true, Ordering::Relaxed);
                return None;
            }
            let ops: Vec<&HOp<S::Op>> = h.iter().map(|i| &x.alphabet[*i as usize]).collect();
            let mut evals = 0u64;
            let r = (|| {
                let live = run_ops::<S>(&x.cfg, &x.start, &ops, lenient).map_err(|f| f.prefixed("replayed-prefix:"))?;
                let (idx, model) = (&live.idx, &live.model);
                guard("deep-battery", || S::deep_battery(idx, &x.cfg, model, x.deep_depth, &mut evals))
            })();
            Some((evals, r.err()))
        });
        results.reverse();
        let mut skipped = 0;
        for ((_, h, lenient), r) in items.iter().zip(results.into_iter()) {
            match r {
                None => skipped += 1,
                Some((ev, fail)) => {
                    out.deep_evals += ev;
                    out.deep_states_checked += 1;
                    execs += 1;
                    if let Some(f) = fail {
                        let before = run.violation_count();
                        run.violation(make_violation::<S>(part, x, h, &f, if *lenient { "past-known:deep:" } else { "deep:" }));
                        if run.violation_count() > before {
                            out.violations += 1;
                        } else {
                            out.known_findings += 1;
                        }
                    }
                }
            }
        }
        if skipped > 0 {
            run.cap_hit(&format!("{label}: deep battery skipped for {skipped} model states (time)"));
        }
    }
    finish_counts(run, &out, &crash, execs);
    out
}

fn finish_counts(run: &mut Run, out: &ExploreOut, crash: &CrashTally, execs: u64) {
    run.add("states", out.states);
    run.add("transitions", out.transitions);
    run.add("traces_validated_against_impl", execs);
    run.add("evaluations", out.light_evals + out.deep_evals);
    run.add("dedup_hits", out.dedup_hits);
    run.add("model_states_deep_checked", out.deep_states_checked as u64);
    if out.past_known_states > 0 {
        run.add("states_behind_recorded_findings", out.past_known_states);
    }
    if crash.flushes_with_writes > 0 {
        run.add("crash_flushes", crash.flushes_with_writes);
        run.add("crash_prefixes", crash.prefixes);
        run.add("crash_cuts", crash.cuts);
        run.add("crash_states_loaded", crash.crash_states_loaded);
        run.add("crash_matched_last_commit", crash.matched_old);
        run.add("crash_matched_interrupted", crash.matched_new);
        run.add("crash_followup_executions", crash.followups);
        run.add("flush_error_injections", crash.err_prefixes);
        run.add("midflush_mutation_executions", crash.midflush);
        let prev = run.get("max_journal_len");
        if crash.max_journal_len > prev {
            run.add("max_journal_len", crash.max_journal_len - prev);
        }
    }
}

/// Re-runs one recorded history with every check after every step.
pub fn replay<S: Sut>(run: &mut Run, part: &str, doc: &Value, mode_of: impl Fn() -> Mode<S::Op>, deep_depth: usize) {
    let r = &doc["replay"];
    let cfg: S::Cfg = match serde_json::from_value(r["cfg"].clone()) {
        Ok(c) => c,
        Err(e) => vcore::report::machinery(&format!("replay: bad cfg: {e}")),
    };
    let start: Start<S::Op> = match serde_json::from_value(r["start"].clone()) {
        Ok(c) => c,
        Err(e) => vcore::report::machinery(&format!("replay: bad start: {e}")),
    };
    let ops: Vec<HOp<S::Op>> = match serde_json::from_value(r["ops"].clone()) {
        Ok(c) => c,
        Err(e) => vcore::report::machinery(&format!("replay: bad ops: {e}")),
    };
    let start_label = r["start_label"].as_str().unwrap_or("fresh").to_string();
    let x = Explore::<S> {
        cfg: cfg.clone(),
        start: start.clone(),
        start_label,
        alphabet: ops.clone(),
        max_depth: ops.len(),
        dedup: false,
        mode: mode_of(),
        deep_depth,
        past_known: false,
    };
    // a case found behind a recorded finding is replayed against the adjusted reference
    let lenient = r["lenient"].as_bool().unwrap_or(false);
    let phase = if lenient { PAST_KNOWN } else { "" };
    let idxs: Vec<u16> = (0..ops.len() as u16).collect();
    let mut execs = 0;
    for n in 0..=ops.len() {
        let refs: Vec<&HOp<S::Op>> = ops[..n].iter().collect();
        let c = eval_candidate::<S>(&cfg, &start, &refs, &x.mode, lenient);
        execs += c.execs;
        run.add("evaluations", c.evals);
        run.add("transitions", 1);
        if let Some(f) = &c.fail {
            println!("replay: step {n}: {phase}{} — {}", f.kind, f.detail);
            run.violation(make_violation::<S>(part, &x, &idxs[..n], f, phase));
            break;
        }
        if deep_depth > 0 {
            let mut evals = 0u64;
            let r = (|| {
                let live = run_ops::<S>(&cfg, &start, &refs, lenient)?;
                let (idx, model) = (&live.idx, &live.model);
                guard("deep-battery", || S::deep_battery(idx, &cfg, model, deep_depth, &mut evals))
            })();
            run.add("evaluations", evals);
            execs += 1;
            if let Err(f) = r {
                println!("replay: step {n}: deep:{} — {}", f.kind, f.detail);
                run.violation(make_violation::<S>(part, &x, &idxs[..n], &f, if lenient { "past-known:deep:" } else { "deep:" }));
                break;
            }
        }
    }
    run.add("traces_validated_against_impl", execs);
    run.add("states", ops.len() as u64 + 1);
    if run.violation_count() == 0 {
        println!("replay: history of {} ops ran without a violation", ops.len());
    }
}

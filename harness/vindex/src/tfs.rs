//! C11 — `BM25Index` (default tokenizer) against a naive inverted index
//! built with the SAME tokenizer.

use crate::engine::{Fail, FlushOut, HOp, JEntry, ObjKey, Store, Sut};
use anda_db_tfs::{
    BM25Config, BM25Error, BM25Index, BM25Metadata, BM25Params, BucketObject, TokenizerChain, collect_tokens,
    default_tokenizer,
};
use serde::{Deserialize, Serialize};
use std::cell::{Cell, RefCell};
use std::collections::{BTreeMap, BTreeSet};
use std::sync::OnceLock;
use vcore::util::block_on;

pub const VOCAB: [&str; 4] = ["alpha", "beta", "gamma", "delta"];
/// query terms: the vocabulary plus a word that is never indexed
pub const TERMS: [&str; 5] = ["alpha", "beta", "gamma", "delta", "omega"];
/// documents of 1-3 tokens incl. repeats; the last one yields no token
/// (single letters are dropped by the tokenizer) and must be refused.
pub const TEXTS: [&str; 7] = [
    "alpha",
    "alpha beta",
    "beta gamma delta",
    "alpha alpha beta",
    "gamma gamma",
    "delta alpha",
    "x",
];
pub const BAD_TEXT: u8 = 6;
const BIG_K: usize = 1000;

fn tokens_of(text: &str) -> BTreeMap<String, usize> {
    let mut t = default_tokenizer();
    collect_tokens(&mut t, text, None).into_iter().collect()
}

/// token counts of TEXTS, by the crate's own tokenizer
fn text_tokens(i: u8) -> &'static BTreeMap<String, usize> {
    static T: OnceLock<Vec<BTreeMap<String, usize>>> = OnceLock::new();
    &T.get_or_init(|| TEXTS.iter().map(|t| tokens_of(t)).collect())[i as usize]
}

fn term_token(i: usize) -> &'static str {
    static T: OnceLock<Vec<String>> = OnceLock::new();
    &T.get_or_init(|| {
        TERMS
            .iter()
            .map(|t| {
                let m = tokens_of(t);
                assert_eq!(m.len(), 1, "query term {t} must be one token");
                m.into_keys().next().unwrap()
            })
            .collect()
    })[i]
}

#[derive(Clone, Debug, Serialize, Deserialize)]
pub struct TfsCfg {
    pub bucket_overload_size: usize,
}

#[derive(Clone, Debug, PartialEq, Eq, Serialize, Deserialize)]
pub enum TfsOp {
    /// (id, index into TEXTS)
    Insert(u64, u8),
    /// remove with the text the live document was inserted with
    RemoveOriginal(u64),
    /// remove with the given text (original or not)
    RemoveWith(u64, u8),
    Purge(Vec<u64>),
}

#[derive(Clone, Debug, Default, PartialEq)]
pub struct TfsModel {
    /// live documents: id -> (text index, token -> count)
    pub docs: BTreeMap<u64, (u8, BTreeMap<String, usize>)>,
    /// Bookkeeping for classification only (never used to compute expected
    /// answers): (id, token) posting entries that the documented contract of
    /// `remove` with non-original text allows to be left behind.
    pub stale: BTreeSet<(u64, String)>,
    /// Subset of `stale` (classification only): entries left by an EARLIER
    /// incarnation of the id, i.e. the id was inserted again afterwards with a
    /// text that does not contain the token.
    pub stale_old: BTreeSet<(u64, String)>,
    /// Classification only: ids that are not live and whose LATEST removal was a
    /// `remove` with a text containing every token of the removed document
    /// ("its correct text").
    pub removed_with_full_text: BTreeSet<u64>,
    /// Adjusted reference used behind the recorded finding
    /// `C11/stale-posting-of-reinserted-id`: a LIVE document additionally
    /// counts as containing the tokens of its stale entries (exactly the
    /// recorded effect: the posting entry is still there and the id is indexed
    /// again). Counters, document lengths and everything about documents that
    /// are not live are unchanged.
    pub lenient: bool,
    /// Classification only: (id, token) of a LIVE document that has two or more
    /// posting entries for the token - the current one plus stale one(s) with
    /// another term frequency (remove with a text without the token, then
    /// insert with a text containing it).
    pub dups: BTreeSet<(u64, String)>,
    /// Classification only: (id, token) with two or more stale entries of an id
    /// that is not live (a document with duplicates removed again with a text
    /// without the token).
    pub multi_stale: BTreeSet<(u64, String)>,
    /// Classification only: duplicates of which the CURRENT entry need not be
    /// the last one of the posting list any more: an entry of another document
    /// was removed from that list afterwards (swap_remove moves the last entry
    /// forward), or the insert found several stale entries (its own pair may
    /// equal one of them, then nothing is appended).
    pub dup_order_lost: BTreeSet<(u64, String)>,
}

impl TfsModel {
    /// classification bookkeeping for one `remove(id, text)` call; before the model is changed
    fn note_remove(&mut self, id: u64, text_tokens: &BTreeMap<String, usize>) {
        let live_toks: Option<BTreeMap<String, usize>> = self.docs.get(&id).map(|(_, t)| t.clone());
        for tok in text_tokens.keys() {
            let had_entry = live_toks.as_ref().is_some_and(|t| t.contains_key(tok)) || self.stale.contains(&(id, tok.clone()));
            let key = (id, tok.clone());
            self.dups.remove(&key);
            self.multi_stale.remove(&key);
            self.dup_order_lost.remove(&key);
            if had_entry {
                // the list of `tok` is re-ordered under the duplicates of other documents
                let others: Vec<(u64, String)> = self.dups.iter().filter(|(i, t)| *i != id && t == tok).cloned().collect();
                self.dup_order_lost.extend(others);
            }
        }
        if live_toks.is_some() {
            // duplicates that are not cleaned stay behind as several stale entries
            let left: Vec<(u64, String)> = self.dups.iter().filter(|(i, _)| *i == id).cloned().collect();
            for k in left {
                self.dups.remove(&k);
                self.multi_stale.insert(k);
            }
        }
    }
    fn note_purge(&mut self, ids: &BTreeSet<u64>) {
        // purge sweeps every list with `retain` (order kept) and removes all entries of the ids
        self.dups.retain(|(i, _)| !ids.contains(i));
        self.multi_stale.retain(|(i, _)| !ids.contains(i));
        self.dup_order_lost.retain(|(i, _)| !ids.contains(i));
    }
    fn note_insert(&mut self, id: u64, toks: &BTreeMap<String, usize>) {
        for tok in toks.keys() {
            let key = (id, tok.clone());
            if self.stale.contains(&key) {
                self.dups.insert(key.clone());
                if self.multi_stale.remove(&key) {
                    self.dup_order_lost.insert(key);
                }
            }
        }
    }
    fn order_lost_for(&self, terms: &BTreeSet<usize>) -> bool {
        terms.iter().any(|t| self.dup_order_lost.iter().any(|(id, tok)| tok == term_token(*t) && self.docs.contains_key(id)))
    }

    fn containing(&self, token: &str) -> BTreeSet<u64> {
        self.docs
            .iter()
            .filter(|(id, (_, toks))| {
                toks.contains_key(token) || (self.lenient && self.stale.contains(&(**id, token.to_string())))
            })
            .map(|(id, _)| *id)
            .collect()
    }
    fn all(&self) -> BTreeSet<u64> {
        self.docs.keys().copied().collect()
    }
    fn remove_with(&mut self, id: u64, text_tokens: &BTreeMap<String, usize>) -> bool {
        self.note_remove(id, text_tokens);
        // entries for the tokens of the supplied text are cleaned in any case
        self.stale.retain(|(i, t)| !(*i == id && text_tokens.contains_key(t)));
        self.stale_old.retain(|(i, t)| !(*i == id && text_tokens.contains_key(t)));
        match self.docs.remove(&id) {
            Some((_, toks)) => {
                if toks.keys().all(|t| text_tokens.contains_key(t)) {
                    self.removed_with_full_text.insert(id);
                } else {
                    self.removed_with_full_text.remove(&id);
                }
                for t in toks.keys() {
                    if !text_tokens.contains_key(t) {
                        self.stale.insert((id, t.clone()));
                    }
                }
                true
            }
            None => false,
        }
    }
}

pub struct Tfs;

#[derive(Serialize, Deserialize)]
struct MetaWrap {
    metadata: BM25Metadata,
}

#[derive(Deserialize)]
struct BucketMirror {
    #[serde(rename = "p")]
    postings: BTreeMap<String, (u32, Vec<(u64, usize)>)>,
    #[serde(rename = "d")]
    doc_tokens: BTreeMap<u64, usize>,
}

fn show_model(m: &TfsModel) -> String {
    let mut s = String::from("{");
    for (id, (t, _)) in &m.docs {
        s.push_str(&format!("{id}:{:?} ", TEXTS[*t as usize]));
    }
    s.push('}');
    if !m.stale.is_empty() {
        s.push_str(&format!(" stale{:?}", m.stale));
    }
    if !m.stale_old.is_empty() {
        s.push_str(&format!(" earlier-incarnation{:?}", m.stale_old));
        let full: Vec<u64> = m
            .removed_with_full_text
            .iter()
            .filter(|id| m.stale_old.iter().any(|(i, _)| i == *id))
            .copied()
            .collect();
        if !full.is_empty() {
            s.push_str(&format!(" last-removed-with-full-text{full:?}"));
        }
    }
    s
}

// ------------------------------------------------------------ boolean queries

#[derive(Clone, Debug)]
pub enum Q {
    T(usize),
    And(Vec<Q>),
    Or(Vec<Q>),
    Not(Box<Q>),
}

impl Q {
    fn atom(&self) -> String {
        match self {
            Q::T(i) => TERMS[*i].to_string(),
            other => format!("({})", other.render()),
        }
    }
    fn operand(&self) -> String {
        match self {
            Q::T(i) => TERMS[*i].to_string(),
            Q::Not(_) => self.render(),
            other => format!("({})", other.render()),
        }
    }
    /// Query string in the syntax of query.rs: `A AND B`, `A OR B`,
    /// `NOT A`, parentheses around every composite operand.
    pub fn render(&self) -> String {
        match self {
            Q::T(i) => TERMS[*i].to_string(),
            Q::Not(x) => format!("NOT {}", x.atom()),
            Q::And(xs) => xs.iter().map(|x| x.operand()).collect::<Vec<_>>().join(" AND "),
            Q::Or(xs) => xs.iter().map(|x| x.operand()).collect::<Vec<_>>().join(" OR "),
        }
    }
    /// Set algebra over the live documents.
    pub fn eval(&self, m: &TfsModel) -> BTreeSet<u64> {
        match self {
            Q::T(i) => m.containing(term_token(*i)),
            Q::And(xs) => {
                let mut it = xs.iter();
                let mut acc = it.next().map(|x| x.eval(m)).unwrap_or_default();
                for x in it {
                    let s = x.eval(m);
                    acc = acc.intersection(&s).copied().collect();
                }
                acc
            }
            Q::Or(xs) => {
                let mut acc = BTreeSet::new();
                for x in xs {
                    acc.extend(x.eval(m));
                }
                acc
            }
            Q::Not(x) => {
                let s = x.eval(m);
                m.all().difference(&s).copied().collect()
            }
        }
    }
    pub fn shape(&self) -> String {
        match self {
            Q::T(_) => "T".into(),
            Q::And(xs) => format!("And({})", xs.iter().map(|x| x.shape()).collect::<Vec<_>>().join(",")),
            Q::Or(xs) => format!("Or({})", xs.iter().map(|x| x.shape()).collect::<Vec<_>>().join(",")),
            Q::Not(x) => format!("Not({})", x.shape()),
        }
    }
    /// terms mentioned (for classification)
    fn terms(&self, out: &mut BTreeSet<usize>) {
        match self {
            Q::T(i) => {
                out.insert(*i);
            }
            Q::And(xs) | Q::Or(xs) => xs.iter().for_each(|x| x.terms(out)),
            Q::Not(x) => x.terms(out),
        }
    }
}

fn terms_as_q() -> Vec<Q> {
    (0..TERMS.len()).map(Q::T).collect()
}

/// depth <= 2 over the given leaves: Not(leaf), And/Or of every ordered pair,
/// and a few ternaries.
fn q_depth2(a: &[Q]) -> Vec<Q> {
    let mut out = a.to_vec();
    for x in a {
        out.push(Q::Not(Box::new(x.clone())));
    }
    for x in a {
        for y in a {
            out.push(Q::And(vec![x.clone(), y.clone()]));
            out.push(Q::Or(vec![x.clone(), y.clone()]));
        }
    }
    let n = a.len();
    for i in 0..n {
        let (x, y, z) = (&a[i], &a[(i + 1) % n], &a[(i + 2) % n]);
        out.push(Q::And(vec![x.clone(), y.clone(), z.clone()]));
        out.push(Q::Or(vec![x.clone(), y.clone(), z.clone()]));
    }
    out
}

/// Every boolean tree to `depth` (leaf = 1) over TERMS; depth 3 = Not / binary
/// And / binary Or over all depth<=2 trees.
pub fn q_trees(depth: usize) -> Vec<Q> {
    let t1 = terms_as_q();
    match depth {
        0 | 1 => t1,
        2 => q_depth2(&t1),
        _ => {
            let t2 = q_depth2(&t1);
            let mut out = t2.clone();
            for x in &t2 {
                if !matches!(x, Q::T(_)) {
                    out.push(Q::Not(Box::new(x.clone())));
                }
            }
            for x in &t2 {
                for y in &t2 {
                    if matches!(x, Q::T(_)) && matches!(y, Q::T(_)) {
                        continue; // already in t2
                    }
                    out.push(Q::And(vec![x.clone(), y.clone()]));
                    out.push(Q::Or(vec![x.clone(), y.clone()]));
                }
            }
            out
        }
    }
}

/// ANDs with two (or three) negated operands, in every operand order. An
/// earlier negated operand that matches no live document (the never-indexed
/// term, or a term whose documents were all removed) must not end the
/// evaluation before the later ones are subtracted. `full`: every choice of
/// distinct terms; otherwise four fixed trees over the never-indexed term.
pub fn multi_not_trees(full: bool) -> Vec<Q> {
    let n = |i: usize| Q::Not(Box::new(Q::T(i)));
    let and3 = |pos: usize, i: usize, j: usize, k: usize| {
        let mut v = vec![n(j), n(k)];
        v.insert(pos, Q::T(i));
        Q::And(v)
    };
    if !full {
        // omega (4) is never indexed
        return vec![
            and3(0, 0, 4, 1),
            and3(1, 1, 4, 0),
            Q::And(vec![n(2), n(4), n(1)]),
            Q::Or(vec![Q::T(2), and3(2, 0, 4, 1)]),
        ];
    }
    let t = TERMS.len();
    let mut out = Vec::new();
    for i in 0..t {
        for j in 0..t {
            for k in 0..t {
                if i == j || i == k || j == k {
                    continue;
                }
                for pos in 0..3 {
                    out.push(and3(pos, i, j, k));
                }
                // all operands negated
                out.push(Q::And(vec![n(i), n(j), n(k)]));
                // the same AND one level down
                let l = (i + 1) % t;
                out.push(Q::Or(vec![Q::T(l), and3(0, i, j, k)]));
                out.push(Q::And(vec![and3(1, i, j, k), Q::T(l)]));
            }
        }
    }
    out
}

/// The boolean shapes used in the per-step light battery.
pub fn light_trees() -> Vec<Q> {
    let n = |q: Q| Q::Not(Box::new(q));
    vec![
        Q::And(vec![Q::T(0), Q::T(1)]),
        Q::Or(vec![Q::T(2), Q::T(3)]),
        n(Q::T(0)),
        Q::And(vec![Q::T(1), n(Q::T(2))]),
        Q::Or(vec![n(Q::T(3)), Q::T(0)]),
        Q::And(vec![n(Q::T(1)), n(Q::T(3))]),
    ]
}

pub fn params_list() -> Vec<(&'static str, Option<BM25Params>)> {
    let p = |k1: f32, b: f32| Some(BM25Params { k1, b });
    vec![
        ("default", None),
        ("k1=0", p(0.0, 0.75)),
        ("b=0", p(1.2, 0.0)),
        ("b=1", p(1.2, 1.0)),
        ("k1=NaN", p(f32::NAN, 0.75)),
        ("b=NaN", p(1.2, f32::NAN)),
        ("k1=+inf", p(f32::INFINITY, 0.75)),
        ("b=+inf", p(1.2, f32::INFINITY)),
        ("k1=-inf,b=-inf", p(f32::NEG_INFINITY, f32::NEG_INFINITY)),
        ("k1=-1,b=-1", p(-1.0, -1.0)),
        ("k1=f32::MAX", p(f32::MAX, 0.75)),
        ("k1=f32::MAX,b=f32::MAX", p(f32::MAX, f32::MAX)),
    ]
}

fn bits(v: &[(u64, f32)]) -> Vec<(u64, u32)> {
    v.iter().map(|(i, s)| (*i, s.to_bits())).collect()
}

/// Checks one result list: id set (or a k-subset of it), score sanity, order.
fn check_list(
    what: &str,
    qs: &str,
    list: &[(u64, f32)],
    want: &BTreeSet<u64>,
    k: usize,
    m: &TfsModel,
    stale_terms: &BTreeSet<usize>,
) -> Result<(), Fail> {
    let ids: BTreeSet<u64> = list.iter().map(|(i, _)| *i).collect();
    let set_ok = if k >= want.len() {
        &ids == want
    } else {
        ids.len() == k && ids.is_subset(want)
    };
    if ids.len() != list.len() {
        return Err(Fail::new(format!("{what}:duplicate-id"), format!("query {qs:?} k={k}: {list:?}")));
    }
    if !set_ok {
        // classification: is the surplus explained by a stale entry of a
        // re-inserted id (remove with non-original text, then insert again)?
        let surplus: Vec<u64> = ids.difference(want).copied().collect();
        let resurrect = !surplus.is_empty()
            && surplus
                .iter()
                .all(|id| stale_terms.iter().any(|t| m.stale.contains(&(*id, term_token(*t).to_string()))));
        let kind = if resurrect {
            format!("{what}:set:stale-posting-of-reinserted-id")
        } else {
            format!("{what}:set")
        };
        return Err(Fail::new(
            kind,
            format!("query {qs:?} k={k}: got ids {ids:?}, model {want:?}; docs {}", show_model(m)),
        ));
    }
    for (id, s) in list {
        if !s.is_finite() || *s < 0.0 {
            return Err(Fail::new(format!("{what}:score-not-finite-nonneg"), format!("query {qs:?}: doc {id} score {s}")));
        }
    }
    for w in list.windows(2) {
        let ((i1, s1), (i2, s2)) = (w[0], w[1]);
        let ok = s1 > s2 || (s1 == s2 && i1 < i2);
        if !ok {
            return Err(Fail::new(format!("{what}:order"), format!("query {qs:?}: {list:?} is not (score desc, id asc)")));
        }
    }
    Ok(())
}

type Idx = BM25Index<TokenizerChain>;

fn adv(idx: &Idx, qs: &str, k: usize, p: &Option<BM25Params>) -> Result<Vec<(u64, f32)>, Fail> {
    idx.try_search_advanced(qs, k, p.clone())
        .map_err(|e| Fail::new("advanced:error", format!("query {qs:?} k={k}: {e:?}")))
}

/// One boolean tree, one call: id set, score sanity, order.
fn check_tree_once(idx: &Idx, m: &TfsModel, q: &Q, evals: &mut u64) -> Result<Vec<(u64, f32)>, Fail> {
    let qs = q.render();
    let want = q.eval(m);
    let mut ts = BTreeSet::new();
    q.terms(&mut ts);
    let full = adv(idx, &qs, BIG_K, &None)?;
    *evals += 1;
    check_list(&format!("advanced:{}", q.shape()), &qs, &full, &want, BIG_K, m, &ts)?;
    Ok(full)
}

/// One boolean tree: full list vs the model, repeat, every k.
fn check_tree(
    idx: &Idx,
    m: &TfsModel,
    q: &Q,
    pname: &str,
    p: &Option<BM25Params>,
    all_k: bool,
    evals: &mut u64,
) -> Result<Vec<(u64, f32)>, Fail> {
    let qs = q.render();
    let want = q.eval(m);
    let mut ts = BTreeSet::new();
    q.terms(&mut ts);
    let what = if pname == "default" {
        format!("advanced:{}", q.shape())
    } else {
        format!("advanced[{pname}]:{}", q.shape())
    };
    let full = adv(idx, &qs, BIG_K, p)?;
    *evals += 1;
    check_list(&what, &qs, &full, &want, BIG_K, m, &ts)?;
    let again = adv(idx, &qs, BIG_K, p)?;
    *evals += 1;
    if bits(&again) != bits(&full) {
        return Err(Fail::new(format!("{what}:repeat"), format!("query {qs:?}: {full:?} then {again:?}")));
    }
    if all_k {
        for k in 0..=m.docs.len() + 1 {
            let top = adv(idx, &qs, k, p)?;
            *evals += 1;
            let pre = &full[..k.min(full.len())];
            if bits(&top) != bits(pre) {
                return Err(Fail::new(
                    format!("{what}:top-k-prefix"),
                    format!("query {qs:?}: top-{k} {top:?} is not the prefix of the full list {full:?}"),
                ));
            }
        }
    }
    Ok(full)
}

/// Plain `search` with 1..3 words (words are OR-ed).
fn check_search(
    idx: &Idx,
    m: &TfsModel,
    words: &[usize],
    repeat: bool,
    all_k: bool,
    evals: &mut u64,
) -> Result<Vec<(u64, f32)>, Fail> {
    let qs = words.iter().map(|i| TERMS[*i]).collect::<Vec<_>>().join(" ");
    let mut want = BTreeSet::new();
    for w in words {
        want.extend(m.containing(term_token(*w)));
    }
    let ts: BTreeSet<usize> = words.iter().copied().collect();
    let what = format!("search:{}w", words.len());
    let full = idx.search(&qs, BIG_K, None);
    *evals += 1;
    check_list(&what, &qs, &full, &want, BIG_K, m, &ts)?;
    // identical repeat. With >= 3 words the crate adds the per-token scores in
    // the iteration order of a randomly seeded HashMap (collect_tokens), so a
    // difference there is classified as that one root cause.
    if repeat {
        let reps = if words.len() <= 2 { 1 } else { 8 };
        // all repeats are always run, so that the evaluation count is the same in every run
        let mut differing: Option<Vec<(u64, f32)>> = None;
        for _ in 0..reps {
            let again = idx.search(&qs, BIG_K, None);
            *evals += 1;
            if differing.is_none() && bits(&again) != bits(&full) {
                differing = Some(again);
            }
        }
        if let Some(again) = differing {
            let kind = if words.len() <= 2 {
                format!("{what}:repeat")
            } else {
                "search:multiword-repeat-hash-order".to_string()
            };
            return Err(Fail::new(kind, format!("query {qs:?}: {full:?} then {again:?}")));
        }
    }
    if all_k && words.len() <= 2 {
        for k in 0..=m.docs.len() + 1 {
            let top = idx.search(&qs, k, None);
            *evals += 1;
            if bits(&top) != bits(&full[..k.min(full.len())]) {
                return Err(Fail::new(
                    format!("{what}:top-k-prefix"),
                    format!("query {qs:?}: top-{k} {top:?} vs full {full:?}"),
                ));
            }
        }
    }
    Ok(full)
}

// ------------------------------------------------------ ranking differential
//
// An index reached by a history must rank every query exactly like a FRESH
// index that got the model's current documents by plain inserts: same ids in
// the same order, scores equal within a relative 1e-5. Both sides are the
// crate's own scoring; what differs is only how the posting lists came about
// (stale entries, duplicates of a re-inserted id, compaction, reload). N, the
// document lengths and the average length of the two indexes are equal: the
// light battery compares them bit-exactly with the model before.
//
// Not comparable (and skipped, exactly those): a query that mentions a token
// for which a LIVE document has a posting entry left behind by a remove with
// non-original text although its current text does not contain the token -
// the recorded finding C11/stale-posting-of-reinserted-id; the fresh index
// cannot have that entry.

/// failure class: the ranking differs for a term of which a live document has
/// duplicate posting entries whose order was disturbed afterwards
pub const KIND_STALE_DUP: &str = "stale-duplicate-entry-after-list-reorder";
pub const SIG_STALE_DUP: &str = "C11/stale-duplicate-posting-entry-decides-term-frequency-after-list-reorder";

/// tokens with a stale posting entry of a live document
fn live_stale_tokens(m: &TfsModel) -> BTreeSet<&str> {
    m.stale
        .iter()
        .filter(|(id, _)| m.docs.contains_key(id))
        .map(|(_, t)| t.as_str())
        .collect()
}

fn mentions(terms: &BTreeSet<usize>, skip: &BTreeSet<&str>) -> bool {
    terms.iter().any(|t| skip.contains(term_token(*t)))
}

fn fresh_index(m: &TfsModel) -> Idx {
    let idx = BM25Index::new("vindex-fresh".to_string(), default_tokenizer(), None);
    for (id, (t, _)) in &m.docs {
        idx.insert(*id, TEXTS[*t as usize], 1).expect("fresh index: insert of a model document");
    }
    idx
}

fn same_ranking(
    what: &str,
    qs: &str,
    got: &[(u64, f32)],
    fresh: &[(u64, f32)],
    m: &TfsModel,
    terms: &BTreeSet<usize>,
) -> Result<(), Fail> {
    let close = |a: f32, b: f32| a == b || (a - b).abs() <= 1e-5 * a.abs().max(b.abs());
    let same = got.len() == fresh.len() && got.iter().zip(fresh).all(|((i1, s1), (i2, s2))| i1 == i2 && close(*s1, *s2));
    if same {
        return Ok(());
    }
    let ids = |v: &[(u64, f32)]| v.iter().map(|(i, _)| *i).collect::<Vec<_>>();
    let class = if m.order_lost_for(terms) {
        KIND_STALE_DUP
    } else if ids(got) != ids(fresh) {
        "order"
    } else {
        "scores"
    };
    Err(Fail::new(
        format!("{what}:ranking-differs-from-fresh-index:{class}"),
        format!(
            "query {qs:?}: the index ranks {got:?}, a fresh index holding the same documents {} ranks {fresh:?}",
            show_model(m)
        ),
    ))
}

/// Answers of the fresh index for the fixed query list of the light battery
/// (every term by `search`, then light_trees + multi_not_trees(false) by
/// `try_search_advanced`). They depend on the model's documents only, so they
/// are memoised per thread by (id, text) list.
struct FreshLight {
    terms: Vec<Vec<(u64, f32)>>,
    trees: Vec<Vec<(u64, f32)>>,
}

fn fresh_light(m: &TfsModel) -> std::rc::Rc<FreshLight> {
    use std::collections::HashMap;
    use std::rc::Rc;
    thread_local! {
        static MEMO: RefCell<HashMap<Vec<(u64, u8)>, Rc<FreshLight>>> = RefCell::new(HashMap::new());
    }
    let key: Vec<(u64, u8)> = m.docs.iter().map(|(id, (t, _))| (*id, *t)).collect();
    if let Some(hit) = MEMO.with(|c| c.borrow().get(&key).cloned()) {
        return hit;
    }
    let f = fresh_index(m);
    let terms = (0..TERMS.len()).map(|t| f.search(TERMS[t], BIG_K, None)).collect();
    let trees = light_trees()
        .into_iter()
        .chain(multi_not_trees(false))
        .map(|q| f.try_search_advanced(&q.render(), BIG_K, None).expect("fresh index: light tree"))
        .collect();
    let out = Rc::new(FreshLight { terms, trees });
    MEMO.with(|c| c.borrow_mut().insert(key, out.clone()));
    out
}

pub const SIG_HASH_ORDER: &str = "C11/multiword-search-score-depends-on-hash-order";
/// failure class / signature: a document removed with its CURRENT text is
/// indexed again after flush + load, through a posting entry that an earlier
/// incarnation of the same id left behind (remove with non-original text)
pub const SIG_RESURRECT_KIND: &str = "removed-doc-indexed-again:stale-posting-of-earlier-incarnation:last-removal-full-text";
pub const SIG_RESURRECT: &str = "C11/removed-doc-resurrected-by-reload-via-stale-posting-of-earlier-incarnation";
/// same, but the id's LATEST removal was again given a text that does not
/// contain every token of the document
pub const SIG_RESURRECT_KIND_B: &str = "removed-doc-indexed-again:stale-posting-of-earlier-incarnation:last-removal-partial-text";
pub const SIG_RESURRECT_B: &str =
    "C11/removed-doc-resurrected-by-reload-via-stale-posting-of-earlier-incarnation/last-removal-with-non-original-text";

/// Failure classes that were observed on an index obtained by `load` (never
/// on the live index): the engine prefixes them with one of these markers.
fn observed_after_load(kind: &str) -> bool {
    ["probe:", "reload:", "not-persisted-by-next-flush:", "first-flush-not-the-snapshot:"]
        .iter()
        .any(|p| kind.contains(p))
}

/// Fixed scenario outside the 1-3 token universe: six documents (one with five
/// tokens), one 4-word plain query repeated `repeats` times on ONE index
/// instance; every repeat must return the bit-identical list.
/// Returns (evaluations, Some((summary, replay))) when two repeats differ.
pub fn multiword_repeat_scenario(repeats: usize) -> (u64, Option<(String, serde_json::Value)>) {
    let docs = [
        "beta gamma delta",
        "alpha alpha beta",
        "delta alpha",
        "alpha beta gamma delta delta",
        "gamma",
        "beta beta beta gamma alpha",
    ];
    let query = "alpha beta gamma delta";
    let idx = BM25Index::new("vindex".to_string(), default_tokenizer(), None);
    for (i, d) in docs.iter().enumerate() {
        idx.insert(i as u64 + 1, d, 1).expect("scenario insert");
    }
    let first = idx.search(query, BIG_K, None);
    // all repeats are always run, so that the evaluation count is the same in every run
    let mut differing: Option<(usize, Vec<(u64, f32)>)> = None;
    for r in 1..repeats {
        let again = idx.search(query, BIG_K, None);
        if differing.is_none() && bits(&again) != bits(&first) {
            differing = Some((r, again));
        }
    }
    if let Some((_, again)) = differing {
        let summary = format!(
            "C11 hist scenario multiword-repeat: search({query:?}) on one index instance returned {first:?} and, in a later identical call, {again:?}: \
             score_term adds the per-token scores in the iteration order of a randomly seeded std HashMap"
        );
        let replay = serde_json::json!({"scenario": "multiword-repeat", "docs": docs, "query": query, "repeats": repeats});
        return (repeats as u64, Some((summary, replay)));
    }
    (repeats as u64, None)
}

impl Sut for Tfs {
    const PROP: &'static str = "C11";
    type Cfg = TfsCfg;
    type Op = TfsOp;
    type Model = TfsModel;
    type Index = Idx;

    fn cfg_label(cfg: &TfsCfg) -> String {
        format!("bm25-b{}", cfg.bucket_overload_size)
    }

    fn op_kind(op: &TfsOp) -> String {
        match op {
            TfsOp::Insert(..) => "insert",
            TfsOp::RemoveOriginal(..) => "remove",
            TfsOp::RemoveWith(..) => "remove-with-text",
            TfsOp::Purge(..) => "purge_ids",
        }
        .to_string()
    }

    fn new_index(cfg: &TfsCfg) -> Idx {
        BM25Index::new(
            "vindex".to_string(),
            default_tokenizer(),
            Some(BM25Config {
                bm25: BM25Params::default(),
                bucket_overload_size: cfg.bucket_overload_size,
            }),
        )
    }

    fn apply(idx: &Idx, _cfg: &TfsCfg, op: &TfsOp, m: &mut TfsModel, now: u64) -> Result<(), Fail> {
        match op {
            TfsOp::Insert(id, t) => {
                let toks = text_tokens(*t);
                // 0 = ok, 1 = tokenize failed, 2 = already exists
                let want = if toks.is_empty() {
                    1
                } else if m.docs.contains_key(id) {
                    2
                } else {
                    m.docs.insert(*id, (*t, toks.clone()));
                    m.note_insert(*id, toks);
                    m.removed_with_full_text.remove(id);
                    // entries for tokens of the new text are refreshed by the insert
                    m.stale.retain(|(i, tok)| !(i == id && toks.contains_key(tok)));
                    m.stale_old.retain(|(i, tok)| !(i == id && toks.contains_key(tok)));
                    // what is still stale for this id now belongs to an earlier incarnation
                    let old: Vec<(u64, String)> = m.stale.iter().filter(|(i, _)| i == id).cloned().collect();
                    m.stale_old.extend(old);
                    0
                };
                let got = idx.insert(*id, TEXTS[*t as usize], now);
                let g = match &got {
                    Ok(()) => 0,
                    Err(BM25Error::TokenizeFailed { .. }) => 1,
                    Err(BM25Error::AlreadyExists { .. }) => 2,
                    Err(_) => 3,
                };
                if g == want {
                    Ok(())
                } else {
                    Err(Fail::new("insert:return", format!("{op:?}: got {got:?}, model code {want}")))
                }
            }
            TfsOp::RemoveOriginal(id) => {
                let t = m.docs.get(id).map(|(t, _)| *t).unwrap_or(0);
                let want = m.remove_with(*id, text_tokens(t));
                let got = idx.remove(*id, TEXTS[t as usize], now);
                if got == want {
                    Ok(())
                } else {
                    Err(Fail::new("remove:return", format!("{op:?}: got {got}, model {want}")))
                }
            }
            TfsOp::RemoveWith(id, t) => {
                let want = m.remove_with(*id, text_tokens(*t));
                let got = idx.remove(*id, TEXTS[*t as usize], now);
                if got == want {
                    Ok(())
                } else {
                    Err(Fail::new("remove:return", format!("{op:?}: got {got}, model {want}")))
                }
            }
            TfsOp::Purge(ids) => {
                let set: BTreeSet<u64> = ids.iter().copied().collect();
                let mut want = 0;
                for id in &set {
                    if m.docs.remove(id).is_some() {
                        want += 1;
                        m.removed_with_full_text.remove(id);
                    }
                }
                // purge sweeps every posting list
                m.note_purge(&set);
                m.stale.retain(|(i, _)| !set.contains(i));
                m.stale_old.retain(|(i, _)| !set.contains(i));
                let got = idx.purge_ids(&set, now);
                if got == want {
                    Ok(())
                } else {
                    Err(Fail::new("purge_ids:return", format!("{op:?}: got {got}, model {want}")))
                }
            }
        }
    }

    fn compact(idx: &Idx) {
        let _ = idx.compact_buckets();
    }

    fn flush(idx: &Idx, now: u64, fail_at: Option<usize>, hook: Option<(usize, &dyn Fn())>) -> FlushOut {
        let puts: RefCell<Vec<JEntry>> = RefCell::new(Vec::new());
        let count = Cell::new(0usize);
        let res = block_on(idx.flush_with(
            now,
            |data: Vec<u8>| {
                let k = count.get();
                count.set(k + 1);
                if let Some((at, f)) = hook
                    && at == k
                {
                    f();
                }
                let r: Result<(), anda_db_tfs::BoxError> = if Some(k) == fail_at {
                    Err("injected metadata write error".into())
                } else {
                    puts.borrow_mut().push(JEntry::Put(ObjKey::Meta, data));
                    Ok(())
                };
                std::future::ready(r)
            },
            |obj: BucketObject, data: Vec<u8>| {
                let k = count.get();
                count.set(k + 1);
                if let Some((at, f)) = hook
                    && at == k
                {
                    f();
                }
                let r: Result<(), anda_db_tfs::BoxError> = if Some(k) == fail_at {
                    Err("injected bucket write error".into())
                } else {
                    puts.borrow_mut()
                        .push(JEntry::Put(ObjKey::Bucket(obj.bucket_id, obj.generation), data));
                    Ok(())
                };
                std::future::ready(r)
            },
        ));
        FlushOut {
            puts: puts.into_inner(),
            result: res
                .map(|o| o.obsolete.iter().map(|b| ObjKey::Bucket(b.bucket_id, b.generation)).collect())
                .map_err(|e| format!("{e:?}")),
        }
    }

    fn load(_cfg: &TfsCfg, store: &Store) -> Result<Idx, String> {
        let meta = store.get(&ObjKey::Meta).ok_or_else(|| "no metadata object".to_string())?;
        block_on(BM25Index::load_all(default_tokenizer(), &meta[..], async |obj: BucketObject| {
            Ok(store.get(&ObjKey::Bucket(obj.bucket_id, obj.generation)).cloned())
        }))
        .map_err(|e| format!("{e:?}"))
    }

    fn on_load(m: &mut TfsModel) {
        // load prunes posting entries of documents that are not indexed
        let docs = &m.docs;
        m.stale.retain(|(id, _)| docs.contains_key(id));
        m.stale_old.retain(|(id, _)| docs.contains_key(id));
        m.multi_stale.retain(|(id, _)| docs.contains_key(id));
    }

    fn lenient_for(kind: &str) -> bool {
        kind.contains("stale-posting-of-reinserted-id")
    }

    fn set_lenient(m: &mut TfsModel) {
        m.lenient = true;
    }

    fn light_battery(idx: &Idx, _cfg: &TfsCfg, m: &TfsModel, evals: &mut u64) -> Result<(), Fail> {
        // A document the model does not have (ids 1..=5 are all the ids ever used).
        // Classification only: when every such id has a posting entry left by an
        // EARLIER incarnation (removed with non-original text, inserted again,
        // removed again), the case is one defect irrespective of the history.
        let surplus: Vec<u64> = (1..=5u64)
            .filter(|id| !m.docs.contains_key(id) && idx.get_doc_tokens(*id).is_some())
            .collect();
        *evals += 5;
        if !surplus.is_empty() {
            let earlier = surplus.iter().all(|id| m.stale_old.iter().any(|(i, _)| i == id));
            let kind = if !earlier {
                "doc-not-in-model"
            } else if surplus.iter().all(|id| m.removed_with_full_text.contains(id)) {
                SIG_RESURRECT_KIND
            } else {
                SIG_RESURRECT_KIND_B
            };
            return Err(Fail::new(
                kind,
                format!("documents {surplus:?} are indexed (get_doc_tokens) but not in the model {}", show_model(m)),
            ));
        }
        // counters
        *evals += 2;
        if idx.len() != m.docs.len() || idx.is_empty() != m.docs.is_empty() {
            return Err(Fail::new("len", format!("len {} vs model {}", idx.len(), show_model(m))));
        }
        let total: usize = m.docs.values().map(|(_, t)| t.values().sum::<usize>()).sum();
        for id in 1..=5u64 {
            *evals += 1;
            let want = m.docs.get(&id).map(|(_, t)| t.values().sum::<usize>());
            let got = idx.get_doc_tokens(id);
            if got != want {
                return Err(Fail::new("doc_tokens", format!("doc {id}: token count {got:?}, model {want:?}")));
            }
        }
        let st = idx.stats();
        *evals += 1;
        let want_avg = if m.docs.is_empty() { 0.0 } else { total as f32 / m.docs.len() as f32 };
        if st.num_elements != m.docs.len() as u64 || st.avg_doc_tokens.to_bits() != want_avg.to_bits() {
            return Err(Fail::new(
                "stats:counters",
                format!(
                    "num_elements {} avg_doc_tokens {} ; model docs {} total tokens {} avg {}",
                    st.num_elements,
                    st.avg_doc_tokens,
                    m.docs.len(),
                    total,
                    want_avg
                ),
            ));
        }
        // every single term (exact retrieval set), one 3-word query
        // + ranking differential: each list must be what a fresh index holding the model's documents returns
        let fresh = fresh_light(m);
        let skip = live_stale_tokens(m);
        for t in 0..TERMS.len() {
            let got = check_search(idx, m, &[t], false, false, evals)?;
            if !skip.contains(term_token(t)) {
                *evals += 1;
                same_ranking("search:1w", TERMS[t], &got, &fresh.terms[t], m, &BTreeSet::from([t]))?;
            }
        }
        check_search(idx, m, &[1, 2, 3], false, false, evals)?;
        // a handful of boolean shapes (the complete tree batteries are in the deep battery)
        for (i, q) in light_trees().into_iter().chain(multi_not_trees(false)).enumerate() {
            let got = check_tree_once(idx, m, &q, evals)?;
            let mut ts = BTreeSet::new();
            q.terms(&mut ts);
            if !mentions(&ts, &skip) {
                *evals += 1;
                same_ranking(&format!("advanced:{}", q.shape()), &q.render(), &got, &fresh.trees[i], m, &ts)?;
            }
        }
        Ok(())
    }

    fn deep_battery(idx: &Idx, _cfg: &TfsCfg, m: &TfsModel, depth: usize, evals: &mut u64) -> Result<(), Fail> {
        // plain search: every 1- and 2-word query with repeat + every k, some 3-word ones
        // each full list additionally = the list of a fresh index holding the model's documents
        let fresh = fresh_index(m);
        let skip = live_stale_tokens(m);
        for a in 0..TERMS.len() {
            let got = check_search(idx, m, &[a], true, true, evals)?;
            if !skip.contains(term_token(a)) {
                *evals += 2;
                same_ranking("search:1w", TERMS[a], &got, &fresh.search(TERMS[a], BIG_K, None), m, &BTreeSet::from([a]))?;
            }
            for b in 0..TERMS.len() {
                let got = check_search(idx, m, &[a, b], true, true, evals)?;
                if !skip.contains(term_token(a)) && !skip.contains(term_token(b)) {
                    let qs = format!("{} {}", TERMS[a], TERMS[b]);
                    *evals += 2;
                    same_ranking("search:2w", &qs, &got, &fresh.search(&qs, BIG_K, None), m, &BTreeSet::from([a, b]))?;
                }
            }
        }
        let t2 = q_trees(2);
        // every depth<=2 tree, default parameters, repeat + every k
        for q in &t2 {
            let got = check_tree(idx, m, q, "default", &None, true, evals)?;
            let mut ts = BTreeSet::new();
            q.terms(&mut ts);
            if !mentions(&ts, &skip) {
                let qs = q.render();
                *evals += 2;
                same_ranking(&format!("advanced:{}", q.shape()), &qs, &got, &adv(&fresh, &qs, BIG_K, &None)?, m, &ts)?;
            }
        }
        // ANDs with several negated operands in every operand order (set + order, one call each)
        for q in multi_not_trees(true) {
            check_tree_once(idx, m, &q, evals)?;
        }
        // parameter sets: quick = terms + the light shapes; thorough = every depth<=2 tree
        let under_params: Vec<Q> = if depth >= 3 {
            t2.clone()
        } else {
            let mut v = terms_as_q();
            v.extend(light_trees());
            v
        };
        for (pname, p) in params_list().into_iter().skip(1) {
            for q in &under_params {
                check_tree(idx, m, q, pname, &p, true, evals)?;
            }
        }
        // deeper trees: default parameters, repeat + every k
        if depth >= 3 {
            for q in q_trees(depth).iter().skip(t2.len()) {
                check_tree(idx, m, q, "default", &None, true, evals)?;
            }
        }
        // last, because a difference here is the recorded hash-order finding and ends the battery
        check_search(idx, m, &[0, 1, 2], true, false, evals)?;
        check_search(idx, m, &[3, 2, 1], true, false, evals)?;
        check_search(idx, m, &[0, 1, 2, 3], true, false, evals)?;
        Ok(())
    }

    fn model_key(m: &TfsModel) -> String {
        show_model(m)
    }

    fn flags(idx: &Idx) -> String {
        let md = idx.metadata();
        format!(
            "mb{} d{} p{} m{:?}",
            md.stats.max_bucket_id,
            idx.has_dirty_buckets() as u8,
            idx.has_pending_metadata_flush() as u8,
            md.buckets.keys().collect::<Vec<_>>()
        )
    }

    fn canon_bucket(_cfg: &TfsCfg, data: &[u8]) -> String {
        match cbor2::from_slice::<BucketMirror>(data) {
            Ok(b) => {
                let mut s = String::new();
                for (tok, (_, mut entries)) in b.postings {
                    entries.sort_unstable();
                    s.push_str(&format!("{tok}={entries:?};"));
                }
                s.push_str(&format!("d{:?}", b.doc_tokens));
                s
            }
            Err(_) => format!("raw{:016x}", vcore::util::fnv64(data)),
        }
    }

    fn canonical_signature(kind: &str) -> Option<String> {
        if kind.contains("stale-posting-of-reinserted-id") {
            Some("C11/stale-posting-of-reinserted-id".to_string())
        } else if kind.contains(KIND_STALE_DUP) {
            Some(SIG_STALE_DUP.to_string())
        } else if kind.contains("multiword-repeat-hash-order") {
            Some(SIG_HASH_ORDER.to_string())
        } else if kind.contains(SIG_RESURRECT_KIND) && observed_after_load(kind) {
            Some(SIG_RESURRECT.to_string())
        } else if kind.contains(SIG_RESURRECT_KIND_B) && observed_after_load(kind) {
            Some(SIG_RESURRECT_B.to_string())
        } else {
            None
        }
    }

    fn to_legacy(_cfg: &TfsCfg, store: &Store) -> Option<Store> {
        let meta = store.get(&ObjKey::Meta)?;
        let mut w: MetaWrap = cbor2::from_slice(meta).ok()?;
        let mut out = Store::new();
        for (id, generation) in &w.metadata.buckets {
            let d = store.get(&ObjKey::Bucket(*id, *generation))?;
            out.insert(ObjKey::Bucket(*id, 0), d.clone());
        }
        w.metadata.buckets.clear();
        let mut buf = Vec::new();
        cbor2::to_writer(&w, &mut buf).ok()?;
        out.insert(ObjKey::Meta, buf);
        Some(out)
    }
}

pub fn tree_count(depth: usize) -> usize {
    q_trees(depth).len()
}

/// Simplest first. `ids`: 1..=ids are used.
pub fn alphabet(ids: u64, texts: &[u8], nonorig: &[u8]) -> Vec<HOp<TfsOp>> {
    let mut a = Vec::new();
    for id in 1..=ids {
        for t in texts {
            a.push(HOp::Do(TfsOp::Insert(id, *t)));
        }
    }
    a.push(HOp::Do(TfsOp::Insert(1, BAD_TEXT)));
    for id in 1..=ids {
        a.push(HOp::Do(TfsOp::RemoveOriginal(id)));
    }
    a.push(HOp::Flush);
    a.push(HOp::FlushLoad);
    a.push(HOp::Compact);
    for id in 1..=ids {
        for t in nonorig {
            a.push(HOp::Do(TfsOp::RemoveWith(id, *t)));
        }
    }
    a.push(HOp::Do(TfsOp::Purge(vec![1])));
    a.push(HOp::Do(TfsOp::Purge(vec![2, 3])));
    a.push(HOp::Do(TfsOp::Purge(vec![1, 2, 3, 4])));
    a.push(HOp::Do(TfsOp::Purge(vec![])));
    a.push(HOp::Do(TfsOp::Purge(vec![4])));
    a
}

/// Start states whose ops are executed but not enumerated: three documents
/// over the whole vocabulary, inserted in an order that spreads the four
/// terms over >= 2 buckets for every bucket size used (32, 40, 64), so that
/// `compact_buckets` really re-bins and a removal touches several buckets.
pub fn preludes() -> Vec<(&'static str, Vec<HOp<TfsOp>>)> {
    let corpus = vec![
        HOp::Do(TfsOp::Insert(1, 2)), // beta gamma delta
        HOp::Do(TfsOp::Insert(3, 5)), // delta alpha
        HOp::Do(TfsOp::Insert(2, 1)), // alpha beta
    ];
    let mut flushed = corpus.clone();
    flushed.push(HOp::Flush);
    let mut compacted = corpus.clone();
    compacted.extend([HOp::Compact, HOp::Flush]);
    // fragmented by a document that came and went, then compacted and flushed
    let mut fragmented = vec![HOp::Do(TfsOp::Insert(4, 2)), HOp::Do(TfsOp::Insert(2, 1)), HOp::Flush];
    fragmented.extend([
        HOp::Do(TfsOp::RemoveOriginal(4)),
        HOp::Do(TfsOp::Insert(1, 5)),
        HOp::Do(TfsOp::Insert(3, 4)),
        HOp::Compact,
        HOp::Flush,
    ]);
    vec![
        ("prelude-3docs", corpus),
        ("prelude-3docs-flushed", flushed),
        ("prelude-3docs-compacted-flushed", compacted),
        ("prelude-fragmented-compacted-flushed", fragmented),
    ]
}

/// Where the histories of a job start.
#[derive(Clone, Copy, Debug)]
pub enum Origin {
    Fresh,
    /// index into `legacy_seeds()`
    Legacy(usize),
    /// index into `preludes()`
    Prelude(usize),
}

pub fn origin_start(o: Origin) -> (crate::engine::Start<TfsOp>, String) {
    use crate::engine::Start;
    match o {
        Origin::Fresh => (Start::Fresh, "fresh".to_string()),
        Origin::Legacy(i) => {
            let (name, seed) = legacy_seeds().swap_remove(i);
            (Start::Legacy(seed), name.to_string())
        }
        Origin::Prelude(i) => {
            let (name, ops) = preludes().swap_remove(i);
            (Start::Prelude(ops), name.to_string())
        }
    }
}

pub fn legacy_seeds() -> Vec<(&'static str, Vec<HOp<TfsOp>>)> {
    vec![(
        "legacy-3docs",
        vec![
            HOp::Do(TfsOp::Insert(1, 2)),
            HOp::Do(TfsOp::Insert(2, 3)),
            HOp::Do(TfsOp::Insert(3, 5)),
        ],
    )]
}

// ------------------------------------------------- large corpus (NOT guard)
//
// `try_search_advanced` refuses a query that would materialise the complement
// of a NOT over more than 10 000 documents ("logical NOT complement over N
// documents exceeds maximum 10000"); `search_advanced` turns the refusal into
// an empty list. A NOT that only filters the positive operands of its AND
// (`b AND NOT a`, in any operand order) materialises nothing and must be
// answered. One index is built once to 10 000 documents, checked, and then
// gets document 10 001.

pub const NOT_GUARD_DOCS: usize = 10_000;

/// Every ordered pair and a set of ordered triples over the literals
/// {term, NOT term}: every operand order, NOT in every position; plus the
/// nested fixed trees of the light battery.
pub fn guard_trees() -> Vec<Q> {
    let lit = |i: usize, neg: bool| if neg { Q::Not(Box::new(Q::T(i))) } else { Q::T(i) };
    let mut out = Vec::new();
    let t = TERMS.len();
    for i in 0..t {
        out.push(lit(i, false));
        out.push(lit(i, true));
    }
    for a in 0..2 * t {
        for b in 0..2 * t {
            let (x, y) = (lit(a / 2, a % 2 == 1), lit(b / 2, b % 2 == 1));
            out.push(Q::And(vec![x.clone(), y.clone()]));
            out.push(Q::Or(vec![x, y]));
        }
    }
    // three term triples (one with the never-indexed term) x 6 orders x 8 negation masks
    for tri in [[0usize, 1, 2], [1, 3, 4], [2, 3, 0]] {
        for perm in [[0usize, 1, 2], [0, 2, 1], [1, 0, 2], [1, 2, 0], [2, 0, 1], [2, 1, 0]] {
            for mask in 0..8u8 {
                let ops: Vec<Q> = (0..3).map(|p| lit(tri[perm[p]], mask & (1 << perm[p]) != 0)).collect();
                out.push(Q::And(ops.clone()));
                out.push(Q::Or(ops));
            }
        }
    }
    // one level down: (NOT a AND b) OR c, c AND (NOT a AND b) and the mirrored forms
    for (a, b, c) in [(0usize, 1usize, 2usize), (3, 0, 1)] {
        for inner in [vec![lit(a, true), lit(b, false)], vec![lit(b, false), lit(a, true)]] {
            out.push(Q::Or(vec![Q::And(inner.clone()), lit(c, false)]));
            out.push(Q::Or(vec![lit(c, false), Q::And(inner.clone())]));
            out.push(Q::And(vec![Q::And(inner.clone()), lit(c, false)]));
            out.push(Q::And(vec![lit(c, false), Q::And(inner.clone())]));
            out.push(Q::Not(Box::new(Q::And(inner.clone()))));
            out.push(Q::And(vec![lit(c, false), Q::Not(Box::new(Q::And(inner)))]));
        }
    }
    out.extend(multi_not_trees(false));
    out
}

impl Q {
    /// The documented condition for a refusal, independent of operand order:
    /// evaluating the tree needs the complement of some NOT as a set of its
    /// own. A NOT operand of an AND that also has a positive operand is a
    /// filter (its inside is evaluated as an ordinary query); every other NOT
    /// - alone, under OR, or in an AND of NOTs only - is a complement.
    fn needs_not_complement(&self) -> bool {
        match self {
            Q::T(_) => false,
            Q::Not(_) => true,
            Q::Or(xs) => xs.iter().any(|x| x.needs_not_complement()),
            Q::And(xs) if xs.len() == 1 => xs[0].needs_not_complement(),
            Q::And(xs) => {
                if xs.iter().all(|x| matches!(x, Q::Not(_))) {
                    return true;
                }
                xs.iter().any(|x| match x {
                    Q::Not(inner) => inner.needs_not_complement(),
                    other => other.needs_not_complement(),
                })
            }
        }
    }
    /// rendering with the operands of every AND / OR sorted: equal for trees
    /// that differ in operand order only
    fn order_free(&self) -> String {
        match self {
            Q::T(i) => TERMS[*i].to_string(),
            Q::Not(x) => format!("NOT({})", x.order_free()),
            Q::And(xs) | Q::Or(xs) => {
                let mut v: Vec<String> = xs.iter().map(|x| x.order_free()).collect();
                v.sort();
                format!("{}({})", if matches!(self, Q::And(_)) { "AND" } else { "OR" }, v.join(","))
            }
        }
    }
}

pub struct LargeOut {
    pub evaluations: u64,
    pub trees: u64,
    pub refused: u64,
    pub answered: u64,
    pub order_classes: u64,
    /// (failure class, summary, replay)
    pub failures: Vec<(String, String, serde_json::Value)>,
}

fn few(s: &BTreeSet<u64>) -> String {
    let v: Vec<u64> = s.iter().take(6).copied().collect();
    format!("{} ids, first {v:?}", s.len())
}

/// One tree on the large index. Ok(true) = refused (allowed), Ok(false) = answered correctly.
fn check_guarded_tree(idx: &Idx, m: &TfsModel, q: &Q, evals: &mut u64) -> Result<bool, Fail> {
    let n = m.docs.len();
    let qs = q.render();
    let shape = q.shape();
    let k = n + 1;
    let strict = idx.try_search_advanced(&qs, k, None);
    let lax = idx.search_advanced(&qs, k, None);
    *evals += 2;
    let list = match strict {
        Err(e) => {
            let msg = format!("{e:?}");
            if !lax.is_empty() {
                return Err(Fail::new(
                    format!("large:{shape}:search_advanced-answers-what-try_search_advanced-refuses"),
                    format!("query {qs:?} over {n} documents: {msg}, search_advanced returned {} results", lax.len()),
                ));
            }
            if n <= NOT_GUARD_DOCS || !msg.contains("NOT complement") {
                return Err(Fail::new(
                    format!("large:{shape}:error"),
                    format!("query {qs:?} over {n} documents: {msg}"),
                ));
            }
            if !q.needs_not_complement() {
                return Err(Fail::new(
                    format!("large:{shape}:refused-although-every-NOT-only-filters-an-AND"),
                    format!(
                        "query {qs:?} over {n} documents was refused ({msg}); every NOT in it is an operand of an AND with a positive \
                         operand, no complement has to be built (the model answer has {})",
                        few(&q.eval(m))
                    ),
                ));
            }
            return Ok(true);
        }
        Ok(l) => l,
    };
    if bits(&lax) != bits(&list) {
        return Err(Fail::new(
            format!("large:{shape}:search_advanced-differs-from-try_search_advanced"),
            format!("query {qs:?} over {n} documents: {} vs {} results", lax.len(), list.len()),
        ));
    }
    let want = q.eval(m);
    let ids: BTreeSet<u64> = list.iter().map(|(i, _)| *i).collect();
    if ids.len() != list.len() {
        return Err(Fail::new(format!("large:{shape}:duplicate-id"), format!("query {qs:?} over {n} documents")));
    }
    if ids != want {
        let missing: BTreeSet<u64> = want.difference(&ids).copied().collect();
        let surplus: BTreeSet<u64> = ids.difference(&want).copied().collect();
        return Err(Fail::new(
            format!("large:{shape}:set"),
            format!("query {qs:?} over {n} documents: missing {}, surplus {}", few(&missing), few(&surplus)),
        ));
    }
    for (id, s) in &list {
        if !s.is_finite() || *s < 0.0 {
            return Err(Fail::new(format!("large:{shape}:score-not-finite-nonneg"), format!("query {qs:?}: doc {id} score {s}")));
        }
    }
    for w in list.windows(2) {
        let ((i1, s1), (i2, s2)) = (w[0], w[1]);
        if !(s1 > s2 || (s1 == s2 && i1 < i2)) {
            return Err(Fail::new(
                format!("large:{shape}:order"),
                format!("query {qs:?} over {n} documents: ({i1},{s1}) before ({i2},{s2})"),
            ));
        }
    }
    Ok(false)
}

/// The large-corpus phase: 10 000 documents (texts cycle through the six
/// indexable TEXTS), every tree of `guard_trees`, then one more document and
/// the same trees again. `only`: replay of one (documents, query) case.
pub fn large_corpus_scenario(only: Option<(usize, String)>) -> LargeOut {
    let mut out = LargeOut { evaluations: 0, trees: 0, refused: 0, answered: 0, order_classes: 0, failures: Vec::new() };
    let idx = BM25Index::new("vindex-large".to_string(), default_tokenizer(), None);
    let mut m = TfsModel::default();
    let trees = guard_trees();
    let mut next = 1u64;
    for n in [NOT_GUARD_DOCS, NOT_GUARD_DOCS + 1] {
        while m.docs.len() < n {
            let t = ((next - 1) % 6) as u8;
            idx.insert(next, TEXTS[t as usize], next).expect("large corpus insert");
            m.docs.insert(next, (t, text_tokens(t).clone()));
            next += 1;
        }
        out.evaluations += 1;
        if idx.len() != n {
            out.failures.push((
                "large:len".into(),
                format!("C11 hist large corpus: len {} after {n} inserts", idx.len()),
                serde_json::json!({"scenario": "large-corpus", "docs": n}),
            ));
            continue;
        }
        // refused / answered per operand-order class
        let mut classes: BTreeMap<String, (bool, String)> = BTreeMap::new();
        for q in &trees {
            let qs = q.render();
            if let Some((docs, query)) = &only
                && (*docs != n || *query != qs)
            {
                continue;
            }
            out.trees += 1;
            let replay = serde_json::json!({"scenario": "large-corpus", "docs": n, "query": qs});
            match check_guarded_tree(&idx, &m, q, &mut out.evaluations) {
                Ok(refused) => {
                    if refused {
                        out.refused += 1;
                    } else {
                        out.answered += 1;
                    }
                    match classes.get(&q.order_free()) {
                        None => {
                            classes.insert(q.order_free(), (refused, qs));
                        }
                        Some((r, other)) if *r != refused => {
                            let word = |r: bool| if r { "refused" } else { "answered" };
                            out.failures.push((
                                format!("large:{}:operand-order-decides-refusal", q.shape()),
                                format!(
                                    "C11 hist large corpus ({n} documents): {qs:?} is {} but {other:?}, the same operands in another order, is {}",
                                    word(refused),
                                    word(*r)
                                ),
                                replay,
                            ));
                        }
                        Some(_) => {}
                    }
                }
                Err(f) => out.failures.push((
                    f.kind.clone(),
                    format!("C11 hist large corpus ({n} documents, text of document i = TEXTS[(i-1) % 6]): [{}] {}", f.kind, f.detail),
                    replay,
                )),
            }
        }
        out.order_classes += classes.len() as u64;
    }
    out
}

//! C11 (filled in below)

//! C17 part `fault` — one transient storage fault, then business as usual.
//! FAULT: for every statement template, every backend mutation j of its
//! uninterrupted run and both fault answers (ErrBefore: the call fails and
//! nothing is written; ErrAfter: the write lands and an error is returned)
//! the j-th mutation attempt of the statement is answered that way ONCE on a
//! real Nexus over a `CtlStore`. The store is healthy again afterwards and a
//! CONTINUATION of fault-free modifying statements runs through the same live
//! Nexus (variant `live`, then a clean close + reopen) or through a Nexus
//! reopened right after the faulted statement (variant `reopen`).
//!
//! Oracle, on the full DUMP (AS OF every sequence number the history can
//! reach, burned ones included) taken after every statement:
//! * the FAULTED statement is all-or-nothing: the Space is exactly as it was
//!   before it, or exactly as the uninterrupted run leaves it (commit times
//!   masked). Which of the two an *error* answer goes with is not judged — the
//!   caller of a statement hit by an I/O error cannot know — but an answer
//!   `committed` goes with the after-state only;
//! * every CONTINUATION statement is judged by the shared C17 step oracle
//!   (refused => everything exactly as it was; accepted => one fresh sequence,
//!   one journal row, versions +1 once, the past untouched, identity), and,
//!   when it is ACCEPTED from a state of the fault-free run (the faulted
//!   statement left nothing, or everything), it must end as the SEQUENTIAL
//!   MODEL says: same outcome class and same present state as in the
//!   fault-free reference run (ids ranked per kind, commit stamps masked);
//! * a clean reopen shows the same DUMP as the live Nexus showed.

use anda_kip::Json;
use serde_json::json;
use std::collections::BTreeMap;
use vcore::ctlstore::{self, Answer, Content};
use vcore::{Run, Violation, util};
use vnexus::dump::{self, Dump};
use vnexus::fixture::{Mode, Nx, Outcome, Stmt, Who, World};
use vnexus::oracle::{Judged, check_step};

struct Template {
    name: &'static str,
    text: &'static str,
}

fn templates() -> Vec<Template> {
    let t = |name, text| Template { name, text };
    vec![
        // one existing row rewritten
        t("rename-a", r#"UPDATE ?c SET FIELDS {name: "Ann B."} WHERE { ?c CONCEPT {key: "a"} }"#),
        // every kind at once, new rows only
        t("all-kinds", r#"MUTATE {
            CREATE CONCEPT ?c { TYPE "Person" NAME "Tri" SET FIELDS {key: "tri"} }
            CREATE EVIDENCE ?e { SET FIELDS {evidence_class: "tool_result", payload: "tri"} SET STRUCTURAL { ("generated_by", ?act) } }
            CREATE ACTIVITY ?act { SET FIELDS {activity_class: "tool_execution"} SET STRUCTURAL { ("outputs", ?e) } }
            ENSURE PROPOSITION ?p (:a_ref, "prefers", ?c)
            CREATE ASSERTION ?as { SET FIELDS {proposition: ?p, asserted_by: ?c, stance: "support", mode: "stated", confidence: 0.6, asserted_at: "2026-02-01T00:00:00Z"}
                                   SET STRUCTURAL { ("evidence", ?e) {role: "support"} } }
        }"#),
        // an UPSERT that hits (the rewrite) and one that misses (a new row)
        t("upsert-hit-and-miss", r#"MUTATE {
            UPSERT CONCEPT ?x { MATCH {type: "Person", key: "a"} SET FIELDS {name: "Alicia"} }
            UPSERT CONCEPT ?y { MATCH {type: "Person", key: "c"} SET FIELDS {name: "Cy"} }
        }"#),
        // rewrites of three existing rows
        t("rename-archive-tombstone", r#"MUTATE {
            UPDATE ?c SET FIELDS {name: "Ann B."} WHERE { ?c CONCEPT {key: "a"} }
            ARCHIVE ?c2 WHERE { ?c2 CONCEPT {key: "b"} }
            TOMBSTONE ?c3 WHERE { ?c3 CONCEPT {key: "d"} }
        }"#),
        // a new Assertion plus a lifecycle rewrite of an old one
        t("supersede", r#"MUTATE {
            CREATE ASSERTION ?new { SET FIELDS {proposition: :p, asserted_by: :a, stance: "reject", mode: "stated", confidence: 0.8, asserted_at: "2026-02-02T00:00:00Z"} }
            SUPERSEDE ASSERTION :as1 BY ?new
        }"#),
    ]
}

/// The fault-free statements that follow. The first writes a row of every
/// kind (so every element collection, the version log, the journal and the
/// Space row are written again); the second rewrites two existing rows.
const CONTINUATION: [(&str, &str); 2] = [
    ("then-all-kinds", r#"MUTATE {
        CREATE CONCEPT ?c { TYPE "Person" NAME "Kay" SET FIELDS {key: "kay"} }
        CREATE EVIDENCE ?e { SET FIELDS {evidence_class: "tool_result", payload: "kay"} SET STRUCTURAL { ("generated_by", ?act) } }
        CREATE ACTIVITY ?act { SET FIELDS {activity_class: "tool_execution"} SET STRUCTURAL { ("outputs", ?e) } }
        ENSURE PROPOSITION ?p (?c, "rel", :n_ref)
        CREATE ASSERTION ?as { SET FIELDS {proposition: ?p, asserted_by: ?c, stance: "support", mode: "stated", confidence: 0.6, asserted_at: "2026-02-05T00:00:00Z"}
                               SET STRUCTURAL { ("evidence", ?e) {role: "support"} } }
    }"#),
    ("then-two-rewrites", r#"MUTATE {
        UPDATE ?n SET ATTRIBUTES {summary: "after"} WHERE { ?n CONCEPT {key: "n"} }
        UPDATE ?m SET ATTRIBUTES {summary: "later"} WHERE { ?m CONCEPT {key: "m"} }
    }"#),
];

fn stmt(text: &str, state: &Dump) -> Stmt {
    Stmt { text: text.to_string(), params: dump::params_from(state), mode: Mode::Commit, who: Who::System }
}

// ---------------------------------------------------------------- the model

/// The present state with everything a run-specific stamp masked and every
/// element id replaced by its rank among the ids of its kind: two runs that
/// created the same elements in the same order agree on it even when one of
/// them burned sequence numbers or ids on a refused statement.
fn normalised_present(state: &Dump) -> Json {
    let views = dump::by_id(state);
    let mut ranks: BTreeMap<String, String> = BTreeMap::new();
    for letter in ["C", "P", "A", "E", "X"] {
        let mut ids: Vec<&String> = views.keys().filter(|id| id.starts_with(letter) && id.as_bytes().get(1) == Some(&b'-')).collect();
        ids.sort_by_key(|id| id[2..].parse::<u64>().unwrap_or(0));
        for (rank, id) in ids.into_iter().enumerate() {
            ranks.insert(id.clone(), format!("{letter}#{rank}"));
        }
    }
    let mut out = BTreeMap::new();
    for (id, view) in &views {
        out.insert(ranks[id].clone(), rename_ids(&mask_stamps(view), &ranks));
    }
    json!(out)
}

fn mask_stamps(value: &Json) -> Json {
    match value {
        Json::Object(map) => Json::Object(
            map.iter()
                .map(|(k, v)| {
                    let stamp = matches!(
                        k.as_str(),
                        "created_at" | "updated_at" | "committed_at" | "retracted_at" | "superseded_at" | "archived_at"
                            | "created_tx" | "updated_tx" | "space_seq" | "tx_id" | "snapshot_seq"
                    );
                    (k.clone(), if stamp && !v.is_null() { json!("<stamp>") } else { mask_stamps(v) })
                })
                .collect(),
        ),
        Json::Array(items) => Json::Array(items.iter().map(mask_stamps).collect()),
        other => other.clone(),
    }
}

/// Replaces every element id token (`C-12`, also inside longer strings such
/// as tuple keys) by its rank name.
fn rename_ids(value: &Json, ranks: &BTreeMap<String, String>) -> Json {
    match value {
        Json::String(text) => Json::String(rename_in_text(text, ranks)),
        Json::Array(items) => Json::Array(items.iter().map(|v| rename_ids(v, ranks)).collect()),
        Json::Object(map) => Json::Object(map.iter().map(|(k, v)| (rename_in_text(k, ranks), rename_ids(v, ranks))).collect()),
        other => other.clone(),
    }
}

fn rename_in_text(text: &str, ranks: &BTreeMap<String, String>) -> String {
    let bytes = text.as_bytes();
    let mut out = String::new();
    let mut i = 0;
    while i < bytes.len() {
        let boundary = i == 0 || !bytes[i - 1].is_ascii_alphanumeric();
        if boundary && matches!(bytes[i], b'C' | b'P' | b'A' | b'E' | b'X') && bytes.get(i + 1) == Some(&b'-') {
            let mut j = i + 2;
            while j < bytes.len() && bytes[j].is_ascii_digit() {
                j += 1;
            }
            if j > i + 2 && (j == bytes.len() || !bytes[j].is_ascii_alphanumeric()) {
                if let Some(rank) = ranks.get(&text[i..j]) {
                    out.push_str(rank);
                    i = j;
                    continue;
                }
            }
        }
        // `text` is valid UTF-8 and the match above only consumes ASCII
        let ch = text[i..].chars().next().expect("char");
        out.push(ch);
        i += ch.len_utf8();
    }
    out
}

/// How a statement ended, for the model: committed / no_effect / refused.
fn outcome_class(outcome: &Outcome) -> &'static str {
    match outcome {
        Outcome::Committed { .. } => "committed",
        Outcome::NoEffect { .. } => "no_effect",
        Outcome::Dry => "dry",
        Outcome::Refused { .. } => "refused",
    }
}

/// One step of the fault-free reference run.
struct ModelStep {
    outcome: &'static str,
    present: Json,
}

/// The fault-free run of `[template] + CONTINUATION` (or of CONTINUATION
/// alone) on a fresh Nexus: the sequential model.
fn reference(content: &Content, template: Option<&Template>) -> Vec<ModelStep> {
    let nx = Nx::open(content);
    let mut out = Vec::new();
    let texts: Vec<&str> = template.iter().map(|t| t.text).chain(CONTINUATION.iter().map(|c| c.1)).collect();
    for text in texts {
        let now = dump::elements(&nx, None);
        let (_, outcome) = nx.exec(&stmt(text, &now));
        out.push(ModelStep { outcome: outcome_class(&outcome), present: normalised_present(&dump::elements(&nx, None)) });
    }
    out
}

/// Commit timestamps differ between two runs of one statement.
fn mask_times(value: &Json) -> Json {
    match value {
        Json::Object(map) => Json::Object(
            map.iter()
                .map(|(k, v)| {
                    let stamp = matches!(k.as_str(), "created_at" | "updated_at" | "committed_at" | "retracted_at");
                    (k.clone(), if stamp && v.is_string() { json!("<time>") } else { mask_times(v) })
                })
                .collect(),
        ),
        Json::Array(items) => Json::Array(items.iter().map(mask_times).collect()),
        other => other.clone(),
    }
}

fn masked(dump: &Dump) -> Dump {
    dump.iter().map(|(k, v)| (k.clone(), mask_times(v))).collect()
}

/// Statements of one case: the faulted one and the continuation.
const STATEMENTS: u64 = 1 + CONTINUATION.len() as u64;

struct Base {
    /// One Spec for every dump of every case (`dump::spec_wide`).
    spec: dump::Spec,
    initial: Dump,
}

struct Plan {
    /// Labels of the backend mutations of the uninterrupted statement.
    mutations: Vec<String>,
    /// The first write of the commit phase (everything before it is the
    /// sequence allocation and the `pending` shells of the planning phase).
    first_commit_write: usize,
    journal_at: usize,
    /// The DUMP after the uninterrupted statement, times masked.
    after: Dump,
    /// The model from the state where the statement took effect in full ...
    with: Vec<ModelStep>,
    /// ... and from the state where it left nothing.
    without: Vec<ModelStep>,
}

fn plan(content: &Content, base: &Base, template: &Template) -> Plan {
    let (nx, ctl) = Nx::open_gated(content);
    let from = ctl.journal_len();
    let attempts = ctl.mutation_attempts();
    let (_, outcome) = nx.exec(&stmt(template.text, &base.initial));
    if !matches!(outcome, Outcome::Committed { .. }) {
        vcore::report::machinery(&format!("fault template {} does not commit unfaulted: {}", template.name, outcome.label()));
    }
    let mutations: Vec<String> = ctl.journal_from(from).iter().map(|e| e.mutation.label()).collect();
    if ctl.mutation_attempts() - attempts != mutations.len() as u64 {
        vcore::report::machinery("mutation attempts and landed mutations differ in a fault-free run");
    }
    let after = masked(&dump::dump(&nx, &base.spec, None));
    let journal_at = mutations.iter().position(|m| m.contains("/transactions/data/")).unwrap_or(mutations.len());
    // The commit phase starts with the first version-log row or the first
    // write over an element row that already exists (a row of the Space, or a
    // `pending` shell this statement minted), whichever comes first — or with
    // the intent record the collection writes just before it.
    let path_of = |label: &str| label.split_whitespace().nth(1).unwrap_or("").to_string();
    let is_element_row = |path: &str| path.contains("/data/") && !path.contains("/spaces/") && !path.contains("/transactions/");
    let mut first_commit_write = (0..journal_at)
        .find(|&i| {
            let path = path_of(&mutations[i]);
            path.contains("/element_versions/data/")
                || (is_element_row(&path) && (content.contains_key(&path) || mutations[..i].iter().any(|m| path_of(m) == path)))
        })
        .unwrap_or(journal_at);
    if first_commit_write > 0 && mutations[first_commit_write - 1].contains("/mutation_intents/") && !mutations[first_commit_write - 1].contains("/spaces/") {
        first_commit_write -= 1;
    }
    Plan { mutations, first_commit_write, journal_at, after, with: reference(content, Some(template)), without: reference(content, None) }
}

// ---------------------------------------------------------------- one case

#[derive(Clone, Copy, Debug, PartialEq, Eq, PartialOrd, Ord)]
enum Variant {
    /// Continuation through the same live Nexus, then a clean reopen.
    Live,
    /// A clean reopen right after the faulted statement, then the continuation.
    Reopen,
}

#[derive(Clone, Copy, Debug, PartialEq, Eq, PartialOrd, Ord)]
struct Case {
    t: usize,
    j: usize,
    after: bool,
    variant: Variant,
}

fn answer_name(after: bool) -> &'static str {
    if after { "err-after-write" } else { "err-before-write" }
}

fn variant_name(variant: Variant) -> &'static str {
    match variant {
        Variant::Live => "live",
        Variant::Reopen => "reopen",
    }
}

/// `vnexus/<collection>/<what>...` of a mutation label.
fn collection_of(label: &str) -> &str {
    label.split_whitespace().nth(1).and_then(|path| path.split('/').nth(1)).unwrap_or("?")
}

/// Where in the statement's write sequence a mutation sits.
fn phase_of(plan: &Plan, j: usize) -> &'static str {
    if j < plan.first_commit_write {
        "planning"
    } else if j <= plan.journal_at {
        "between-first-row-and-journal-row"
    } else {
        "flush-after-journal-row"
    }
}

/// What a faulted statement that is neither undone nor complete left,
/// relative to the state before it: which side of the observable state moved.
fn leftover_class(labels: &[String]) -> &'static str {
    let mut present = false;
    let mut past = false;
    let mut journal = false;
    for label in labels {
        if label.contains(r#"state: "pending""#) {
            continue;
        }
        if dump::as_of_seq(label).is_some() {
            past = true;
        } else if label.starts_with("HISTORY") || label.starts_with("CHANGES") || label.starts_with("DESCRIBE TRANSACTION") {
            journal = true;
        } else {
            present = true;
        }
    }
    if present {
        "the-present-changed"
    } else if past {
        "only-the-past-changed"
    } else if journal {
        "only-the-journal-changed"
    } else {
        "pending-shells-only"
    }
}

struct StepSeen {
    name: String,
    outcome: Outcome,
    changed: bool,
    compared_with_model: bool,
}

struct Verdict {
    case: Case,
    steps: Vec<StepSeen>,
    /// What the faulted statement left: "nothing", "everything", or the
    /// leftover class of a partial statement.
    landed: &'static str,
    /// A clean reopen showed the DUMP the live Nexus showed (`None`: not
    /// demanded, the faulted statement had left part of itself).
    reopen_equal: Option<bool>,
    violations: Vec<Violation>,
    queries: u64,
    statements: u64,
}

fn close_and_reopen(nx: Nx) -> Nx {
    // a clean shutdown: whatever `close` answers, the next process sees the bytes
    let _ = util::block_on(async { nx.nexus.close().await });
    let content = ctlstore::snapshot(&nx.store);
    drop(nx);
    Nx::open(&content)
}

fn observed(differing: &[String], was: &Dump, is: &Dump) -> Json {
    json!({
        "answers_that_differ": differing.len(),
        "differing": differing.iter().take(12).collect::<Vec<_>>(),
        "was": differing.iter().take(3).map(|l| was.get(l)).collect::<Vec<_>>(),
        "is": differing.iter().take(3).map(|l| is.get(l)).collect::<Vec<_>>(),
    })
}

fn run_case(content: &Content, base: &Base, templates: &[Template], plans: &[Plan], case: Case) -> Verdict {
    let template = &templates[case.t];
    let plan = &plans[case.t];
    let spec = &base.spec;
    let (nx, ctl) = Nx::open_gated(content);
    let mut verdict = Verdict { case, steps: Vec::new(), landed: "nothing", reopen_equal: None, violations: Vec::new(), queries: 0, statements: 0 };
    let mutation = plan.mutations.get(case.j).cloned().unwrap_or_default();
    let replay = json!({
        "template": template.name, "mutation_index": case.j, "mutation": mutation, "answer": answer_name(case.after),
        "variant": variant_name(case.variant), "text": template.text,
        "continuation": CONTINUATION.iter().map(|c| c.0).collect::<Vec<_>>(),
    });
    let phase = phase_of(plan, case.j);
    let collection = collection_of(&mutation).to_string();
    let fault = format!("{} at backend mutation {} ({mutation})", answer_name(case.after), case.j);

    // --- the faulted statement
    let before = &base.initial;
    let seq_before = dump::space_seq(&nx);
    let statement = stmt(template.text, before);
    ctl.script(ctl.mutation_attempts() + case.j as u64, if case.after { Answer::ErrAfter } else { Answer::ErrBefore });
    let (_, outcome) = nx.exec(&statement);
    ctl.reset_faults();
    verdict.statements += 1;
    let seq_after = dump::space_seq(&nx);
    let mut state = dump::dump(&nx, spec, None);
    verdict.queries += state.len() as u64 + 2;
    let differing = dump::diff(before, &state);
    let complete = !differing.is_empty() && masked(&state) == plan.after;
    verdict.landed = if differing.is_empty() {
        "nothing"
    } else if complete {
        "everything"
    } else {
        leftover_class(&differing)
    };
    if !differing.is_empty() && !complete {
        let mut replay = replay.clone();
        replay["observed"] = observed(&differing, before, &state);
        verdict.violations.push(Violation {
            signature: format!("C17|fault-leaves-part-of-a-statement|{phase}|{}", verdict.landed),
            summary: format!(
                "`{}` with {fault} ended {}: the Space is neither as it was before the statement nor as the uninterrupted statement leaves it [{}]: {} answers differ from before, e.g. {:?}",
                template.name, outcome.label(), verdict.landed, differing.len(), differing.iter().take(3).collect::<Vec<_>>()
            ),
            replay,
        });
    }
    if !matches!(outcome, Outcome::Refused { .. }) {
        // an answer `committed` goes with the after-state, and obeys the
        // rules of a commit
        let shape = format!("faulted-statement|{phase}");
        let (violations, _) = check_step(Judged { name: template.name, shape: &shape }, Mode::Commit, &outcome, seq_before, seq_after, before, &state, &replay);
        verdict.violations.extend(violations);
        if !complete && differing.is_empty() {
            verdict.violations.push(Violation {
                signature: format!("C17|answered-committed-and-left-nothing|{phase}"),
                summary: format!("`{}` with {fault} answered {} and nothing observable changed", template.name, outcome.label()),
                replay: replay.clone(),
            });
        }
    } else if seq_after < seq_before || seq_after > seq_before + 1 {
        verdict.violations.push(Violation {
            signature: format!("C17|sequence-counter-moved-by-{}|faulted-statement", seq_after as i64 - seq_before as i64),
            summary: format!("`{}` with {fault} was refused and moved the Space sequence from {seq_before} to {seq_after}", template.name),
            replay: replay.clone(),
        });
    }
    verdict.steps.push(StepSeen { name: template.name.to_string(), outcome: outcome.clone(), changed: !differing.is_empty(), compared_with_model: false });
    let whole = matches!(verdict.landed, "nothing" | "everything");
    let mut model: Option<&[ModelStep]> = match verdict.landed {
        "nothing" => Some(&plan.without[..]),
        "everything" => Some(&plan.with[1..]),
        _ => None,
    };

    let reopened = |live: &Dump, nx: Nx, verdict: &mut Verdict, when: &str| -> (Nx, Dump) {
        let nx = close_and_reopen(nx);
        let seen = dump::dump(&nx, spec, None);
        verdict.queries += seen.len() as u64;
        if whole {
            let differing = dump::diff(live, &seen);
            verdict.reopen_equal = Some(differing.is_empty());
            if !differing.is_empty() {
                let mut replay = replay.clone();
                replay["observed"] = observed(&differing, live, &seen);
                verdict.violations.push(Violation {
                    signature: format!("C17|reopen-shows-another-space|{when}|{phase}|fault-on-{collection}"),
                    summary: format!(
                        "`{}` with {fault} ended {} (left {}); {when}, a clean close and reopen shows a Space that answers differently than it did live [{}]: {} answers, e.g. {:?}",
                        template.name, outcome.label(), verdict.landed, dump::diff_class(&differing), differing.len(), differing.iter().take(3).collect::<Vec<_>>()
                    ),
                    replay,
                });
            }
        }
        (nx, seen)
    };

    // --- variant `reopen`: a clean reopen before the continuation
    let mut nx = nx;
    if case.variant == Variant::Reopen {
        let (fresh, seen) = reopened(&state, nx, &mut verdict, "right-after-the-faulted-statement");
        nx = fresh;
        if verdict.reopen_equal == Some(false) {
            model = None;
        }
        state = seen;
    }

    // --- the continuation: the after-dump of one statement is the
    // before-dump of the next (one Spec for the whole case)
    for (k, (name, text)) in CONTINUATION.iter().enumerate() {
        let before = state;
        let seq_before = dump::space_seq(&nx);
        let (_, outcome) = nx.exec(&stmt(text, &before));
        verdict.statements += 1;
        let seq_after = dump::space_seq(&nx);
        state = dump::dump(&nx, spec, None);
        verdict.queries += state.len() as u64 + 2;
        let shape = format!("{name}-after-fault|{phase}|fault-on-{collection}");
        let mut replay = replay.clone();
        replay["judged"] = json!(name);
        let (violations, changed) = check_step(Judged { name, shape: &shape }, Mode::Commit, &outcome, seq_before, seq_after, &before, &state, &replay);
        let clean = violations.is_empty();
        verdict.violations.extend(violations);
        let mut compared = false;
        match (model, clean) {
            // the model speaks about ACCEPTED statements only: a statement
            // refused with nothing changed satisfies C17 whatever the
            // fault-free run did (and leaves no model for what follows)
            (Some(steps), true) if !matches!(outcome, Outcome::Refused { .. }) => {
                compared = true;
                let expected = &steps[k];
                let present = normalised_present(&state);
                if outcome_class(&outcome) != expected.outcome || present != expected.present {
                    let mut replay = replay.clone();
                    replay["observed"] = json!({"outcome": outcome.label(), "model_outcome": expected.outcome, "present_differs": present != expected.present});
                    verdict.violations.push(Violation {
                        signature: format!("C17|continuation-differs-from-sequential-model|{name}|{phase}|fault-on-{collection}"),
                        summary: format!(
                            "after `{}` with {fault} left {}, the fault-free statement `{name}` ended {} where the sequential model says {}{}",
                            template.name, verdict.landed, outcome.label(), expected.outcome,
                            if present != expected.present { "; the present state differs from the model's" } else { "" }
                        ),
                        replay,
                    });
                    model = None;
                }
            }
            _ => model = None,
        }
        verdict.steps.push(StepSeen { name: name.to_string(), outcome, changed, compared_with_model: compared });
    }

    // --- variant `live`: a clean reopen at the end shows the same Space
    if case.variant == Variant::Live {
        reopened(&state, nx, &mut verdict, "after-the-continuation");
    }
    verdict
}

fn main() {
    let mut run = Run::from_args("C17", "fault", "model_checking");
    let world = World::build();
    let content = &world.seeded;
    let templates = templates();
    let base = {
        let nx = Nx::open(content);
        let now = dump::elements(&nx, None);
        let spec = dump::spec_wide(&nx, &now, STATEMENTS);
        let initial = dump::dump(&nx, &spec, Some(now));
        let (gated, _) = Nx::open_gated(content);
        if dump::dump(&gated, &spec, None) != initial {
            vcore::report::machinery("two instances restored from the seeded snapshot answer differently");
        }
        Base { spec, initial }
    };

    if let Some(file) = run.replay_file.clone() {
        let doc: Json = serde_json::from_slice(&std::fs::read(&file).expect("replay file")).expect("replay json");
        let replay = &doc["replay"];
        let t = templates.iter().position(|t| Some(t.name) == replay["template"].as_str()).expect("template");
        let plans: Vec<Plan> = templates.iter().map(|t| plan(content, &base, t)).collect();
        let case = Case {
            t,
            j: replay["mutation_index"].as_u64().unwrap_or(0) as usize,
            after: replay["answer"].as_str() == Some("err-after-write"),
            variant: if replay["variant"].as_str() == Some("reopen") { Variant::Reopen } else { Variant::Live },
        };
        let verdict = run_case(content, &base, &templates, &plans, case);
        println!(
            "replay: {} {} at {} ({}) [{}]: left {}; {:?}; reopen equal: {:?}",
            templates[t].name, answer_name(case.after), case.j, plans[t].mutations.get(case.j).map(String::as_str).unwrap_or("-"),
            variant_name(case.variant), verdict.landed,
            verdict.steps.iter().map(|s| format!("{} -> {}", s.name, s.outcome.label())).collect::<Vec<_>>(), verdict.reopen_equal
        );
        for v in verdict.violations {
            run.violation(v);
        }
        run.finish();
    }

    let list = run.args.iter().any(|a| a == "--list");
    let thorough = run.tier == vcore::Tier::Thorough;
    let threads = util::n_threads();
    let mut summary = Vec::new();
    let plans: Vec<Plan> = util::par_map((0..templates.len()).collect(), threads, |t| plan(content, &base, &templates[t]));
    // `--only <template>`: experiments on one template
    let only = run.args.iter().position(|a| a == "--only").and_then(|i| run.args.get(i + 1)).cloned();
    let mut cases: Vec<Case> = Vec::new();
    if thorough || list {
        for (t, plan) in plans.iter().enumerate() {
            for j in 0..plan.mutations.len() {
                for after in [false, true] {
                    for variant in [Variant::Live, Variant::Reopen] {
                        cases.push(Case { t, j, after, variant });
                    }
                }
            }
        }
    } else {
        cases = quick_cases(&templates, &plans);
    }
    cases.retain(|case| only.as_deref().is_none_or(|name| name == templates[case.t].name));
    let total = cases.len();
    let mut done = 0usize;
    let mut per_template: BTreeMap<usize, BTreeMap<String, u64>> = BTreeMap::new();
    for chunk in cases.chunks(threads * 4) {
        if !run.in_budget() {
            run.cap_hit(&format!("time budget: stopped after {done}/{total} cases"));
            break;
        }
        let verdicts = util::par_map(chunk.to_vec(), threads, |case| run_case(content, &base, &templates, &plans, case));
        for verdict in verdicts {
            done += 1;
            let case = verdict.case;
            let plan = &plans[case.t];
            run.add("evaluations", verdict.steps.len() as u64);
            run.add("states", 1);
            run.add("transitions", verdict.statements);
            run.add("traces_validated_against_impl", 1);
            run.add("queries", verdict.queries);
            run.add("continuation_steps_compared_with_model", verdict.steps.iter().filter(|s| s.compared_with_model).count() as u64);
            let outcomes: Vec<String> = verdict.steps.iter().map(|s| s.outcome.label()).collect();
            *per_template.entry(case.t).or_default().entry(format!("left-{}", verdict.landed)).or_insert(0) += 1;
            run.distinct(util::fnv64(
                format!("{}|{}|{}|{}|{}|{outcomes:?}", templates[case.t].name, case.j, case.after, variant_name(case.variant), verdict.landed).as_bytes(),
            ));
            if list {
                println!(
                    "{:24} {:3} {:16} {:6} {:34} {:14} left={:32} {:?} reopen_equal={:?} {:?}",
                    templates[case.t].name, case.j, answer_name(case.after), variant_name(case.variant), phase_of(plan, case.j),
                    collection_of(&plan.mutations[case.j]), verdict.landed,
                    verdict.steps.iter().map(|s| format!("{}{}{}", s.outcome.label(), if s.changed { "*" } else { "" }, if s.compared_with_model { "=M" } else { "" })).collect::<Vec<_>>(),
                    verdict.reopen_equal,
                    verdict.violations.iter().map(|v| v.signature.clone()).collect::<Vec<_>>()
                );
            }
            if done % 41 == 7 {
                run.sample(json!({"template": templates[case.t].name, "mutation_index": case.j, "mutation": plan.mutations[case.j],
                                  "answer": answer_name(case.after), "variant": variant_name(case.variant),
                                  "faulted_statement_left": verdict.landed, "outcomes": outcomes,
                                  "reopened_space_equals_live": verdict.reopen_equal}));
            }
            for v in verdict.violations {
                run.violation(v);
            }
        }
    }
    for (t, plan) in plans.iter().enumerate() {
        summary.push(json!({"template": templates[t].name, "backend_mutations": plan.mutations.len(), "journal_row_at": plan.journal_at,
                            "cases": cases.iter().filter(|c| c.t == t).count(), "faulted_statement_left": per_template.get(&t)}));
    }
    run.set("templates", json!(summary));
    run.set("cases", json!(total));
    run.rule(
        "FAULT: (template, backend mutation j of its uninterrupted run, answer in {error before the write, error after the write landed}, variant in {live continuation then clean reopen, clean reopen then continuation}); \
         the j-th mutation attempt of the statement is answered that way once, the store is healthy afterwards, two fault-free modifying statements follow (a row of every kind; two rewrites); \
         every statement is judged on the full DUMP before/after; distinct = (template, j, answer, variant, what the faulted statement left, outcomes)",
    );
    run.assume("a transient fault is one failed backend call (nothing written, or written and reported as failed); every backend call is atomic; a clean reopen is CognitiveNexus::close followed by a fresh connect over the bytes the store then holds");
    run.assume("the sequential model is the fault-free run of the same statements on a fresh Nexus; present states are compared with ids ranked per kind and commit stamps (times, transaction ids, sequence numbers) masked");
    run.finish();
}

/// What a backend mutation of the flush that ends a commit writes.
fn stage_of(label: &str) -> &'static str {
    let path = label.split_whitespace().nth(1).unwrap_or("");
    if label.starts_with("delete") {
        if path.contains("/mutation_intents/") { "intent-delete" } else { "index-bucket-delete" }
    } else if path.contains("_indexes/") {
        if path.ends_with("/meta.cbor") { "index-meta" } else { "index-bucket" }
    } else if path.ends_with("/meta.cbor") {
        "collection-meta"
    } else if path.ends_with("/ids.cbor") {
        "ids"
    } else if path.ends_with("/storage_meta.cbor") {
        "storage-meta"
    } else {
        "other"
    }
}

/// The quick tier's selection. Up to the journal row (planning phase and
/// commit phase): every mutation of two templates (one rewritten row; a new
/// row of every kind), both answers, live; in the commit phase also the
/// reopen variant for the answer that leaves the store holding more than the
/// engine was told (error after the write). The flush after the journal row:
/// for the template that writes every collection, the first mutation of each
/// (collection, stage) with the stages that checkpoint a collection — index
/// bucket, index meta, collection meta, ids, storage meta — failing before
/// the write, live; for each collection's `meta.cbor` also the reopen variant
/// and the error after the write.
fn quick_cases(templates: &[Template], plans: &[Plan]) -> Vec<Case> {
    let mut out = Vec::new();
    for (t, plan) in plans.iter().enumerate() {
        let name = templates[t].name;
        if !matches!(name, "rename-a" | "all-kinds") {
            continue;
        }
        for j in 0..=plan.journal_at.min(plan.mutations.len().saturating_sub(1)) {
            for after in [false, true] {
                out.push(Case { t, j, after, variant: Variant::Live });
                if after && j >= plan.first_commit_write {
                    out.push(Case { t, j, after, variant: Variant::Reopen });
                }
            }
        }
        if name != "all-kinds" {
            continue;
        }
        let mut seen = std::collections::BTreeSet::new();
        for j in plan.journal_at + 1..plan.mutations.len() {
            let label = &plan.mutations[j];
            let stage = stage_of(label);
            if !matches!(stage, "index-bucket" | "index-meta" | "collection-meta" | "ids" | "storage-meta") {
                continue;
            }
            if !seen.insert((collection_of(label).to_string(), stage)) {
                continue;
            }
            out.push(Case { t, j, after: false, variant: Variant::Live });
            if stage == "collection-meta" {
                out.push(Case { t, j, after: false, variant: Variant::Reopen });
                out.push(Case { t, j, after: true, variant: Variant::Live });
            }
        }
    }
    out
}

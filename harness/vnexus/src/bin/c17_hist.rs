//! C17 part `hist` — a KML statement is all-or-nothing and versions each
//! element once. HIST: every sequence of statement templates up to a depth,
//! executed through the real parser and executor on a fresh Nexus rebuilt
//! from a bootstrapped snapshot (a state is its history, re-executed).
//! Oracle: differential on the DUMP (everything a query, META command or
//! historical read can observe), taken before and after every checked step.

use anda_kip::Json;
use serde_json::json;
use vcore::ctlstore::Content;
use vcore::{Run, Violation, util};
use vnexus::dump::{self, Dump};
use vnexus::fixture::{Mode, Nx, Outcome, Stmt, Who, World};
use vnexus::oracle::{Judged, check_step, mode_name};

struct Template {
    name: &'static str,
    /// Shape class used in signatures (several templates may share a cause).
    shape: &'static str,
    who: Who,
    text: &'static str,
}

fn templates() -> Vec<Template> {
    let t = |name, shape, who, text| Template { name, shape, who, text };
    use Who::*;
    vec![
        // --- single clause: create / upsert hit and miss / guards
        t("create-key-a", "concept-key-conflict-at-commit", System,
          r#"CREATE CONCEPT ?x { TYPE "Person" NAME "Ann2" SET FIELDS {key: "a"} }"#),
        t("upsert-a-same", "upsert", System,
          r#"UPSERT CONCEPT ?x { MATCH {type: "Person", key: "a"} SET FIELDS {name: "Ann"} SET ATTRIBUTES {display_name: "Ann"} }"#),
        t("upsert-a-new", "upsert", System,
          r#"UPSERT CONCEPT ?x { MATCH {type: "Person", key: "a"} SET FIELDS {name: "Ann B."} SET ATTRIBUTES {display_name: "AB"} }"#),
        t("upsert-c-create-only", "upsert-expect-version-0", System,
          r#"UPSERT CONCEPT ?x { MATCH {type: "Person", key: "c"} EXPECT VERSION 0 SET FIELDS {name: "Cy"} }"#),
        t("upsert-a-stale", "upsert-expect-version-stale", System,
          r#"UPSERT CONCEPT ?x { MATCH {type: "Person", key: "a"} EXPECT VERSION 7 SET FIELDS {name: "Z"} }"#),
        // --- multi-clause blocks with forward references
        t("block-forward", "block-forward-references", System,
          r#"MUTATE {
            CREATE ASSERTION ?as { SET FIELDS {proposition: ?p, asserted_by: ?n, stance: "support", mode: "stated", confidence: 0.6, asserted_at: "2026-02-01T00:00:00Z"}
                                   SET STRUCTURAL { ("evidence", ?e) {role: "support"} } }
            ENSURE PROPOSITION ?p (?n, "prefers", ?m)
            CREATE EVIDENCE ?e { SET FIELDS {evidence_class: "user_statement", payload: "fwd", observed_at: "2026-02-01T00:00:00Z"} }
            CREATE CONCEPT ?n { TYPE "Person" NAME "Fwd" }
            CREATE CONCEPT ?m { TYPE "Preference" NAME "FwdPref" }
          }"#),
        t("block-forward-upsert", "block-forward-reference-to-upsert", System,
          r#"MUTATE {
            CREATE ASSERTION ?as { SET FIELDS {proposition: ?p, asserted_by: ?a, stance: "reject", mode: "stated", confidence: 0.6, asserted_at: "2026-02-01T00:00:00Z"}
                                   SET STRUCTURAL { ("evidence", ?e) {role: "support"} } }
            ENSURE PROPOSITION ?p (?a, "prefers", ?d)
            CREATE EVIDENCE ?e { SET FIELDS {evidence_class: "user_statement", payload: "no", observed_at: "2026-02-01T00:00:00Z"} }
            UPSERT CONCEPT ?a { MATCH {type: "Person", key: "a"} SET FIELDS {name: "Ann"} }
            UPSERT CONCEPT ?d { MATCH {type: "Preference", key: "d"} SET FIELDS {name: "Dark"} }
          }"#),
        t("provenance-cycle", "block-reference-cycle", System,
          r#"MUTATE {
            CREATE EVIDENCE ?e { SET FIELDS {evidence_class: "tool_result", payload: "42"} SET STRUCTURAL { ("generated_by", ?act) } }
            CREATE ACTIVITY ?act { SET FIELDS {activity_class: "tool_execution"} SET STRUCTURAL { ("outputs", ?e) } }
          }"#),
        t("ensure-rel-ab", "ensure-hit-or-miss", System,
          r#"MUTATE {
            UPSERT CONCEPT ?a { MATCH {type: "Person", key: "a"} SET FIELDS {name: "Ann"} }
            UPSERT CONCEPT ?b { MATCH {type: "Person", key: "b"} SET FIELDS {name: "Bob"} }
            ENSURE PROPOSITION ?p (?a, "rel", ?b)
          }"#),
        t("ensure-create-only", "ensure-expect-version-0", System,
          r#"MUTATE {
            UPSERT CONCEPT ?a { MATCH {type: "Person", key: "a"} SET FIELDS {name: "Ann"} }
            UPSERT CONCEPT ?d { MATCH {type: "Preference", key: "d"} SET FIELDS {name: "Dark"} }
            ENSURE PROPOSITION ?p (?a, "prefers", ?d) EXPECT VERSION 0
          }"#),
        // --- conflicts only detectable at commit
        t("ensure-twice-new", "ensure-same-new-tuple-twice", System,
          r#"MUTATE {
            CREATE CONCEPT ?n { TYPE "Preference" NAME "Light" }
            UPSERT CONCEPT ?a { MATCH {type: "Person", key: "a"} SET FIELDS {name: "Ann"} }
            ENSURE PROPOSITION ?p1 (?a, "prefers", ?n)
            ENSURE PROPOSITION ?p2 (?a, "prefers", ?n)
          }"#),
        t("ensure-twice-named-anon", "ensure-same-new-tuple-twice", System,
          r#"MUTATE {
            CREATE CONCEPT ?n { TYPE "Preference" NAME "Light" }
            UPSERT CONCEPT ?a { MATCH {type: "Person", key: "a"} SET FIELDS {name: "Ann"} }
            ENSURE PROPOSITION ?p1 (?a, "prefers", ?n)
            ENSURE PROPOSITION (?a, "prefers", ?n)
          }"#),
        t("ensure-twice-anon-named", "ensure-same-new-tuple-twice", System,
          r#"MUTATE {
            CREATE CONCEPT ?n { TYPE "Preference" NAME "Light" }
            UPSERT CONCEPT ?a { MATCH {type: "Person", key: "a"} SET FIELDS {name: "Ann"} }
            ENSURE PROPOSITION (?a, "prefers", ?n)
            ENSURE PROPOSITION ?p2 (?a, "prefers", ?n)
          }"#),
        t("ensure-twice-anon-anon", "ensure-same-new-tuple-twice", System,
          r#"MUTATE {
            CREATE CONCEPT ?n { TYPE "Preference" NAME "Light" }
            UPSERT CONCEPT ?a { MATCH {type: "Person", key: "a"} SET FIELDS {name: "Ann"} }
            ENSURE PROPOSITION (?a, "prefers", ?n)
            ENSURE PROPOSITION (?a, "prefers", ?n)
          }"#),
        t("assert-twice-one-tuple", "ensure-same-new-tuple-twice", System,
          r#"MUTATE {
            CREATE CONCEPT ?n { TYPE "Preference" NAME "Light" }
            UPSERT CONCEPT ?a { MATCH {type: "Person", key: "a"} SET FIELDS {name: "Ann"} }
            ASSERT (?a, "prefers", ?n) { by: ?a, mode: "stated", confidence: 0.7, at: "2026-03-02T00:00:00Z" }
            ASSERT ?second (?a, "prefers", ?n) { by: ?a, mode: "observed", confidence: 0.4, at: "2026-03-03T00:00:00Z" }
          }"#),
        // --- one tuple under several spellings of one predicate (local name,
        //     exact symbol, Schema Lock alias `fond_of`)
        t("ensure-exact-symbol", "same-tuple-two-spellings", System,
          r#"ENSURE PROPOSITION ?p (:a_ref, "kip://profiles/cognitive-memory@2.0.0/prefers", :d_ref)"#),
        t("ensure-alias", "same-tuple-two-spellings", System,
          r#"ENSURE PROPOSITION ?p (:a_ref, "fond_of", :d_ref)"#),
        t("ensure-three-spellings", "same-tuple-two-spellings", System,
          r#"MUTATE {
            CREATE CONCEPT ?n { TYPE "Preference" NAME "Light" }
            UPSERT CONCEPT ?a { MATCH {type: "Person", key: "a"} SET FIELDS {name: "Ann"} }
            ENSURE PROPOSITION ?p1 (?a, "prefers", ?n)
            ENSURE PROPOSITION ?p2 (?a, "kip://profiles/cognitive-memory@2.0.0/prefers", ?n)
            ENSURE PROPOSITION ?p3 (?a, "fond_of", ?n)
          }"#),
        t("assert-exact-symbol", "same-tuple-two-spellings", System,
          r#"ASSERT (:a_ref, "kip://profiles/cognitive-memory@2.0.0/prefers", :d_ref) { by: :a_ref, mode: "observed", confidence: 0.5, at: "2026-03-04T00:00:00Z" }"#),
        t("ensure-twice-params", "ensure-same-new-tuple-twice", System,
          r#"MUTATE {
            ENSURE PROPOSITION ?p1 (:b_ref, "prefers", :d_ref)
            ENSURE PROPOSITION ?p2 (:b_ref, "prefers", :d_ref)
          }"#),
        t("ensure-twice-existing", "ensure-same-new-tuple-twice", System,
          r#"MUTATE {
            ENSURE PROPOSITION ?p1 (:a_ref, "prefers", :d_ref)
            ENSURE PROPOSITION ?p2 (:a_ref, "prefers", :d_ref)
          }"#),
        t("same-key-twice", "concept-key-conflict-at-commit", System,
          r#"MUTATE {
            CREATE CONCEPT ?x { TYPE "Person" NAME "K1" SET FIELDS {key: "k"} }
            CREATE CONCEPT ?y { TYPE "Person" NAME "K2" SET FIELDS {key: "k"} }
          }"#),
        t("upsert-new-key-twice", "concept-key-conflict-at-commit", System,
          r#"MUTATE {
            UPSERT CONCEPT ?x { MATCH {type: "Person", key: "u"} SET FIELDS {name: "U1"} }
            UPSERT CONCEPT ?y { MATCH {type: "Person", key: "u"} SET FIELDS {name: "U2"} }
          }"#),
        t("dangling-endpoint", "dangling-reference", System,
          r#"ENSURE PROPOSITION ?p (:ghost_ref, "prefers", :d_ref)"#),
        t("dangling-assertion", "dangling-reference-in-block", System,
          r#"MUTATE {
            CREATE CONCEPT ?n { TYPE "Person" NAME "New" }
            CREATE ASSERTION ?x { SET FIELDS {proposition: "P-9001", asserted_by: ?n, stance: "support", mode: "stated"} }
          }"#),
        // --- a failing clause first / middle / last
        t("fail-first", "failing-clause-first", System,
          r#"MUTATE {
            CREATE CONCEPT ?bad { TYPE "Spaceship" NAME "x" }
            CREATE CONCEPT ?o1 { TYPE "Person" NAME "O1" }
            CREATE EVIDENCE ?e { SET FIELDS {evidence_class: "user_statement", payload: "x", observed_at: "2026-02-01T00:00:00Z"} }
          }"#),
        t("fail-middle", "failing-clause-middle", System,
          r#"MUTATE {
            CREATE CONCEPT ?o1 { TYPE "Person" NAME "O1" }
            CREATE CONCEPT ?bad { TYPE "Person" NAME "B" SET FACET "MnemonicState" {memory_strength: 5} }
            CREATE CONCEPT ?o2 { TYPE "Person" NAME "O2" }
          }"#),
        t("fail-last", "failing-clause-last", System,
          r#"MUTATE {
            CREATE CONCEPT ?o1 { TYPE "Person" NAME "O1" }
            UPDATE ?c SET ATTRIBUTES {display_name: "touched"} WHERE { ?c CONCEPT {key: "a"} }
            RETRACT ASSERTION "A-9001"
          }"#),
        t("illegal-update-middle", "failing-clause-middle-pass2", System,
          r#"MUTATE {
            CREATE CONCEPT ?o { TYPE "Person" NAME "O" }
            UPDATE :as1 SET FIELDS {name: "relabelled"}
            CREATE EVIDENCE ?e { SET FIELDS {evidence_class: "user_statement", payload: "x", observed_at: "2026-02-01T00:00:00Z"} }
          }"#),
        // --- EXPECT guards that fail
        t("expect-version-fails", "expect-version-fails", System,
          r#"UPDATE ?c EXPECT VERSION 9 SET FIELDS {name: "X"} WHERE { ?c CONCEPT {key: "a"} }"#),
        t("expect-state-fails", "expect-state-fails-last-in-block", System,
          r#"MUTATE {
            UPDATE ?c SET ATTRIBUTES {display_name: "T"} WHERE { ?c CONCEPT {key: "a"} }
            ARCHIVE ?c2 WHERE { ?c2 CONCEPT {key: "b"} } EXPECT STATE "tombstoned"
          }"#),
        // --- one element touched by several clauses
        t("multi-touch", "one-element-three-clauses", System,
          r#"MUTATE {
            UPDATE ?c SET FIELDS {name: "M1"} WHERE { ?c CONCEPT {key: "a"} }
            UPDATE ?c2 SET ATTRIBUTES {display_name: "M"} WHERE { ?c2 CONCEPT {key: "a"} }
            UPSERT CONCEPT ?u { MATCH {type: "Person", key: "a"} SET ATTRIBUTES {description: "thrice"} }
          }"#),
        // --- lifecycle
        t("archive-b", "archive", System, r#"ARCHIVE ?c WHERE { ?c CONCEPT {key: "b"} }"#),
        t("tombstone-d", "tombstone", System, r#"TOMBSTONE ?c WHERE { ?c CONCEPT {key: "d"} }"#),
        t("retract", "retract", System,
          r#"RETRACT ASSERTION ?x WHERE { ?x ASSERTION {stance: "support"} } LIMIT 1"#),
        t("supersede", "supersede", System,
          r#"MUTATE {
            CREATE ASSERTION ?new { SET FIELDS {proposition: :p, asserted_by: :a, stance: "reject", mode: "stated", confidence: 0.8, asserted_at: "2026-02-02T00:00:00Z"} }
            SUPERSEDE ASSERTION :as1 BY ?new
          }"#),
        t("merge-b-into-a", "merge", System,
          r#"MERGE CONCEPT ?s INTO ?t WHERE { ?s CONCEPT {key: "b"} ?t CONCEPT {key: "a"} }"#),
        t("assert-functional", "assert-sugar", System,
          r#"ASSERT (:a_ref, "status", "off") { by: :a_ref, mode: "stated", confidence: 0.8, at: "2026-03-01T00:00:00Z" }"#),
        t("set-retention", "set-retention", System,
          r#"SET RETENTION ?c {retention_class: "standard", expires_at: "2031-01-01T00:00:00Z"} WHERE { ?c CONCEPT {key: "n"} }"#),
        t("purge-denied", "purge-referenced", System,
          r#"PURGE :a REFERENCE POLICY "deny_if_referenced" CONFIRM "PURGE""#),
        // --- PURGE: the one statement that may remove the past, and only when it commits
        t("purge-commits", "purge-unreferenced", System, r#"PURGE :m CONFIRM "PURGE""#),
        t("purge-then-key-conflict", "purge-with-clause-refused-at-commit", System,
          r#"MUTATE {
            PURGE :m CONFIRM "PURGE"
            CREATE CONCEPT ?dup { TYPE "Person" NAME "Impostor" SET FIELDS {key: "a"} }
          }"#),
        t("key-conflict-then-purge", "purge-with-clause-refused-at-commit", System,
          r#"MUTATE {
            CREATE CONCEPT ?dup { TYPE "Person" NAME "Impostor" SET FIELDS {key: "b"} }
            PURGE :m CONFIRM "PURGE"
          }"#),
        // --- principals
        t("writer-mixed", "unauthorized-clause-in-block", Writer,
          r#"MUTATE {
            CREATE CONCEPT ?c { TYPE "Person" NAME "W" }
            CREATE EVIDENCE ?e { SET FIELDS {evidence_class: "user_statement", payload: "x", observed_at: "2026-02-01T00:00:00Z"} }
          }"#),
        t("writer-create", "concept-key-conflict-at-commit", Writer,
          r#"CREATE CONCEPT ?c { TYPE "Person" NAME "W2" SET FIELDS {key: "w"} }"#),
        t("anon-create", "unauthenticated", Anon, r#"CREATE CONCEPT ?c { TYPE "Person" NAME "Anon" }"#),
        // --- refused by the parser
        t("duplicate-handle", "duplicate-handle", System,
          r#"MUTATE {
            CREATE CONCEPT ?x { TYPE "Person" NAME "D1" }
            CREATE CONCEPT ?x { TYPE "Person" NAME "D2" }
          }"#),
    ]
}

#[derive(Clone, Copy, Debug, PartialEq, Eq, PartialOrd, Ord)]
struct Step {
    t: usize,
    mode: Mode,
}

fn mode_from(name: &str) -> Mode {
    match name {
        "commit" => Mode::Commit,
        "dry_run" => Mode::DryRun,
        "preview" => Mode::Preview,
        other => vcore::report::machinery(&format!("bad mode {other}")),
    }
}

struct StepReport {
    /// Position of the step in the executed history.
    index: usize,
    outcome: Outcome,
    violations: Vec<Violation>,
    /// Whether the observable state differs after the step.
    changed: bool,
}

struct HistReport {
    world: &'static str,
    steps: Vec<Step>,
    outcomes: Vec<Outcome>,
    checked: Vec<StepReport>,
    statements: u64,
    queries: u64,
}

fn replay_json(world: &str, steps: &[Step], tpl: &[Template]) -> Json {
    json!({
        "world": world,
        "history": steps.iter().map(|s| json!({
            "template": tpl[s.t].name,
            "mode": mode_name(s.mode),
            "who": format!("{:?}", tpl[s.t].who),
            "text": tpl[s.t].text,
        })).collect::<Vec<_>>(),
        "note": "parameters (:a, :p, :as1, ...) are re-resolved from the state before each statement, as in dump::params_from",
    })
}

/// Executes `history` on ONE fresh Nexus. Steps before `check_from` are only
/// executed; every later step is checked with a full DUMP before and after.
/// When a checked step leaves the observable state unchanged its after-dump
/// is the next step's before-dump. With `stop_on_change`, execution stops
/// after the first checked step that changed the state (the caller rebuilds).
fn run_history(
    world: &'static str,
    content: &Content,
    history: &[Step],
    check_from: usize,
    stop_on_change: bool,
    tpl: &[Template],
) -> HistReport {
    let nx = Nx::open(content);
    let mut report = HistReport {
        world,
        steps: Vec::new(),
        outcomes: Vec::new(),
        checked: Vec::new(),
        statements: 0,
        queries: 0,
    };
    let mut carried: Option<(dump::Spec, Dump)> = None;
    for (i, step) in history.iter().enumerate() {
        let template = &tpl[step.t];
        let make = |params| Stmt {
            text: template.text.to_string(),
            params,
            mode: step.mode,
            who: template.who,
        };
        if i < check_from {
            let now = dump::elements(&nx, None);
            report.queries += now.len() as u64;
            let (_, outcome) = nx.exec(&make(dump::params_from(&now)));
            report.statements += 1;
            report.steps.push(*step);
            report.outcomes.push(outcome);
            continue;
        }
        let (spec, before) = match carried.take() {
            Some((mut spec, mut state)) => {
                report.queries += dump::retarget(&nx, &mut spec, &mut state);
                (spec, state)
            }
            None => {
                let now = dump::elements(&nx, None);
                let spec = dump::spec_from(&nx, &now, dump::Window::STEP);
                let before = dump::dump(&nx, &spec, Some(now));
                report.queries += before.len() as u64 + 1;
                (spec, before)
            }
        };
        let seq_before = dump::space_seq(&nx);
        let (_, outcome) = nx.exec(&make(dump::params_from(&before)));
        report.statements += 1;
        report.steps.push(*step);
        let seq_after = dump::space_seq(&nx);
        let after = dump::dump(&nx, &spec, None);
        report.queries += after.len() as u64 + 2;
        let replay = replay_json(world, &report.steps, tpl);
        let judged = Judged { name: template.name, shape: template.shape };
        let (violations, changed) = check_step(judged, step.mode, &outcome, seq_before, seq_after, &before, &after, &replay);
        report.outcomes.push(outcome.clone());
        report.checked.push(StepReport { index: i, outcome, violations, changed });
        if changed {
            if stop_on_change {
                break;
            }
        } else {
            carried = Some((spec, after));
        }
    }
    report
}

/// One job of a level: the histories `prefix + [s]` for every `s` in `tail`.
/// Statements that leave the state unchanged are chained on one instance
/// (the executed history then is `prefix + [unchanged..., s]`, which is what
/// a violation's replay records); after a state-changing statement the
/// instance is rebuilt from the snapshot and the prefix re-executed.
fn run_job(world: &'static str, content: &Content, prefix: &[Step], tail: &[Step], tpl: &[Template]) -> Vec<HistReport> {
    let mut reports = Vec::new();
    let mut rest = tail;
    while !rest.is_empty() {
        let mut history = prefix.to_vec();
        history.extend_from_slice(rest);
        let mut report = run_history(world, content, &history, prefix.len(), true, tpl);
        let consumed = report.checked.len();
        // A violation found on a chained instance is re-run minimally
        // (prefix + statement on a fresh Nexus); the shorter replay is kept
        // when it shows the same signatures.
        for k in 0..consumed {
            if report.checked[k].violations.is_empty() || k == 0 {
                continue;
            }
            let mut minimal = prefix.to_vec();
            minimal.push(rest[k]);
            let fresh = run_history(world, content, &minimal, prefix.len(), true, tpl);
            report.statements += fresh.statements;
            report.queries += fresh.queries;
            let same = |a: &[Violation], b: &[Violation]| {
                a.iter().map(|v| &v.signature).collect::<Vec<_>>() == b.iter().map(|v| &v.signature).collect::<Vec<_>>()
            };
            if let Some(first) = fresh.checked.first()
                && same(&first.violations, &report.checked[k].violations)
            {
                report.checked[k].violations = first.violations.clone();
            }
        }
        rest = &rest[consumed..];
        reports.push(report);
    }
    reports
}

/// Folds one executed history into the run. `prefix_len` statements belong
/// to the enumerated prefix; every checked step `s` stands for the
/// enumerated history `prefix + [s]`.
fn absorb(run: &mut Run, report: &HistReport, prefix_len: usize, tpl: &[Template]) {
    run.add("traces_validated_against_impl", 1);
    run.add("transitions", report.statements);
    run.add("queries", report.queries);
    let prefix_names: Vec<&str> = report.steps[..prefix_len.min(report.steps.len())].iter().map(|s| tpl[s.t].name).collect();
    let prefix_outcomes: Vec<String> = report.outcomes[..prefix_len.min(report.outcomes.len())].iter().map(|o| o.label()).collect();
    for checked in &report.checked {
        let step = report.steps[checked.index];
        run.add("evaluations", 1);
        run.add("states", 1);
        run.add(&format!("outcome_{}", checked.outcome.label().split(':').next().unwrap_or("?")), 1);
        let key = format!(
            "{}|{:?}|{}|{}|{}|{}",
            report.world,
            prefix_names,
            prefix_outcomes.join(","),
            tpl[step.t].name,
            mode_name(step.mode),
            checked.outcome.label()
        );
        run.distinct(util::fnv64(key.as_bytes()));
        if prefix_len > 0 && (checked.changed || matches!(checked.outcome, Outcome::Refused { .. })) && checked.index % 7 == 3 {
            run.sample(json!({
                "world": report.world,
                "prefix": prefix_names,
                "prefix_outcomes": prefix_outcomes,
                "statement": format!("{}/{}", tpl[step.t].name, mode_name(step.mode)),
                "outcome": checked.outcome.label(),
                "state_changed": checked.changed,
                "executed_after_unchanged_statements": checked.index - prefix_len,
            }));
        }
        for v in &checked.violations {
            run.violation(v.clone());
        }
    }
}

fn main() {
    let mut run = Run::from_args("C17", "hist", "model_checking");
    let tpl = templates();
    let world = World::build();
    let worlds: [(&'static str, &Content); 2] = [("empty", &world.empty), ("seeded", &world.seeded)];

    if let Some(file) = run.replay_file.clone() {
        let doc: Json = serde_json::from_slice(&std::fs::read(&file).expect("replay file")).expect("replay json");
        let replay = &doc["replay"];
        let name = replay["world"].as_str().unwrap_or("seeded");
        let (wname, content) = *worlds.iter().find(|(n, _)| *n == name).expect("world");
        let steps: Vec<Step> = replay["history"]
            .as_array()
            .expect("history")
            .iter()
            .map(|s| Step {
                t: tpl.iter().position(|t| Some(t.name) == s["template"].as_str()).expect("template"),
                mode: mode_from(s["mode"].as_str().unwrap_or("commit")),
            })
            .collect();
        let report = run_history(wname, content, &steps, 0, false, &tpl);
        for (step, outcome) in report.steps.iter().zip(&report.outcomes) {
            println!("replay: {} / {} -> {}", tpl[step.t].name, mode_name(step.mode), outcome.label());
        }
        absorb(&mut run, &report, 0, &tpl);
        run.finish();
    }

    if run.args.iter().any(|a| a == "--list") {
        for (wname, content) in worlds {
            for (t, template) in tpl.iter().enumerate() {
                for mode in [Mode::Commit, Mode::DryRun, Mode::Preview] {
                    let report = run_history(wname, content, &[Step { t, mode }], 0, false, &tpl);
                    let c = &report.checked[0];
                    println!(
                        "{wname:7} {:24} {:8} -> {:40} changed={} violations={:?}",
                        template.name,
                        mode_name(mode),
                        c.outcome.label(),
                        c.changed,
                        c.violations.iter().map(|v| v.signature.clone()).collect::<Vec<_>>()
                    );
                }
            }
        }
        return;
    }

    let thorough = run.tier == vcore::Tier::Thorough;
    let all_modes = [Mode::Commit, Mode::DryRun, Mode::Preview];
    let alphabet: Vec<Step> = (0..tpl.len()).flat_map(|t| all_modes.iter().map(move |&mode| Step { t, mode })).collect();
    let max_depth = run.tier.pick(2, 3);
    let threads = util::n_threads();

    // Level 1: every statement, every mode, from both initial states.
    // Level k+1: extends the histories of level k that are in the frontier.
    // Quick frontier: the last step changed the observable state (committed,
    // or refused-but-changed). Thorough frontier at level 1: everything.
    let mut dry_reaches_commit: std::collections::BTreeSet<(usize, usize)> = Default::default();
    let mut frontier: Vec<(usize, Vec<Step>)> = vec![(0, vec![]), (1, vec![])];
    let mut completed_depth = 0;
    'levels: for depth in 1..=max_depth {
        // job = (world, prefix, slice of the alphabet)
        let mut jobs: Vec<(usize, Vec<Step>, Vec<Step>)> = Vec::new();
        let mut total = 0usize;
        for (w, prefix) in &frontier {
            let tail: Vec<Step> = alphabet
                .iter()
                .filter(|step| {
                    // quick, beyond depth 1: a dry run is only enumerated for
                    // the templates whose level-1 dry run got as far as the
                    // commit step in this Space (the others end in the same
                    // planning refusal as their commit-mode twin).
                    if !thorough && depth > 1 && step.mode == Mode::DryRun {
                        if !dry_reaches_commit.contains(&(*w, step.t)) {
                            return false;
                        }
                        // ... and once per shape class
                        let first_of_shape = (0..step.t).all(|t| tpl[t].shape != tpl[step.t].shape || !dry_reaches_commit.contains(&(*w, t)));
                        if !first_of_shape {
                            return false;
                        }
                    }
                    // PREVIEW KML cannot carry parameters: beyond depth 1 it is
                    // only enumerated for the templates that have none
                    // (thorough), or not at all (quick).
                    !(depth > 1
                        && step.mode == Mode::Preview
                        && (!thorough || tpl[step.t].text.contains(" :") || tpl[step.t].text.contains("(:")))
                })
                .copied()
                .collect();
            total += tail.len();
            let pieces = if depth == 1 { 12 } else { 36 };
            for piece in tail.chunks(pieces) {
                jobs.push((*w, prefix.clone(), piece.to_vec()));
            }
        }
        let mut next: Vec<(usize, Vec<Step>)> = Vec::new();
        let mut done = 0usize;
        for chunk in jobs.chunks(threads * 4) {
            if !run.in_budget() {
                run.cap_hit(&format!("time budget: stopped inside depth {depth} after {done}/{total} histories"));
                break 'levels;
            }
            let results = util::par_map(chunk.to_vec(), threads, |(w, prefix, tail)| {
                let (wname, content) = worlds[w];
                (w, prefix.len(), run_job(wname, content, &prefix, &tail, &tpl))
            });
            for (w, prefix_len, reports) in results {
                for report in reports {
                    absorb(&mut run, &report, prefix_len, &tpl);
                    for checked in &report.checked {
                        let step = report.steps[checked.index];
                        if depth == 1 && step.mode == Mode::DryRun && checked.outcome == Outcome::Dry {
                            dry_reaches_commit.insert((w, step.t));
                        }
                        let extend = if thorough && depth == 1 {
                            step.mode != Mode::Preview || checked.changed
                        } else if thorough {
                            checked.changed
                        } else {
                            // quick: from the seeded Space only — committed statements,
                            // and refused ones that left something behind
                            w == 1 && checked.changed && !matches!(checked.outcome, Outcome::NoEffect { .. })
                        };
                        if extend {
                            let mut history = report.steps[..prefix_len].to_vec();
                            history.push(step);
                            next.push((w, history));
                        }
                        done += 1;
                    }
                }
            }
        }
        next.sort();
        if !thorough {
            // quick: one prefix per (Space, shape class) — templates of one
            // shape commit the same kind of state (e.g. the seven ways of
            // ENSUREing one new tuple twice)
            let mut seen = std::collections::BTreeSet::new();
            next.retain(|(w, history)| seen.insert((*w, history.iter().map(|s| tpl[s.t].shape).collect::<Vec<_>>())));
        }
        completed_depth = depth;
        run.set(&format!("histories_depth_{depth}"), json!(total));
        run.set(&format!("frontier_after_depth_{depth}"), json!(next.len()));
        frontier = next;
    }
    run.set("completed_depth", json!(completed_depth));
    run.set("templates", json!(tpl.len()));
    run.set("alphabet", json!(alphabet.len()));
    run.rule(
        "HIST: all sequences of (template x {commit, dry_run option, PREVIEW KML}) from two initial states (empty, seeded), \
         each prefix re-executed on a fresh Nexus restored from a bootstrapped InMemory snapshot; the last step of every \
         history is checked (full DUMP before/after); statements that leave the DUMP unchanged are chained on one instance, \
         any state-changing statement forces a rebuild; a history is extended only if its last step changed the observable state \
         (quick: committed or refused-but-changed, from the seeded Space, one prefix per shape class, second statement in commit mode and — once per shape class, where the dry run reaches the commit step — dry_run mode; thorough: also no_effect commits, every level-1 history, both Spaces, PREVIEW where it can carry the statement); distinct = (initial state, prefix, prefix outcomes, template, mode, outcome)",
    );
    run.assume("the DUMP (KQL over every kind and state incl. `pending`, counts, beliefs/slots pinned FOR TIME, DESCRIBE/LIST/HISTORY/CHANGES/SNAPSHOT/SEARCH, DESCRIBE TRANSACTION and HISTORY ELEMENT probes, AS OF reads at every journalled sequence and at the number the judged statement itself takes or burns) is what 'a query, meta command or historical read can observe'; the Governance audit (host API only) is not part of it");
    run.assume("statement parameters are resolved from the state before the statement by the harness (ids by logical key)");
    run.finish();
}

//! C18 part `hist` — reading AS OF a past point returns what was current
//! then. HIST over committed histories (create / update / archive /
//! tombstone (Concepts and rival tuples of a functional slot) / retract /
//! supersede / merge / assert / structural edit /
//! schema activation) on the real Nexus, starting from the seeded Space.
//! After every commit s a BATTERY of queries is recorded live; after the last
//! statement of every history each recording is replayed with `AS OF SEQ s`
//! (and sub-batteries with `AS OF TX` / `AS OF TIME` and, bound through the
//! `read.snapshot_token` taken at s, without any AS OF). Oracle: replay ==
//! recording, result and `schema_environment_version` of the response
//! context. Every (point, later statement) pair is covered exactly once,
//! by the history that ends in that statement.

use anda_kip::{Json, Map};
use serde_json::json;
use std::collections::BTreeMap;
use vcore::ctlstore::Content;
use vcore::{Run, Violation, util};
use vnexus::dump::{self, FOR_TIME};
use vnexus::fixture::{Mode, Nx, Outcome, Stmt, Who, World};

#[derive(Clone, Copy)]
enum Op {
    Kml(&'static str),
    /// Host API: activate the lock with / without the `ext` package (toggles).
    ToggleSchema,
    /// Host API: the FIRST activation of the Space (base lock), on a Space
    /// that has already been written to.
    FirstActivation,
}

struct StepDef {
    name: &'static str,
    op: Op,
}

/// Depth 3 of the quick tier: an update, a merge and a schema activation.
const CORE: [&str; 3] = ["rename-a", "merge-b-into-a", "toggle-schema"];

/// Quick tier, depth 2: the SECOND statement ranges over one representative
/// per kind of later mutation (the first over the whole alphabet).
const LATER: [&str; 12] = [
    "rename-a", "archive-b", "archive-n", "merge-m-into-n", "merge-b-into-a", "archive-status-off", "archive-rel-bd",
    "supersede", "toggle-schema", "extend-rel", "assert-idle", "purge-m-refused-at-commit",
];

fn alphabet() -> Vec<StepDef> {
    let k = |name, text| StepDef { name, op: Op::Kml(text) };
    vec![
        k("create-c", r#"CREATE CONCEPT ?x { TYPE "Person" NAME "Cy" SET FIELDS {key: "c"} SET ATTRIBUTES {display_name: "Cy"} }"#),
        k("rename-a", r#"UPDATE ?c SET FIELDS {name: "Ann B."} SET ATTRIBUTES {display_name: "AB"} WHERE { ?c CONCEPT {key: "a"} }"#),
        k("decay-n", r#"UPDATE ?m SET FACET "MnemonicState" { memory_strength: MUL(?m.facets["MnemonicState"].memory_strength, 0.5) } WHERE { ?m CONCEPT {key: "n"} }"#),
        k("relink-n", r#"UPDATE ?m SET STRUCTURAL { ("mentions", :b) } UNSET STRUCTURAL { ("mentions", :a) } WHERE { ?m CONCEPT {key: "n"} }"#),
        k("archive-b", r#"ARCHIVE ?c WHERE { ?c CONCEPT {key: "b"} }"#),
        k("tombstone-d", r#"TOMBSTONE ?c WHERE { ?c CONCEPT {key: "d"} }"#),
        k("retract", r#"RETRACT ASSERTION ?x WHERE { ?x ASSERTION {stance: "support", status: "active"} } LIMIT 1"#),
        k("supersede", r#"MUTATE {
            CREATE ASSERTION ?new { SET FIELDS {proposition: :p, asserted_by: :a, stance: "reject", mode: "stated", confidence: 0.8, asserted_at: "2026-02-02T00:00:00Z"} }
            SUPERSEDE ASSERTION :as1 BY ?new
          }"#),
        k("merge-b-into-a", r#"MERGE CONCEPT ?s INTO ?t WHERE { ?s CONCEPT {key: "b"} ?t CONCEPT {key: "a"} }"#),
        k("assert-idle", r#"ASSERT (:a_ref, "status", "idle") { by: :a_ref, mode: "stated", confidence: 0.8, at: "2026-03-01T00:00:00Z" }"#),
        // a rival PROPOSITION of the functional slot (a, status) leaves ordinary recall
        k("archive-status-off", r#"ARCHIVE "P-3""#),
        k("tombstone-status-on", r#"TOMBSTONE "P-2""#),
        // a hop of the `rel` chain n -> a -> b -> d leaves ordinary recall / the chain grows
        k("archive-rel-bd", r#"ARCHIVE "P-8""#),
        k("extend-rel", r#"MUTATE {
            ENSURE PROPOSITION ?r (:d_ref, "rel", :n_ref)
            ENSURE PROPOSITION ?r2 (:m_ref, "rel", :d_ref)
          }"#),
        // a structural SOURCE leaves the active state
        k("archive-n", r#"ARCHIVE ?c WHERE { ?c CONCEPT {key: "n"} }"#),
        k("merge-m-into-n", r#"MERGE CONCEPT ?s INTO ?t WHERE { ?s CONCEPT {key: "m"} ?t CONCEPT {key: "n"} }"#),
        k("reject-prefers", r#"MUTATE {
            CREATE EVIDENCE ?e { SET FIELDS {evidence_class: "user_statement", payload: "not really", observed_at: "2026-02-03T00:00:00Z"} }
            CREATE ASSERTION ?r { SET FIELDS {proposition: :p, asserted_by: :b, stance: "reject", mode: "stated", confidence: 0.9,
                                             asserted_at: "2026-02-03T00:00:00Z", valid_time: {from: "2026-01-01T00:00:00Z", until: "2040-01-01T00:00:00Z"}}
                                   SET STRUCTURAL { ("evidence", ?e) {role: "support"} } }
          }"#),
        // refused at commit (the key "a" is held): never extended, but every
        // recording is replayed after it — a refused statement, PURGE clause
        // included, removes nothing from the past
        k("purge-m-refused-at-commit", r#"MUTATE {
            PURGE "C-5" CONFIRM "PURGE"
            CREATE CONCEPT ?dup { TYPE "Person" NAME "Impostor" SET FIELDS {key: "a"} }
          }"#),
        StepDef { name: "toggle-schema", op: Op::ToggleSchema },
        k("widget", r#"MUTATE {
            CREATE CONCEPT ?w { TYPE "Widget" NAME "W1" SET FIELDS {key: "w"} }
            ENSURE PROPOSITION ?l (:a_ref, "likes", ?w)
          }"#),
        // --- the EARLY steps (not part of the enumerated alphabet): a Space
        //     written to under Core alone, before its first activation
        k("early-evidence", r#"CREATE EVIDENCE ?e { SET FIELDS {evidence_class: "message", payload: "before any schema", observed_at: "2026-01-01T00:00:00Z"} }"#),
        k("early-refused", r#"CREATE CONCEPT ?x { TYPE "Person" NAME "Too early" }"#),
        k("early-activity", r#"CREATE ACTIVITY ?act { SET FIELDS {activity_class: "tool_execution"} }"#),
        StepDef { name: "first-activation", op: Op::FirstActivation },
        k("early-person", r#"CREATE CONCEPT ?x { TYPE "Person" NAME "Eve" SET FIELDS {key: "e"} }"#),
    ]
}

/// How many leading entries of `alphabet()` the enumeration ranges over.
fn enumerated(steps: &[StepDef]) -> usize {
    steps.iter().position(|s| s.name == "early-evidence").expect("early steps")
}

/// What is special about one executed history.
#[derive(Clone, Default)]
struct Plan {
    /// Starts from the never-activated database instead of the seeded one.
    bare: bool,
    /// `(position in the path, j, collection)`: the j-th backend mutation of
    /// that statement fails once (nothing written).
    fault: Option<(usize, u64, String)>,
}

/// One battery query: `head [AS OF ...] tail`.
struct Q {
    /// Pattern family; becomes the violation signature.
    family: &'static str,
    head: &'static str,
    tail: String,
    /// Asked with TX / TIME coordinates too (they resolve to a sequence and
    /// then share the SEQ path, so a sub-battery is enough).
    all_coordinates: bool,
    /// Also replayed through `read.snapshot_token` (no `AS OF` in the
    /// command): the queries whose answer depends on name resolution or on
    /// schema definitions (`functional`).
    token: bool,
    /// Request parameters (`:subject`, `:d`, ...).
    params: Vec<(&'static str, Json)>,
}

fn battery() -> Vec<Q> {
    let q = |family, head| Q { family, head, tail: String::new(), all_coordinates: false, token: false, params: vec![] };
    let qt = |family, head, tail: &str| Q { family, head, tail: tail.to_string(), all_coordinates: false, token: false, params: vec![] };
    let pinned = format!(" {FOR_TIME}");
    let mut out = vec![
        // element by key / name / type
        q("concept-by-type-key", r#"FIND(?c) WHERE { ?c CONCEPT {type: "Person", key: "a"} }"#),
        qt("concept-by-type-ordered", r#"FIND(?c.id, ?c.name) WHERE { ?c CONCEPT {type: "Person"} }"#, " ORDER BY ?c.name DESC"),
        q("concept-all", r#"FIND(?c) WHERE { ?c CONCEPT {} }"#),
        q("concept-new-type", r#"FIND(?c) WHERE { ?c CONCEPT {type: "Widget"} }"#),
        q("matcher-key-state", r#"FIND(?c.id) WHERE { ?c CONCEPT {state: "active"} }"#),
        q("matcher-key-state", r#"FIND(?c.id) WHERE { ?c CONCEPT {state: "archived"} }"#),
        q("concept-by-id", r#"FIND(?c) WHERE { ?c CONCEPT {id: "C-2"} }"#),
        // ids the seed does not hold: the first Concept / tuple a later
        // statement creates (create-c, widget; extend-rel, assert-idle) — at
        // every earlier point they name nothing
        q("concept-by-id", r#"FIND(?c) WHERE { ?c CONCEPT {id: "C-6"} }"#),
        q("tuple-by-id", r#"FIND(?p) WHERE { ?p PROPOSITION (id: "P-9") }"#),
        q("id-with-indexed-key", r#"FIND(?c.id) WHERE { ?c CONCEPT {id: "C-3", state: "tombstoned"} }"#),
        q("id-with-indexed-key", r#"FIND(?c.id, ?c.name) WHERE { ?c CONCEPT {id: "C-1", name: "Ann"} }"#),
        // tuple patterns
        q("tuple-fixed-predicate", r#"FIND(?p, ?s.name, ?o) WHERE { ?p PROPOSITION (?s, "prefers", ?o) }"#),
        q("tuple-predicate-variable", r#"FIND(?p.id, ?pr, ?o) WHERE { ?s CONCEPT {key: "a"} ?p PROPOSITION (?s, ?pr, ?o) }"#),
        q("tuple-literal-object", r#"FIND(?s.id) WHERE { (?s, "status", "on") }"#),
        q("tuple-new-predicate", r#"FIND(?p.id) WHERE { ?p PROPOSITION (?s, "likes", ?o) }"#),
        q("tuple-by-id", r#"FIND(?p) WHERE { ?p PROPOSITION (id: "P-1") }"#),
        q("tuple-inline-match", r#"FIND(?o.id) WHERE { ({type: "Person", key: "a"}, "prefers", ?o) }"#),
        // records
        q("assertion-all", r#"FIND(?a) WHERE { ?a ASSERTION {} }"#),
        q("assertion-fields", r#"FIND(?a.id, ?a.lifecycle.status, ?a.confidence, ?a.lifecycle.superseded_by) WHERE { ?a ASSERTION {stance: "support"} }"#),
        q("assertion-join", r#"FIND(?a.id, ?p.id, ?who.name) WHERE { ?a ASSERTION {proposition: ?p, asserted_by: ?who, status: "active"} }"#),
        q("evidence-all", r#"FIND(?e) WHERE { ?e EVIDENCE {} }"#),
        // structural / path
        q("structural-from-source", r#"FIND(?t.id, ?t.name) WHERE { ?n CONCEPT {key: "n"} STRUCTURAL (?n, "mentions", ?t) }"#),
        q("structural-open", r#"FIND(?n.id, ?t.id) WHERE { STRUCTURAL (?n, "about", ?t) }"#),
        Q { family: "structural-pinned-source", head: r#"FIND(?t.id) WHERE { STRUCTURAL (:n, "mentions", ?t) }"#, tail: String::new(), all_coordinates: false, token: false, params: vec![("n", json!("C-4"))] },
        Q { family: "structural-pinned-target", head: r#"FIND(?s.id, ?s.name) WHERE { STRUCTURAL (?s, "about", :a) }"#, tail: String::new(), all_coordinates: false, token: false, params: vec![("a", json!("C-1"))] },
        q("structural-bound-source", r#"FIND(?s.id, ?t.id) WHERE { ?s CONCEPT {type: "Insight"} STRUCTURAL (?s, "derived_from", ?t) }"#),
        q("structural-count", r#"FIND(COUNT(?s)) WHERE { STRUCTURAL (?s, "mentions", ?t) }"#),
        q("path-quantified", r#"FIND(?y.id) WHERE { ?x CONCEPT {key: "a"} (?x, "prefers"{1,2}, ?y) }"#),
        q("path-forward-chain", r#"FIND(?y.id) WHERE { ?x CONCEPT {key: "n"} (?x, "rel"{1,3}, ?y) }"#),
        q("path-backward-bound-object", r#"FIND(?from.id) WHERE { ?to CONCEPT {key: "d"} (?from, "rel"{1,3}, ?to) }"#),
        Q { family: "path-backward-fixed-object", head: r#"FIND(?from.id) WHERE { (?from, "rel"{1,2}, :d) }"#, tail: String::new(), all_coordinates: false, token: false, params: vec![("d", json!({"id": "C-3"}))] },
        q("path-both-ends", r#"FIND(?x.id, ?y.id) WHERE { ?x CONCEPT {key: "n"} ?y CONCEPT {key: "d"} (?x, "rel"{1,3}, ?y) }"#),
        q("path-unpinned", r#"FIND(?x.id, ?y.id) WHERE { (?x, "rel"{2}, ?y) }"#),
        q("path-backward-count", r#"FIND(COUNT(?from)) WHERE { ?to CONCEPT {key: "d"} (?from, "rel"{1,3}, ?to) }"#),
        q("path-alternation", r#"FIND(?y) WHERE { ?x CONCEPT {key: "a"} (?x, "prefers" | "status", ?y) }"#),
        // belief and slot, world time pinned
        qt("belief-all", r#"FIND(?p.id, ?b) WHERE { ?p PROPOSITION (?s, ?pr, ?o) ?b BELIEF (?p) }"#, &pinned),
        qt("belief-tuple", r#"FIND(?b.status, ?b.support.score) WHERE { ?s CONCEPT {key: "a"} ?o CONCEPT {key: "d"} ?b BELIEF (?s, "prefers", ?o) }"#, &pinned),
        qt("belief-ledger", r#"FIND(?b) WHERE { ?b BELIEF (id: "P-1") }"#, &format!(r#"{pinned} WITH EPISTEMIC {{explanation: "ledger", include_historical: true}}"#)),
        qt("belief-functional-siblings", r#"FIND(?p.id, ?b.status, ?b.support.score, ?b.opposition.score) WHERE { ?s CONCEPT {key: "a"} ?p PROPOSITION (?s, "status", ?o) ?b BELIEF (?p) }"#, &pinned),
        qt("belief-functional-sibling-by-id", r#"FIND(?b.status, ?b.opposition) WHERE { ?b BELIEF (id: "P-2") }"#, &pinned),
        qt("belief-functional-siblings", r#"FIND(?p.id, ?b.status, ?b.support.score, ?b.opposition.score) WHERE { ?s CONCEPT {key: "b"} ?p PROPOSITION (?s, "status", ?o) ?b BELIEF (?p) }"#, &pinned),
        qt("belief-functional-sibling-by-id", r#"FIND(?b.status, ?b.opposition) WHERE { ?b BELIEF (id: "P-4") }"#, &pinned),
        Q { family: "belief-slot", head: r#"FIND(?slot) WHERE { ?slot BELIEF SLOT (:subject, "status") }"#, tail: pinned.clone(), all_coordinates: false, token: false, params: vec![("subject", json!("C-1"))] },
        Q { family: "belief-slot", head: r#"FIND(?slot) WHERE { ?slot BELIEF SLOT (:subject, "status") }"#, tail: pinned.clone(), all_coordinates: false, token: false, params: vec![("subject", json!("C-2"))] },
        // filters, negation, optional, aggregates, paging
        q("aggregate-count", r#"FIND(COUNT(?c)) WHERE { ?c CONCEPT {} }"#),
        q("aggregate-numeric", r#"FIND(COUNT(?a), AVG(?a.confidence), MAX(?a.confidence)) WHERE { ?a ASSERTION {} }"#),
        q("filter-system", r#"FIND(?c.id) WHERE { ?c CONCEPT {} FILTER(?c._system.version > 1) }"#),
        q("not-block", r#"FIND(?c.id) WHERE { ?c CONCEPT {type: "Person"} NOT { (?c, "prefers", ?x) } }"#),
        q("optional-block", r#"FIND(?c.id, ?o) WHERE { ?c CONCEPT {type: "Person"} OPTIONAL { (?c, "status", ?o) } }"#),
        q("facet-path", r#"FIND(?c.id, ?c.facets["MnemonicState"].memory_strength) WHERE { ?c CONCEPT {key: "n"} }"#),
        qt("filter-function-limit", r#"FIND(?c.id) WHERE { ?c CONCEPT {} FILTER(STARTS_WITH(?c.name, "A") || ?c.name == "Bob") }"#, " ORDER BY ?c.id LIMIT 2"),
    ];
    for q in out.iter_mut() {
        q.all_coordinates = matches!(q.family, "concept-all" | "assertion-all" | "belief-all");
        q.token = matches!(
            q.family,
            "concept-by-type-key" | "concept-new-type" | "concept-all" | "tuple-fixed-predicate" | "tuple-new-predicate"
                | "structural-from-source" | "path-backward-bound-object" | "belief-slot" | "belief-functional-siblings"
        );
    }
    out
}

/// Asks one battery query: at the present (`coordinate` empty, no token), at
/// `AS OF ...`, or bound through a snapshot token. The answer carries the
/// result (or error code) and the `schema_environment_version` of the
/// response context.
fn ask(nx: &Nx, q: &Q, coordinate: &str, token: Option<&str>) -> Json {
    let text = format!("{}{}{}", q.head, coordinate, q.tail);
    let mut params = Map::new();
    for (name, value) in &q.params {
        params.insert((*name).to_string(), value.clone());
    }
    nx.q_env(&text, if params.is_empty() { None } else { Some(&params) }, token)
}

/// The META reads that take a coordinate. `snapshot_seq` in the schema
/// environment answer describes the read itself and is dropped.
fn ask_meta(nx: &Nx, coordinate: &str) -> Vec<Json> {
    let mut env = nx.q(&format!("DESCRIBE SCHEMA ENVIRONMENT{coordinate}"));
    if let Some(object) = env.get_mut("ok").and_then(Json::as_object_mut) {
        object.remove("snapshot_seq");
    }
    vec![env, nx.q(&format!("SNAPSHOT{coordinate}"))]
}

struct Point {
    seq: u64,
    tx: String,
    at: String,
    after_step: String,
    /// `SNAPSHOT` taken while the point was current.
    token: String,
    answers: Vec<Json>,
    meta: Vec<Json>,
}

#[derive(Default)]
struct PathReport {
    path: Vec<usize>,
    labels: Vec<String>,
    /// Every step committed (the path may be extended).
    all_committed: bool,
    violations: Vec<Violation>,
    comparisons: u64,
    comparisons_by_kind: BTreeMap<&'static str, u64>,
    time_skipped: u64,
    statements: u64,
    points: u64,
    /// Replays that were not all-empty / error (non-trivial comparisons).
    nontrivial: u64,
}

fn record(nx: &Nx, battery: &[Q], seq: u64, tx: String, at: String, after_step: &str) -> Point {
    Point {
        seq,
        tx,
        at,
        after_step: after_step.to_string(),
        token: nx.q("SNAPSHOT")["ok"]["snapshot_token"].as_str().unwrap_or("").to_string(),
        answers: battery.iter().map(|q| ask(nx, q, "", None)).collect(),
        meta: ask_meta(nx, ""),
    }
}

const PAYLOAD_ASSERTION: [&str; 9] = [
    "proposition_id", "asserted_by", "stance", "mode", "confidence", "asserted_at", "valid_time", "evidence_refs", "context_refs",
];
const PAYLOAD_EVIDENCE: [&str; 7] = [
    "evidence_class", "payload", "content_digest", "media_type", "observed_at", "source_refs", "generated_by",
];

fn payload(view: &Json, keys: &[&str]) -> Json {
    let mut out = Map::new();
    for key in keys {
        out.insert((*key).to_string(), view.get(*key).cloned().unwrap_or(Json::Null));
    }
    Json::Object(out)
}

/// Every history here is committed statements from the seeded Space, so the
/// ids are fixed: a = C-1, b = C-2, d = C-3, n = C-4, m = C-5, (a prefers d) = P-1,
/// its supporting Assertion = A-1.
fn fixed_params() -> Map<String, Json> {
    let mut out = Map::new();
    for (name, id) in [("a", "C-1"), ("b", "C-2"), ("d", "C-3"), ("n", "C-4"), ("m", "C-5"), ("p", "P-1"), ("as1", "A-1")] {
        out.insert(name.to_string(), Json::String(id.to_string()));
        out.insert(format!("{name}_ref"), json!({"id": id}));
    }
    out
}

fn step_stmt(text: &str, params: Map<String, Json>) -> Stmt {
    Stmt { text: text.to_string(), params, mode: Mode::Commit, who: Who::System }
}

fn replay_json(path: &[usize], steps: &[StepDef]) -> Json {
    json!({
        "world": "seeded",
        "path": path.iter().map(|i| steps[*i].name).collect::<Vec<_>>(),
        "note": "statements as in c18_hist::alphabet(); parameters as in c18_hist::fixed_params()",
    })
}

fn run_path(content: &Content, path: &[usize], plan: &Plan, steps: &[StepDef], battery: &[Q], quick: bool) -> PathReport {
    let (nx, ctl) = match &plan.fault {
        Some(_) => {
            let (nx, ctl) = Nx::open_gated(content);
            (nx, Some(ctl))
        }
        None => (Nx::open(content), None),
    };
    let mut report = PathReport { path: path.to_vec(), all_committed: true, ..Default::default() };
    let mut points = Vec::new();
    if !plan.bare {
        let journal = nx.q("HISTORY SPACE");
        let seed = &journal["ok"][0];
        points.push(record(
            &nx,
            battery,
            seed["space_seq"].as_u64().unwrap_or(0),
            seed["tx_id"].as_str().unwrap_or("").to_string(),
            seed["committed_at"].as_str().unwrap_or("").to_string(),
            "seed",
        ));
    }
    let mut ext_active = false;
    for (i, &s) in path.iter().enumerate() {
        let last = i + 1 == path.len();
        let faulted = matches!(&plan.fault, Some((at, _, _)) if *at == i);
        if let (true, Some((_, j, _)), Some(ctl)) = (faulted, &plan.fault, &ctl) {
            ctl.script(ctl.mutation_attempts() + j, vcore::ctlstore::Answer::ErrBefore);
        }
        let activated = |nx: &Nx, result: Result<u64, String>| match result {
            Ok(_) => {
                let seq = dump::space_seq(nx);
                let row = nx.q(&format!(r#"DESCRIBE TRANSACTION "{}#{seq}""#, vnexus::fixture::SPACE));
                Outcome::Committed {
                    seq,
                    tx: row["ok"]["tx_id"].as_str().unwrap_or("").to_string(),
                    at: row["ok"]["committed_at"].as_str().unwrap_or("").to_string(),
                }
            }
            Err(code) => Outcome::Refused { code },
        };
        let outcome = match steps[s].op {
            Op::FirstActivation => activated(&nx, nx.activate(false)),
            Op::Kml(text) => {
                let (_, outcome) = nx.exec(&step_stmt(text, fixed_params()));
                outcome
            }
            Op::ToggleSchema => {
                let result = nx.activate(!ext_active);
                if result.is_ok() {
                    ext_active = !ext_active;
                }
                activated(&nx, result)
            }
        };
        if let (true, Some(ctl)) = (faulted, &ctl) {
            ctl.reset_faults();
        }
        report.statements += 1;
        report.labels.push(outcome.label());
        let committed = matches!(outcome, Outcome::Committed { .. });
        if !committed {
            report.all_committed = false;
            if !last && !faulted && steps[s].name != "early-refused" {
                // a prefix must be a committed history: the enumeration only
                // extends those, so this is a determinism failure
                vcore::report::machinery(&format!("prefix step {} of {:?} did not commit: {}", steps[s].name, path, outcome.label()));
            }
        }
        if let Outcome::Committed { seq, tx, at } = outcome {
            points.push(record(&nx, battery, seq, tx, at, steps[s].name));
        }
    }
    report.points = points.len() as u64;

    // Replay every recording at its coordinate, now (after the last statement).
    let journal = nx.q("HISTORY SPACE");
    let rows = journal["ok"].as_array().cloned().unwrap_or_default();
    let last_step = path.last().map(|s| steps[*s].name).unwrap_or("nothing");
    let mut replay = replay_json(path, steps);
    replay["bare"] = json!(plan.bare);
    if let Some((at, j, collection)) = &plan.fault {
        replay["fault"] = json!({"position": at, "mutation": j, "collection": collection});
    }
    for point in &points {
        let mut coordinates: Vec<(&'static str, String)> = vec![("seq", format!(" AS OF SEQ {}", point.seq))];
        if !point.tx.is_empty() {
            coordinates.push(("tx", format!(r#" AS OF TX "{}""#, point.tx)));
        }
        // AS OF TIME names "the last transaction committed by then": usable
        // only when no later transaction carries the same (ms) timestamp.
        let ambiguous = point.at.is_empty()
            || rows.iter().any(|r| r["space_seq"].as_u64().unwrap_or(0) > point.seq && r["committed_at"].as_str().unwrap_or("") <= point.at.as_str());
        if quick && point.after_step != "seed" {
            // quick tier: only the seed point (stamped before this Nexus was
            // opened, hence never ambiguous), so the counts do not depend on
            // whether two commits happened to share a millisecond
        } else if ambiguous {
            report.time_skipped += 1;
        } else {
            coordinates.push(("time", format!(r#" AS OF TIME "{}""#, point.at)));
        }
        if !point.token.is_empty() {
            coordinates.push(("token", String::new()));
        }
        for (kind, coordinate) in &coordinates {
            let compare = |family: &str, what: String, live: &Json, then: &Json, report: &mut PathReport| {
                report.comparisons += 1;
                *report.comparisons_by_kind.entry(kind).or_insert(0) += 1;
                if live["ok"].as_array().is_some_and(|rows| !rows.is_empty()) || live["ok"].is_object() {
                    report.nontrivial += 1;
                }
                if live != then {
                    // same content, different order of rows / list members: its own class
                    let class = if canon(live) == canon(then) { "as-of-differs-in-order" } else { "as-of-differs" };
                    let mut replay = replay.clone();
                    replay["observed"] = json!({"query": what, "point_seq": point.seq, "recorded_after": point.after_step,
                                                "replayed_after": last_step, "recorded": live, "replayed": then});
                    let signature = match &plan.fault {
                        // one signature per failed collection: the cause is the
                        // failed write, whichever query family shows it
                        Some((_, _, collection)) => format!("C18|as-of-differs-after-storage-fault|fault-on-{collection}"),
                        None => format!("C18|{class}|{family}"),
                    };
                    report.violations.push(Violation {
                        signature,
                        summary: format!(
                            "`{what}` answered {} when seq {} (after `{}`) was current and {} when replayed after `{last_step}`",
                            short(live), point.seq, point.after_step, short(then)
                        ),
                        replay,
                    });
                }
            };
            for (q, live) in battery.iter().zip(&point.answers) {
                let wanted = match *kind {
                    "seq" => true,
                    "token" => q.token,
                    _ => q.all_coordinates,
                };
                if !wanted {
                    continue;
                }
                let token = (*kind == "token").then_some(point.token.as_str());
                let then = ask(&nx, q, coordinate, token);
                let how = if token.is_some() { " [read.snapshot_token]" } else { "" };
                compare(q.family, format!("{}{}{}{how}", q.head, coordinate, q.tail), live, &then, &mut report);
            }
            if *kind == "token" {
                continue;
            }
            let then = ask_meta(&nx, coordinate);
            for (i, name) in ["schema-environment", "snapshot"].iter().enumerate() {
                compare(name, format!("{name}{coordinate}"), &point.meta[i], &then[i], &mut report);
            }
        }
    }

    // The epistemic payload of an Assertion / Evidence record is the same in
    // every version of it: compare it across every recording (one per version
    // coordinate) of the two whole-kind queries.
    let index_of = |family: &str| battery.iter().position(|q| q.family == family).expect("battery family");
    for (family, keys) in [("assertion-all", &PAYLOAD_ASSERTION[..]), ("evidence-all", &PAYLOAD_EVIDENCE[..])] {
        let qi = index_of(family);
        let mut first: BTreeMap<String, (u64, Json)> = BTreeMap::new();
        for point in &points {
            let Some(rows) = point.answers[qi]["ok"].as_array() else { continue };
            for view in rows {
                let id = view["id"].as_str().unwrap_or("?").to_string();
                let now = payload(view, keys);
                report.comparisons += 1;
                match first.get(&id) {
                    None => {
                        first.insert(id, (point.seq, now));
                    }
                    Some((seq, then)) if *then != now => {
                        let mut replay = replay.clone();
                        replay["observed"] = json!({"element": id, "first_seq": seq, "first": then, "later_seq": point.seq, "later": now});
                        report.violations.push(Violation {
                            signature: format!("C18|payload-changed|{family}"),
                            summary: format!("the epistemic payload of {id} differs between its versions at seq {seq} and seq {}", point.seq),
                            replay,
                        });
                    }
                    Some(_) => {}
                }
            }
        }
    }
    report
}

/// The value with every array sorted (recursively): equal canons = the two
/// answers differ only in order.
fn canon(value: &Json) -> Json {
    match value {
        Json::Array(items) => {
            let mut items: Vec<Json> = items.iter().map(canon).collect();
            items.sort_by_key(|item| item.to_string());
            Json::Array(items)
        }
        Json::Object(map) => Json::Object(map.iter().map(|(k, v)| (k.clone(), canon(v))).collect()),
        other => other.clone(),
    }
}

fn short(value: &Json) -> String {
    let text = value.to_string();
    if text.len() > 160 { format!("{}...", &text[..160]) } else { text }
}

fn main() {
    let mut run = Run::from_args("C18", "hist", "model_checking");
    let steps = alphabet();
    let battery = battery();
    let world = World::build();
    let content = &world.seeded;

    if let Some(file) = run.replay_file.clone() {
        let doc: Json = serde_json::from_slice(&std::fs::read(&file).expect("replay file")).expect("replay json");
        let path: Vec<usize> = doc["replay"]["path"]
            .as_array()
            .expect("path")
            .iter()
            .map(|n| steps.iter().position(|s| Some(s.name) == n.as_str()).expect("step name"))
            .collect();
        let plan = Plan {
            bare: doc["replay"]["bare"].as_bool().unwrap_or(false),
            fault: doc["replay"]["fault"].as_object().map(|f| {
                (f["position"].as_u64().unwrap_or(0) as usize, f["mutation"].as_u64().unwrap_or(0), f["collection"].as_str().unwrap_or("").to_string())
            }),
        };
        let bare = World::bare();
        let report = run_path(if plan.bare { &bare } else { content }, &path, &plan, &steps, &battery, false);
        println!("replay: {:?} -> {:?}", path.iter().map(|i| steps[*i].name).collect::<Vec<_>>(), report.labels);
        for v in report.violations {
            run.violation(v);
        }
        run.finish();
    }

    let max_depth: usize = run.tier.pick(3, 5);
    let threads = util::n_threads();
    let n_enumerated = enumerated(&steps);
    let quick = run.tier == vcore::Tier::Quick;
    let index = |name: &str| steps.iter().position(|s| s.name == name).expect("step name");
    let mut by_kind: BTreeMap<&'static str, u64> = BTreeMap::new();
    let absorb = |run: &mut Run, by_kind: &mut BTreeMap<&'static str, u64>, report: PathReport, tag: &str| -> bool {
        run.add("traces_validated_against_impl", 1);
        run.add("states", 1);
        run.add("transitions", report.statements);
        run.add("evaluations", report.comparisons);
        run.add("nontrivial_comparisons", report.nontrivial);
        run.add("as_of_time_skipped_same_ms", report.time_skipped);
        run.add("points_recorded", report.points);
        for (kind, n) in &report.comparisons_by_kind {
            *by_kind.entry(kind).or_insert(0) += n;
        }
        let names: Vec<&str> = report.path.iter().map(|i| steps[*i].name).collect();
        let last = report.labels.last().cloned().unwrap_or_else(|| "seed".into());
        run.add(&format!("last_step_{}", last.split(':').next().unwrap_or("?")), 1);
        run.distinct(util::fnv64(format!("{tag}|{names:?}|{:?}", report.labels).as_bytes()));
        if !tag.is_empty() && report.path.len() % 2 == 0 {
            run.sample(json!({"kind": tag, "history": names, "outcomes": report.labels, "points": report.points, "comparisons": report.comparisons}));
        }
        let clean = report.violations.is_empty();
        for v in report.violations {
            run.violation(v);
        }
        clean
    };

    // (A) EARLY: a Space written to under Core alone (a commit, a refused
    // statement that burns a sequence, another commit) before its FIRST
    // activation; the early points are replayed after the activation and
    // after later writes / activations.
    {
        let bare = World::bare();
        let early = ["early-evidence", "early-refused", "early-activity", "first-activation"].map(index).to_vec();
        let tails: Vec<Vec<&str>> = vec![vec![], vec!["early-person"], vec!["toggle-schema"], vec!["early-person", "toggle-schema"], vec!["toggle-schema", "early-person"]];
        let jobs: Vec<Vec<usize>> = tails
            .iter()
            .map(|tail| early.iter().copied().chain(tail.iter().map(|n| index(n))).collect())
            .chain([early[..1].to_vec(), early[..3].to_vec()])
            .collect();
        let plan = Plan { bare: true, fault: None };
        let reports = util::par_map(jobs, threads, |path| run_path(&bare, &path, &plan, &steps, &battery, quick));
        run.set("early_histories", json!(reports.len()));
        for report in reports {
            absorb(&mut run, &mut by_kind, report, "early");
        }
    }

    // (B) FAULT: a modifying statement whose j-th backend mutation fails once
    // (nothing written, the statement answers an error), followed by two
    // committed statements; every point is replayed at the end.
    {
        let modifying: Vec<&str> = if quick {
            vec!["rename-a", "archive-b", "supersede"]
        } else {
            vec!["rename-a", "decay-n", "relink-n", "archive-b", "tombstone-d", "retract", "supersede", "merge-b-into-a", "archive-status-off"]
        };
        let mut jobs: Vec<(Vec<usize>, Plan)> = Vec::new();
        let mut per_step = Vec::new();
        for name in modifying {
            // the backend mutations of the uninterrupted statement
            let (nx, ctl) = Nx::open_gated(content);
            let from = ctl.journal_len();
            let Op::Kml(text) = steps[index(name)].op else { continue };
            let (_, outcome) = nx.exec(&step_stmt(text, fixed_params()));
            if !matches!(outcome, Outcome::Committed { .. }) {
                vcore::report::machinery(&format!("fault step {name} does not commit unfaulted: {}", outcome.label()));
            }
            let mutations: Vec<String> = ctl.journal_from(from).iter().map(|e| e.mutation.path().to_string()).collect();
            let journal_at = mutations.iter().position(|m| m.contains("/transactions/data/")).unwrap_or(mutations.len());
            let upto = if quick { (journal_at + 2).min(mutations.len()) } else { mutations.len() };
            per_step.push(json!({"step": name, "backend_mutations": mutations.len(), "faulted": upto}));
            for (j, path) in mutations.iter().enumerate().take(upto) {
                let collection = path.split('/').nth(1).unwrap_or("?").to_string();
                jobs.push((
                    vec![index(name), index("create-c"), index("extend-rel")],
                    Plan { bare: false, fault: Some((0, j as u64, collection)) },
                ));
            }
        }
        let reports = util::par_map(jobs, threads, |(path, plan)| run_path(content, &path, &plan, &steps, &battery, quick));
        run.set("fault_histories", json!(reports.len()));
        run.set("fault_steps", json!(per_step));
        for report in reports {
            absorb(&mut run, &mut by_kind, report, "fault");
        }
    }
    let mut frontier: Vec<Vec<usize>> = vec![vec![]];
    let mut completed_depth = 0;
    'levels: for depth in 0..=max_depth {
        let jobs: Vec<Vec<usize>> = if depth == 0 {
            vec![vec![]]
        } else {
            frontier
                .iter()
                .flat_map(|prefix| {
                    (0..n_enumerated).map(move |s| {
                        let mut path = prefix.clone();
                        path.push(s);
                        path
                    })
                })
                .collect()
        };
        // Quick tier: depth <= 2 over the whole alphabet; depth 3 over the
        // histories built from one representative per mutation kind.
        let jobs: Vec<Vec<usize>> = if run.tier == vcore::Tier::Quick && depth >= 3 {
            jobs.into_iter().filter(|path| path.iter().all(|s| CORE.contains(&steps[*s].name))).collect()
        } else if run.tier == vcore::Tier::Quick && depth == 2 {
            jobs.into_iter().filter(|path| LATER.contains(&steps[path[1]].name)).collect()
        } else {
            jobs
        };
        let total = jobs.len();
        let mut done = 0usize;
        let mut next = Vec::new();
        for chunk in jobs.chunks(threads * 8) {
            if !run.in_budget() {
                run.cap_hit(&format!("time budget: stopped inside depth {depth} after {done}/{total} histories"));
                break 'levels;
            }
            let plan = Plan::default();
            let reports = util::par_map(chunk.to_vec(), threads, |path| run_path(content, &path, &plan, &steps, &battery, quick));
            for report in reports {
                let (path, all_committed) = (report.path.clone(), report.all_committed);
                absorb(&mut run, &mut by_kind, report, "");
                let report = PathReport { path, all_committed, ..Default::default() };
                if report.all_committed && depth > 0 {
                    next.push(report.path.clone());
                }
            }
            done += chunk.len();
        }
        if depth > 0 {
            frontier = next;
            run.set(&format!("histories_depth_{depth}"), json!(total));
            run.set(&format!("committed_depth_{depth}"), json!(frontier.len()));
        }
        completed_depth = depth;
    }
    run.set("completed_depth", json!(completed_depth));
    run.set("battery_queries", json!(battery.len() + 2));
    run.set("alphabet", json!(steps[..n_enumerated].iter().map(|s| s.name).collect::<Vec<_>>()));
    run.set("comparisons_by_coordinate", json!(by_kind));
    run.rule(
        "HIST: all histories over the step alphabet from the seeded Space (quick: depth 1 whole alphabet, depth 2 = whole alphabet x the 12 later-mutation representatives LATER, depth 3 = the 3 representatives CORE; thorough: whole alphabet at every depth), a history being extended only while every step commits \
         (refused / no_effect steps are executed and replayed after, then pruned); the battery is recorded live after the seed and after \
         every commit, and after the LAST statement of each history every recording is replayed AS OF SEQ (whole battery) and \
         AS OF TX / AS OF TIME (3 whole-kind queries + META) and through read.snapshot_token (the name-resolution / schema dependent queries); distinct = (history, last outcome); nontrivial = recorded answer was non-empty",
    );
    run.rule(
        "EARLY: the fixed histories [evidence, refused Person, activity] under Core alone, then the first activation, then {nothing, a Person, an activation, both in either order} from a never-activated database;          FAULT: for each modifying step (quick: rename, archive, supersede) and every backend mutation j of it (quick: up to 2 past the journal row) that mutation fails once with nothing written, then two committed statements follow and every point is replayed",
    );
    run.assume("commit timestamps are wall-clock ms (chrono::Utc::now, not the verif clock): AS OF TIME is replayed only for points whose timestamp is strictly below every later transaction's (skips are counted); in the quick tier only for the seed point");
    run.assume("belief queries are pinned with FOR TIME; the replay compares the `result` of the response (or its error code) and the schema_environment_version of the response context, nothing else of the envelope");
    run.finish();
}

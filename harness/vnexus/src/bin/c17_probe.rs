//! scratch probe (to be deleted)
use std::time::Instant;
use vnexus::{dump, fixture::*};

fn main() {
    let t = Instant::now();
    let world = World::build();
    println!("world {:?}", t.elapsed());
    let args: Vec<String> = std::env::args().skip(1).collect();
    let content = if args.first().map(|s| s.as_str()) == Some("empty") { &world.empty } else { &world.seeded };
    let t = Instant::now();
    let nx = Nx::open(content);
    println!("open {:?}", t.elapsed());
    let t = Instant::now();
    let now = dump::elements(&nx, None);
    println!("elements {:?} ({} q)", t.elapsed(), now.len());
    let spec = dump::spec_from(&nx, &now);
    let t = Instant::now();
    let d = dump::dump(&nx, &spec, Some(now.clone()));
    println!("dump {:?} ({} q) spec={spec:?}", t.elapsed(), d.len());
    let params = dump::params_from(&now);
    println!("params {}", serde_json::to_string(&params).unwrap());
    if args.iter().any(|a| a == "--dump") {
        for (k, v) in &d {
            println!("## {k}\n{}", serde_json::to_string(v).unwrap());
        }
    }
    for a in args.iter().filter(|a| !a.starts_with("--") && *a != "empty" && *a != "seeded") {
        let t = Instant::now();
        let first = a.split_whitespace().next().unwrap_or("").to_uppercase();
        if ["FIND", "DESCRIBE", "LIST", "HISTORY", "CHANGES", "SNAPSHOT", "SEARCH", "EXPORT", "PREVIEW", "VALIDATE"].iter().any(|k| first.starts_with(k)) {
            let r = nx.q(a);
            println!("[{:?}] --- {a}\n{}", t.elapsed(), serde_json::to_string(&r).unwrap());
        } else {
            let now = dump::elements(&nx, None);
            let stmt = Stmt { text: a.clone(), params: dump::params_from(&now), mode: Mode::Commit, who: Who::System };
            let (r, o) = nx.exec(&stmt);
            println!("[{:?}] --- {a}\n{o:?}\n{}", t.elapsed(), serde_json::to_string(&r).unwrap());
        }
    }
}

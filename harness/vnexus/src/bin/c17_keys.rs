//! C17 part `keys` — a logical key identifies at most one Concept of a type,
//! whatever mixture of clauses of ONE statement mints or touches the holders.
//! KEYS: every sequence of 1..=3 (thorough 4) keyed creation clauses over
//! {CREATE, UPSERT} x {Person, Preference} x {key "a", key "z"} inside one
//! MUTATE block, from two Spaces: `empty` (every UPSERT misses) and `held`
//! (empty + one statement: key "a" is held by a Person AND by a Preference, key "z" by nobody: an
//! UPSERT of "a" hits, of "z" misses, a CREATE of "a" conflicts with a
//! committed holder, two mints of one (type, "z") conflict only inside the
//! statement). Oracle: the shared C17 step oracle (`vnexus::oracle`) on the
//! full DUMP before/after — accepted: (type, key) names at most one Concept,
//! every touched element's version +1 once however many clauses touched it,
//! one journal row; refused: everything exactly as it was.

use anda_kip::Json;
use serde_json::json;
use vcore::ctlstore::{self, Content};
use vcore::{Run, Violation, util};
use vnexus::dump::{self, Dump};
use vnexus::fixture::{Mode, Nx, Outcome, Stmt, Who, World};
use vnexus::oracle::{Judged, check_step, mode_name};

const FORMS: [&str; 2] = ["CREATE", "UPSERT"];
const TYPES: [&str; 2] = ["Person", "Preference"];
const KEYS: [&str; 2] = ["a", "z"];
const SHAPE: &str = "keyed-creations-in-one-statement";

#[derive(Clone, Copy, Debug, PartialEq, Eq, PartialOrd, Ord)]
struct Clause {
    form: usize,
    ty: usize,
    key: usize,
}

impl Clause {
    fn label(&self) -> String {
        format!("{} {} {}", FORMS[self.form], TYPES[self.ty], KEYS[self.key])
    }
    /// Clause `i` of the block; every clause writes a different name, so an
    /// UPSERT that hits changes its element.
    fn text(&self, i: usize) -> String {
        let (ty, key) = (TYPES[self.ty], KEYS[self.key]);
        match self.form {
            0 => format!(r#"CREATE CONCEPT ?c{i} {{ TYPE "{ty}" NAME "K{i}" SET FIELDS {{key: "{key}"}} }}"#),
            _ => format!(r#"UPSERT CONCEPT ?c{i} {{ MATCH {{type: "{ty}", key: "{key}"}} SET FIELDS {{name: "K{i}"}} }}"#),
        }
    }
}

fn alphabet() -> Vec<Clause> {
    let mut out = Vec::new();
    for form in 0..FORMS.len() {
        for ty in 0..TYPES.len() {
            for key in 0..KEYS.len() {
                out.push(Clause { form, ty, key });
            }
        }
    }
    out
}

fn statement(clauses: &[Clause]) -> String {
    let body: Vec<String> = clauses.iter().enumerate().map(|(i, c)| format!("    {}", c.text(i + 1))).collect();
    format!("MUTATE {{\n{}\n}}", body.join("\n"))
}

fn name_of(clauses: &[Clause]) -> String {
    clauses.iter().map(Clause::label).collect::<Vec<_>>().join("; ")
}

/// Every sequence of exactly `len` clauses.
fn sequences(len: usize) -> Vec<Vec<Clause>> {
    let alphabet = alphabet();
    let mut out: Vec<Vec<Clause>> = vec![vec![]];
    for _ in 0..len {
        out = out
            .into_iter()
            .flat_map(|prefix| {
                alphabet.iter().map(move |c| {
                    let mut next = prefix.clone();
                    next.push(*c);
                    next
                })
            })
            .collect();
    }
    out
}

#[derive(Clone)]
struct Case {
    clauses: Vec<Clause>,
    mode: Mode,
}

struct Space {
    name: &'static str,
    content: Content,
    /// Spec and DUMP of a Nexus freshly opened over `content`.
    spec: dump::Spec,
    initial: Dump,
}

fn space(name: &'static str, content: Content) -> Space {
    let nx = Nx::open(&content);
    let now = dump::elements(&nx, None);
    let spec = dump::spec_from(&nx, &now, dump::Window::ALL);
    let initial = dump::dump(&nx, &spec, Some(now));
    // every instance is restored from the same bytes: a second one must
    // answer the same, or the cached initial DUMP is not a before-dump
    let again = Nx::open(&content);
    if dump::dump(&again, &spec, None) != initial {
        vcore::report::machinery(&format!("two instances restored from the `{name}` snapshot answer differently"));
    }
    Space { name, content, spec, initial }
}

/// The empty Space plus a Person and a Preference both keyed "a".
fn held(world: &World) -> Content {
    let nx = Nx::open(&world.empty);
    let (_, outcome) = nx.exec(&Stmt::sys(
        r#"MUTATE {
            CREATE CONCEPT ?x { TYPE "Person" NAME "Ann" SET FIELDS {key: "a"} }
            CREATE CONCEPT ?y { TYPE "Preference" NAME "Apref" SET FIELDS {key: "a"} }
        }"#,
    ));
    if !matches!(outcome, Outcome::Committed { .. }) {
        vcore::report::machinery(&format!("`held` Space: the two Concepts keyed a did not commit: {}", outcome.label()));
    }
    vcore::util::block_on(async { nx.nexus.close().await.expect("close") });
    ctlstore::snapshot(&nx.store)
}

struct Evaluated {
    case: Case,
    outcome: Outcome,
    changed: bool,
    chained_after: usize,
    violations: Vec<Violation>,
    queries: u64,
}

fn replay_json(space: &str, case: &Case) -> Json {
    json!({
        "space": space,
        "mode": mode_name(case.mode),
        "clauses": case.clauses.iter().map(|c| json!([FORMS[c.form], TYPES[c.ty], KEYS[c.key]])).collect::<Vec<_>>(),
        "text": statement(&case.clauses),
    })
}

/// Runs `cases` in order. Statements that leave the DUMP unchanged are chained
/// on one instance; after a statement that changed it the instance is
/// discarded and the next case starts on a fresh one (whose before-dump is
/// the Space's cached initial DUMP).
fn run_cases(space: &Space, cases: &[Case]) -> (Vec<Evaluated>, u64) {
    let mut out = Vec::new();
    let mut instances = 0u64;
    let mut live: Option<(Nx, dump::Spec, Dump, usize)> = None;
    for case in cases {
        let (nx, mut spec, mut before, chained) = match live.take() {
            Some(live) => live,
            None => {
                instances += 1;
                (Nx::open(&space.content), space.spec.clone(), space.initial.clone(), 0)
            }
        };
        let mut queries = dump::retarget(&nx, &mut spec, &mut before);
        let seq_before = dump::space_seq(&nx);
        let stmt = Stmt { text: statement(&case.clauses), params: Default::default(), mode: case.mode, who: Who::System };
        let (_, outcome) = nx.exec(&stmt);
        let seq_after = dump::space_seq(&nx);
        let after = dump::dump(&nx, &spec, None);
        queries += after.len() as u64 + 2;
        let name = name_of(&case.clauses);
        let judged = Judged { name: &name, shape: SHAPE };
        let replay = replay_json(space.name, case);
        let (violations, changed) = check_step(judged, case.mode, &outcome, seq_before, seq_after, &before, &after, &replay);
        out.push(Evaluated { case: case.clone(), outcome, changed, chained_after: chained, violations, queries });
        if !changed {
            live = Some((nx, spec, after, chained + 1));
        }
    }
    (out, instances)
}

fn main() {
    let mut run = Run::from_args("C17", "keys", "model_checking");
    let world = World::build();
    let spaces = [space("empty", world.empty.clone()), space("held", held(&world))];

    if let Some(file) = run.replay_file.clone() {
        let doc: Json = serde_json::from_slice(&std::fs::read(&file).expect("replay file")).expect("replay json");
        let replay = &doc["replay"];
        let space = spaces.iter().find(|s| Some(s.name) == replay["space"].as_str()).expect("space");
        let index = |names: &[&str], value: &Json| names.iter().position(|n| Some(*n) == value.as_str()).expect("clause member");
        let clauses: Vec<Clause> = replay["clauses"]
            .as_array()
            .expect("clauses")
            .iter()
            .map(|c| Clause { form: index(&FORMS, &c[0]), ty: index(&TYPES, &c[1]), key: index(&KEYS, &c[2]) })
            .collect();
        let mode = match replay["mode"].as_str() {
            Some("dry_run") => Mode::DryRun,
            _ => Mode::Commit,
        };
        let (evaluated, _) = run_cases(space, &[Case { clauses, mode }]);
        for e in evaluated {
            println!("replay: [{}] {} -> {}", space.name, name_of(&e.case.clauses), e.outcome.label());
            for v in e.violations {
                run.violation(v);
            }
        }
        run.finish();
    }

    let max_len: usize = run.tier.pick(3, 4);
    let threads = util::n_threads();
    let mut completed_len = 0;
    'lengths: for len in 1..=max_len {
        let mut cases: Vec<Case> = Vec::new();
        for clauses in sequences(len) {
            cases.push(Case { clauses: clauses.clone(), mode: Mode::Commit });
            // the dry run of the same block (it must change nothing): up to two clauses
            if len <= 2 {
                cases.push(Case { clauses, mode: Mode::DryRun });
            }
        }
        let mut jobs: Vec<(usize, Vec<Case>)> = Vec::new();
        for s in 0..spaces.len() {
            for piece in cases.chunks(16) {
                jobs.push((s, piece.to_vec()));
            }
        }
        let total = jobs.iter().map(|(_, c)| c.len()).sum::<usize>();
        let mut done = 0usize;
        for chunk in jobs.chunks(threads * 4) {
            if !run.in_budget() {
                run.cap_hit(&format!("time budget: stopped inside length {len} after {done}/{total} statements"));
                break 'lengths;
            }
            let results = util::par_map(chunk.to_vec(), threads, |(s, cases)| (s, run_cases(&spaces[s], &cases)));
            for (s, (evaluated, instances)) in results {
                run.add("traces_validated_against_impl", instances);
                for e in evaluated {
                    done += 1;
                    run.add("evaluations", 1);
                    run.add("states", 1);
                    run.add("transitions", 1);
                    run.add("queries", e.queries);
                    run.add(&format!("outcome_{}", e.outcome.label().split(':').next().unwrap_or("?")), 1);
                    let name = name_of(&e.case.clauses);
                    let key = format!("{}|{name}|{}|{}", spaces[s].name, mode_name(e.case.mode), e.outcome.label());
                    run.distinct(util::fnv64(key.as_bytes()));
                    if len == 3 && e.case.clauses[0].key == e.case.clauses[2].key && e.case.clauses[0].ty != e.case.clauses[1].ty && done % 23 == 0 {
                        run.sample(json!({"space": spaces[s].name, "statement": name, "mode": mode_name(e.case.mode),
                                          "outcome": e.outcome.label(), "state_changed": e.changed,
                                          "executed_after_unchanged_statements": e.chained_after}));
                    }
                    for v in e.violations {
                        run.violation(v);
                    }
                }
            }
        }
        completed_len = len;
        run.set(&format!("statements_length_{len}"), json!(total));
    }
    run.set("completed_length", json!(completed_len));
    run.set("clause_alphabet", json!(alphabet().iter().map(Clause::label).collect::<Vec<_>>()));
    run.rule(
        "KEYS: every sequence of 1..=L keyed creation clauses ({CREATE CONCEPT, UPSERT CONCEPT} x {Person, Preference} x {key a, key z}, 8 clauses; quick L = 3, thorough L = 4) \
         as ONE MUTATE block in commit mode (and, for L <= 2, as a dry run), from two Spaces: `empty` (every UPSERT misses) and `held` (empty + one committed statement: a is held under both types, z under none, \
         so UPSERT a hits and UPSERT z misses); refused statements are chained on one instance, a state-changing one ends the instance; distinct = (Space, clause sequence, mode, outcome)",
    );
    run.assume("the before-dump of a freshly restored instance is the Space's initial DUMP taken once (two instances restored from the same bytes are checked to answer identically at start-up)");
    run.finish();
}

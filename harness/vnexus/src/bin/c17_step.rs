//! C17 part `step` — a statement is never observed in part by any reader.
//! STEP: one writer statement (several rows) ∥ one reader issuing a sequence
//! of read commands, on a real Nexus over a gated `CtlStore`: every backend
//! call is a scheduling point, and all interleavings with at most B
//! preemptions are enumerated (`vcore::choice::explore` + `step::Sched`).
//! Oracle (differential): every single read command answers exactly what it
//! answers before the statement or what it answers after it — never anything
//! else — and once a command has seen the after-state no later command of the
//! same reader sees the before-state. A refused / dry / previewed statement
//! has before == after, so the reader must never notice it at all.

use anda_kip::Json;
use serde_json::json;
use std::cell::RefCell;
use std::rc::Rc;
use std::time::{Duration, Instant};
use vcore::choice::{self, Chooser};
use vcore::ctlstore::Content;
use vcore::step::{RunEnd, Sched};
use vcore::{Run, Violation, util};
use vnexus::dump;
use vnexus::fixture::{Mode, Nx, Outcome, Stmt, Who, World};

struct Scenario {
    name: String,
    mode: Mode,
    text: &'static str,
    /// `Some`: the reader issues just this one command (a probe that can be
    /// scheduled at any point of the writer with a single preemption);
    /// `None`: the reader issues the whole `reader_commands()` list.
    probe: Option<&'static str>,
}

/// Concept + Evidence + Activity in one statement (three kinds, written in
/// three different collections one row at a time).
const MULTI_KIND: &str = r#"MUTATE {
    CREATE CONCEPT ?c { TYPE "Person" NAME "Tri" SET FIELDS {key: "tri"} }
    CREATE EVIDENCE ?e { SET FIELDS {evidence_class: "tool_result", payload: "tri"} SET STRUCTURAL { ("generated_by", ?act) } }
    CREATE ACTIVITY ?act { SET FIELDS {activity_class: "tool_execution"} SET STRUCTURAL { ("outputs", ?e) } }
}"#;

/// Single-command readers: every META command that reads element or journal
/// rows, plus two KQL controls.
const PROBES: [&str; 7] = [
    "DESCRIBE PRIMER",
    r#"SEARCH CONCEPT "Tri""#,
    r#"SEARCH COGNITION "tri""#,
    "HISTORY SPACE",
    "CHANGES AFTER SEQ 0 LIMIT 100",
    "FIND(COUNT(?x)) WHERE { ?x EVIDENCE {} }",
    r#"FIND(?x.id) WHERE { ?x ACTIVITY {state: "pending"} }"#,
];

const BLOCK: &str = r#"MUTATE {
    CREATE ASSERTION ?as { SET FIELDS {proposition: ?p, asserted_by: ?n, stance: "support", mode: "stated", confidence: 0.6, asserted_at: "2026-02-01T00:00:00Z"}
                           SET STRUCTURAL { ("evidence", ?e) {role: "support"} } }
    ENSURE PROPOSITION ?p (?n, "prefers", ?m)
    CREATE EVIDENCE ?e { SET FIELDS {evidence_class: "user_statement", payload: "fwd", observed_at: "2026-02-01T00:00:00Z"} }
    CREATE CONCEPT ?n { TYPE "Person" NAME "Fwd" }
    CREATE CONCEPT ?m { TYPE "Preference" NAME "FwdPref" }
}"#;

fn scenarios() -> Vec<Scenario> {
    let mut out = vec![
        Scenario { name: "five-new-rows".into(), mode: Mode::Commit, text: BLOCK, probe: None },
        Scenario {
            name: "supersede-two-rows".into(),
            probe: None,
            mode: Mode::Commit,
            text: r#"MUTATE {
                CREATE ASSERTION ?new { SET FIELDS {proposition: :p, asserted_by: :a, stance: "reject", mode: "stated", confidence: 0.8, asserted_at: "2026-02-02T00:00:00Z"} }
                SUPERSEDE ASSERTION :as1 BY ?new
            }"#,
        },
        Scenario {
            name: "archive-and-rename".into(),
            probe: None,
            mode: Mode::Commit,
            text: r#"MUTATE {
                UPDATE ?c SET FIELDS {name: "Ann B."} WHERE { ?c CONCEPT {key: "a"} }
                ARCHIVE ?c2 WHERE { ?c2 CONCEPT {key: "b"} }
                TOMBSTONE ?c3 WHERE { ?c3 CONCEPT {key: "d"} }
            }"#,
        },
        Scenario { name: "five-new-rows-dry-run".into(), mode: Mode::DryRun, text: BLOCK, probe: None },
        Scenario { name: "five-new-rows-preview".into(), mode: Mode::Preview, text: BLOCK, probe: None },
        Scenario {
            name: "key-conflict-at-commit".into(),
            probe: None,
            mode: Mode::Commit,
            text: r#"MUTATE {
                CREATE CONCEPT ?x { TYPE "Person" NAME "K1" SET FIELDS {key: "k"} }
                CREATE CONCEPT ?y { TYPE "Person" NAME "K2" SET FIELDS {key: "k"} }
            }"#,
        },
    ];
    for (statement, text) in [("three-kinds", MULTI_KIND), ("five-new-rows", BLOCK)] {
        for probe in PROBES {
            // the label is the command family, stable for signatures
            let label: String = probe.split_whitespace().take(2).collect::<Vec<_>>().join("-").to_lowercase().replace(['(', ')', '?', '"'], "");
            out.push(Scenario { name: format!("{statement}|probe-{label}"), mode: Mode::Commit, text, probe: Some(probe) });
        }
    }
    out
}

/// What the reader asks, in this order.
fn reader_commands() -> Vec<String> {
    vec![
        r#"FIND(?x.id, ?x.name, ?x._system.version) WHERE { ?x CONCEPT {} }"#.to_string(),
        r#"FIND(?x.id) WHERE { ?x CONCEPT {state: "pending"} }"#.to_string(),
        r#"FIND(?x.id, ?x.lifecycle.status) WHERE { ?x ASSERTION {} }"#.to_string(),
        r#"FIND(?x.id) WHERE { ?x ASSERTION {state: "pending"} }"#.to_string(),
        "FIND(?p.id) WHERE { ?p PROPOSITION (?s, ?pr, ?o) }".to_string(),
        r#"FIND(?x.id) WHERE { ?x EVIDENCE {} }"#.to_string(),
        r#"FIND(?x.id) WHERE { ?x EVIDENCE {state: "pending"} }"#.to_string(),
        format!("FIND(?p.id, ?b.status) WHERE {{ ?p PROPOSITION (?s, ?pr, ?o) ?b BELIEF (?p) }} {}", dump::FOR_TIME),
        "FIND(COUNT(?x)) WHERE { ?x CONCEPT {} }".to_string(),
        "HISTORY SPACE".to_string(),
        "DESCRIBE PRIMER".to_string(),
        r#"FIND(?x.id) WHERE { ?x CONCEPT {state: "archived"} }"#.to_string(),
    ]
}

/// Suspends once and wakes itself: an explicit scheduling point.
struct YieldOnce(bool);

impl std::future::Future for YieldOnce {
    type Output = ();
    fn poll(mut self: std::pin::Pin<&mut Self>, cx: &mut std::task::Context<'_>) -> std::task::Poll<()> {
        if self.0 {
            return std::task::Poll::Ready(());
        }
        self.0 = true;
        cx.waker().wake_by_ref();
        std::task::Poll::Pending
    }
}

fn masked(label: &str, mut answer: Json) -> Json {
    dump::mask(label, &mut answer);
    answer
}

struct Verdict {
    problem: Option<(String, String, Json)>,
    steps: usize,
    writer: String,
    /// How many reader commands saw the after-state (schedule class).
    saw_after: usize,
    changed_commands: usize,
}

fn one_execution(content: &Content, scenario: &Scenario, ch: &mut Chooser) -> Verdict {
    let (nx, ctl) = Nx::open_gated(content);
    let commands = match scenario.probe {
        Some(probe) => vec![probe.to_string()],
        None => reader_commands(),
    };
    let before: Vec<Json> = commands.iter().map(|c| masked(c, nx.q(c))).collect();
    let stmt = Stmt {
        text: scenario.text.to_string(),
        params: dump::params_from(&dump::elements(&nx, None)),
        mode: scenario.mode,
        who: Who::System,
    };
    let seen: Rc<RefCell<Vec<Json>>> = Rc::new(RefCell::new(Vec::new()));
    let outcome: Rc<RefCell<Option<Outcome>>> = Rc::new(RefCell::new(None));

    ctl.set_gate(true);
    let (end, steps) = {
        let mut sched = Sched::new();
        let switch = ctl.clone();
        sched.on_switch = Some(Box::new(move |t| switch.set_task(t)));
        let (nx_w, out_w, stmt_w) = (&nx, outcome.clone(), &stmt);
        sched.spawn("writer", async move {
            let (_, out) = nx_w.exec_async(stmt_w).await;
            *out_w.borrow_mut() = Some(out);
        });
        let (nx_r, seen_r, commands_r) = (&nx, seen.clone(), &commands);
        sched.spawn("reader", async move {
            for command in commands_r {
                // A read on a warm database touches no backend, so the reader
                // would run all its commands in one poll: commands arrive one
                // at a time, with a scheduling point in between.
                YieldOnce(false).await;
                let answer = nx_r.q_async(command).await;
                seen_r.borrow_mut().push(masked(command, answer));
            }
        });
        let end = sched.run(ch, 200_000);
        (end, sched.steps.len())
    };
    ctl.set_gate(false);
    ctl.set_task(99);

    let writer = outcome.borrow().as_ref().map(|o| o.label()).unwrap_or_else(|| "unfinished".into());
    let mut verdict = Verdict { problem: None, steps, writer: writer.clone(), saw_after: 0, changed_commands: 0 };
    match end {
        RunEnd::AllDone => {}
        RunEnd::Deadlock(who) => {
            verdict.problem = Some(("deadlock".into(), format!("tasks {who:?} blocked forever"), json!({})));
            return verdict;
        }
        RunEnd::StepLimit => {
            verdict.problem = Some(("livelock".into(), "no completion within 200000 scheduling steps".into(), json!({})));
            return verdict;
        }
    }
    let after: Vec<Json> = commands.iter().map(|c| masked(c, nx.q(c))).collect();
    let seen = seen.borrow();
    let mut first_after: Option<usize> = None;
    for (i, command) in commands.iter().enumerate() {
        let moved = before[i] != after[i];
        if moved {
            verdict.changed_commands += 1;
        }
        if seen[i] != before[i] && seen[i] != after[i] {
            let kind = if moved {
                "reader-saw-a-mixture"
            } else if writer == "committed" || writer == "no_effect" {
                "reader-saw-an-in-flight-statement"
            } else {
                "reader-saw-a-refused-or-dry-statement"
            };
            verdict.problem = Some((
                format!("{kind}|{}", scenario.name),
                format!("reader command `{command}` answered {} — neither the before-answer {} nor the after-answer {} (writer ended {writer})", seen[i], before[i], after[i]),
                json!({"command": command, "seen": seen[i], "before": before[i], "after": after[i]}),
            ));
            return verdict;
        }
        if moved && seen[i] == after[i] {
            verdict.saw_after += 1;
            first_after.get_or_insert(i);
        }
        if moved && seen[i] == before[i] && first_after.is_some() {
            verdict.problem = Some((
                format!("reader-went-back-in-time|{}", scenario.name),
                format!("reader command #{} already saw the committed statement, the later `{command}` still saw the state before it", first_after.unwrap_or(0)),
                json!({"command": command, "seen": seen[i], "before": before[i], "after": after[i]}),
            ));
            return verdict;
        }
    }
    verdict
}

fn main() {
    let mut run = Run::from_args("C17", "step", "model_checking");
    let world = World::build();
    let content = &world.seeded;
    let scenarios = scenarios();

    if let Some(file) = run.replay_file.clone() {
        let doc: Json = serde_json::from_slice(&std::fs::read(&file).expect("replay file")).expect("replay json");
        let name = doc["replay"]["scenario"].as_str().unwrap_or("");
        let scenario = scenarios.iter().find(|s| s.name.as_str() == name).expect("scenario");
        let choices: Vec<u32> = serde_json::from_value(doc["replay"]["choices"].clone()).expect("choices");
        let mut ch = Chooser::new(choices);
        let verdict = one_execution(content, scenario, &mut ch);
        if let Some(d) = ch.diverged {
            vcore::report::machinery(&format!("replay diverged: {d}"));
        }
        println!("replay: writer ended {}, {} scheduling steps", verdict.writer, verdict.steps);
        if let Some((sig, summary, observed)) = verdict.problem {
            run.violation(Violation {
                signature: format!("C17|{sig}"),
                summary,
                replay: json!({"scenario": name, "choices": doc["replay"]["choices"], "observed": observed}),
            });
        }
        run.finish();
    }

    let bound: u32 = run.tier.pick(1, 3);
    let overall = Instant::now() + Duration::from_secs_f64(run.budget_s);
    let max_execs: u64 = 1_000_000;
    let mut completed: Vec<Json> = Vec::new();
    for scenario in &scenarios {
        let deadline = overall;
        let mut found: Vec<Violation> = Vec::new();
        let mut classes: std::collections::BTreeMap<(String, usize), u64> = Default::default();
        let mut steps_max = 0usize;
        let mut changed = 0usize;
        let stats = choice::explore(
            bound,
            util::n_threads(),
            deadline,
            max_execs,
            |ch| one_execution(content, scenario, ch),
            |choices, verdict| {
                steps_max = steps_max.max(verdict.steps);
                changed = changed.max(verdict.changed_commands);
                *classes.entry((verdict.writer.clone(), verdict.saw_after)).or_insert(0) += 1;
                if let Some((sig, summary, observed)) = verdict.problem {
                    found.push(Violation {
                        signature: format!("C17|{sig}"),
                        summary,
                        replay: json!({"scenario": scenario.name, "choices": choices, "observed": observed}),
                    });
                }
                true
            },
        );
        run.add("evaluations", stats.executions);
        run.add("traces_validated_against_impl", stats.executions);
        run.add("transitions", stats.executions * steps_max as u64);
        run.add("states", classes.len() as u64);
        for ((writer, saw_after), n) in &classes {
            run.distinct(util::fnv64(format!("{}|{writer}|{saw_after}", scenario.name).as_bytes()));
            run.sample(json!({"scenario": scenario.name, "writer_outcome": writer, "reader_commands_that_saw_the_after_state": saw_after,
                              "of_commands_whose_answer_moves": changed, "executions": n}));
        }
        if stats.capped {
            run.cap_hit(&format!("{}: stopped after {} executions (completed preemption bound {:?})", scenario.name, stats.executions, stats.completed_bound));
        }
        completed.push(json!({"scenario": scenario.name, "executions": stats.executions, "completed_bound": stats.completed_bound,
                              "scheduling_steps_max": steps_max, "schedule_classes": classes.len()}));
        for v in found {
            run.violation(v);
        }
    }
    run.set("scenarios", json!(completed));
    run.set("preemption_bound", json!(bound));
    run.rule(
        "STEP: for each writer scenario (multi-row commit, dry run, PREVIEW KML, statement refused at commit) one writer task ∥ one reader task \
         issuing 12 read commands, every backend call of the gated store a scheduling point, all schedules with <= B preemptions \
         (deviation-bounded DFS); distinct = (scenario, writer outcome, number of reader commands that saw the after-state); \
         `states` counts those schedule classes, `transitions` = executions x max scheduling steps",
    );
    run.assume("atomic visibility is per read command (each takes the Nexus lock once); a multi-command dump is not one atomic read and is not required to be");
    run.assume("suspension points are the gated store calls and the async locks; code between two of them runs atomically (single-threaded executor)");
    run.finish();
}

//! C17 part `crash` — an interrupted statement leaves nothing behind after
//! the next open. CRASH: for every multi-kind statement template and every j,
//! the store loses power at the j-th backend mutation of the statement
//! (`CtlStore::crash_after_mutations(j)`); the Nexus is dropped, a fresh one
//! is connected over the content the store held at that instant, and the
//! full DUMP is taken. Oracle (differential): the dump equals the dump before
//! the statement or the dump after its uninterrupted run, and no query shows
//! an element in the `pending` state.

use anda_kip::Json;
use serde_json::json;
use vcore::ctlstore::{self, Content};
use vcore::{Run, Violation, util};
use vnexus::dump::{self, Dump};
use vnexus::fixture::{Mode, Nx, Outcome, Stmt, Who, World};

struct Template {
    name: &'static str,
    text: &'static str,
}

fn templates() -> Vec<Template> {
    let t = |name, text| Template { name, text };
    vec![
        // no Concept shell: Evidence + Activity only
        t("evidence-activity", r#"MUTATE {
            CREATE EVIDENCE ?e { SET FIELDS {evidence_class: "tool_result", payload: "42"} SET STRUCTURAL { ("generated_by", ?act) } }
            CREATE ACTIVITY ?act { SET FIELDS {activity_class: "tool_execution"} SET STRUCTURAL { ("outputs", ?e) } }
        }"#),
        // the ASSERT sugar on existing Concepts: Proposition + Assertion shells
        t("assert-on-existing", r#"ASSERT (:a_ref, "prefers", :b_ref) { by: :a_ref, mode: "stated", confidence: 0.5, at: "2026-03-05T00:00:00Z" }"#),
        // Assertion shell only (existing tuple), plus a lifecycle rewrite
        t("supersede", r#"MUTATE {
            CREATE ASSERTION ?new { SET FIELDS {proposition: :p, asserted_by: :a, stance: "reject", mode: "stated", confidence: 0.8, asserted_at: "2026-02-02T00:00:00Z"} }
            SUPERSEDE ASSERTION :as1 BY ?new
        }"#),
        // every kind at once
        t("all-kinds", r#"MUTATE {
            CREATE CONCEPT ?c { TYPE "Person" NAME "Tri" SET FIELDS {key: "tri"} }
            CREATE EVIDENCE ?e { SET FIELDS {evidence_class: "tool_result", payload: "tri"} SET STRUCTURAL { ("generated_by", ?act) } }
            CREATE ACTIVITY ?act { SET FIELDS {activity_class: "tool_execution"} SET STRUCTURAL { ("outputs", ?e) } }
            ENSURE PROPOSITION ?p (:a_ref, "prefers", ?c)
            CREATE ASSERTION ?as { SET FIELDS {proposition: ?p, asserted_by: ?c, stance: "support", mode: "stated", confidence: 0.6, asserted_at: "2026-02-01T00:00:00Z"}
                                   SET STRUCTURAL { ("evidence", ?e) {role: "support"} } }
        }"#),
        // rewrites of existing rows only
        t("rename-archive-tombstone", r#"MUTATE {
            UPDATE ?c SET FIELDS {name: "Ann B."} WHERE { ?c CONCEPT {key: "a"} }
            ARCHIVE ?c2 WHERE { ?c2 CONCEPT {key: "b"} }
            TOMBSTONE ?c3 WHERE { ?c3 CONCEPT {key: "d"} }
        }"#),
    ]
}

fn stmt(nx: &Nx, template: &Template) -> Stmt {
    Stmt {
        text: template.text.to_string(),
        params: dump::params_from(&dump::elements(nx, None)),
        mode: Mode::Commit,
        who: Who::System,
    }
}

struct Baseline {
    spec: dump::Spec,
    before: Dump,
    after: Dump,
    /// Backend mutations of the uninterrupted statement, in order.
    mutations: Vec<String>,
}

fn baseline(content: &Content, template: &Template) -> Baseline {
    let (nx, ctl) = Nx::open_gated(content);
    let now = dump::elements(&nx, None);
    let spec = dump::spec_from(&nx, &now, dump::Window::ALL);
    let before = dump::dump(&nx, &spec, Some(now));
    let from = ctl.journal_len();
    let (_, outcome) = nx.exec(&stmt(&nx, template));
    if !matches!(outcome, Outcome::Committed { .. }) {
        vcore::report::machinery(&format!("crash template {} does not commit uninterrupted: {}", template.name, outcome.label()));
    }
    let mutations = ctl.journal_from(from).iter().map(|e| e.mutation.label()).collect();
    let after = dump::dump(&nx, &spec, None);
    Baseline { spec, before, after, mutations }
}

/// Timestamps differ between two runs of one statement: compare the
/// after-state with them masked.
fn mask_times(value: &Json) -> Json {
    match value {
        Json::Object(map) => Json::Object(
            map.iter()
                .map(|(k, v)| {
                    let stamp = matches!(k.as_str(), "created_at" | "updated_at" | "committed_at" | "retracted_at");
                    (k.clone(), if stamp && v.is_string() { json!("<time>") } else { mask_times(v) })
                })
                .collect(),
        ),
        Json::Array(items) => Json::Array(items.iter().map(mask_times).collect()),
        other => other.clone(),
    }
}

fn masked(dump: &Dump) -> Dump {
    dump.iter().map(|(k, v)| (k.clone(), mask_times(v))).collect()
}

struct Verdict {
    j: usize,
    outcome: String,
    landed: &'static str,
    problems: Vec<(String, String, Json)>,
}

fn crash_at(content: &Content, template: &Template, base: &Baseline, j: usize) -> Verdict {
    let (nx, ctl) = Nx::open_gated(content);
    let statement = stmt(&nx, template);
    ctl.crash_after_mutations(j as u64);
    let (_, outcome) = nx.exec(&statement);
    // what the store holds at the instant of the power failure
    let crashed = ctlstore::snapshot(&nx.store);
    drop(nx);
    let reopened = Nx::open(&crashed);
    let seen = dump::dump(&reopened, &base.spec, None);
    let mut problems = Vec::new();
    let (seen_m, before_m, after_m) = (masked(&seen), masked(&base.before), masked(&base.after));
    let landed = if seen_m == before_m {
        "before"
    } else if seen_m == after_m {
        "after"
    } else {
        "neither"
    };
    let pending: Vec<&String> = seen
        .iter()
        .filter(|(label, answer)| label.contains(r#"state: "pending""#) && answer["ok"].as_array().is_some_and(|rows| !rows.is_empty()))
        .map(|(label, _)| label)
        .collect();
    if !pending.is_empty() {
        problems.push((
            format!(
                "crash-leaves-pending-shells|{}",
                pending
                    .iter()
                    .filter_map(|l| l.split_whitespace().nth(4))
                    .map(str::to_lowercase)
                    .collect::<Vec<_>>()
                    .join("+")
            ),
            format!(
                "`{}` interrupted at backend mutation {j} ({}): after the reopen {:?} still answer non-empty",
                template.name,
                base.mutations.get(j).map(String::as_str).unwrap_or("-"),
                pending
            ),
            json!({"pending": pending.iter().map(|l| (l.to_string(), seen[*l].clone())).collect::<Vec<_>>()}),
        ));
    }
    if landed == "neither" {
        let differing_before = dump::diff(&before_m, &seen_m);
        let class = dump::diff_class(&differing_before);
        if class != "pending-shells-only" {
            problems.push((
                format!("crash-leaves-part-of-a-statement|{}", {
                    // where in the statement's write sequence the power failed
                    let journal_at = base.mutations.iter().position(|m| m.contains("/transactions/data/")).unwrap_or(usize::MAX);
                    if j <= journal_at { "between-first-row-and-journal-row" } else { "after-journal-row" }
                }),
                format!(
                    "`{}` interrupted at backend mutation {j} ({}): the reopened Space is neither the state before the statement nor the state after it [{class}], e.g. {:?}",
                    template.name,
                    base.mutations.get(j).map(String::as_str).unwrap_or("-"),
                    differing_before.iter().take(3).collect::<Vec<_>>()
                ),
                json!({"differs_from_before": differing_before.iter().take(10).collect::<Vec<_>>(),
                       "seen": differing_before.iter().take(3).map(|l| seen.get(l)).collect::<Vec<_>>()}),
            ));
        }
    }
    Verdict { j, outcome: outcome.label(), landed, problems }
}

fn main() {
    let mut run = Run::from_args("C17", "crash", "model_checking");
    let world = World::build();
    let content = &world.seeded;
    let templates = templates();

    if let Some(file) = run.replay_file.clone() {
        let doc: Json = serde_json::from_slice(&std::fs::read(&file).expect("replay file")).expect("replay json");
        let name = doc["replay"]["template"].as_str().unwrap_or("");
        let template = templates.iter().find(|t| t.name == name).expect("template");
        let j = doc["replay"]["crash_at_mutation"].as_u64().unwrap_or(0) as usize;
        let base = baseline(content, template);
        let verdict = crash_at(content, template, &base, j);
        println!("replay: {name} crash at {j}: statement {}, reopened = {}", verdict.outcome, verdict.landed);
        for (sig, summary, observed) in verdict.problems {
            run.violation(Violation { signature: format!("C17|{sig}"), summary, replay: json!({"template": name, "crash_at_mutation": j, "observed": observed}) });
        }
        run.finish();
    }

    if run.args.iter().any(|a| a == "--list") {
        for template in &templates {
            let base = baseline(content, template);
            println!("== {} ({} mutations)", template.name, base.mutations.len());
            for (j, m) in base.mutations.iter().enumerate() {
                println!("  {j:3} {m}");
            }
        }
        return;
    }

    let mut summary = Vec::new();
    for template in &templates {
        if !run.in_budget() {
            run.cap_hit(&format!("time budget: stopped before template {}", template.name));
            break;
        }
        let base = baseline(content, template);
        let n = base.mutations.len();
        // quick: every crash point up to three mutations past the journal
        // row, then every 10th (the index / metadata flush); thorough: all
        let journal_at = base.mutations.iter().position(|m| m.contains("/transactions/data/")).unwrap_or(n);
        let points: Vec<usize> = (0..=n)
            .filter(|j| run.tier == vcore::Tier::Thorough || *j <= journal_at + 3 || j % 10 == 0 || *j == n)
            .collect();
        let verdicts = util::par_map(points, util::n_threads(), |j| crash_at(content, template, &base, j));
        let mut landed = std::collections::BTreeMap::new();
        for verdict in verdicts {
            run.add("evaluations", 1);
            run.add("states", 1);
            run.add("transitions", 2);
            run.add("traces_validated_against_impl", 1);
            *landed.entry(verdict.landed).or_insert(0u64) += 1;
            run.distinct(util::fnv64(format!("{}|{}|{}|{}", template.name, verdict.j, verdict.outcome, verdict.landed).as_bytes()));
            if verdict.j % 9 == 4 {
                run.sample(json!({"template": template.name, "crash_at_mutation": verdict.j, "mutation": base.mutations.get(verdict.j),
                                  "statement_answered": verdict.outcome, "reopened_space_equals": verdict.landed}));
            }
            for (sig, text, observed) in verdict.problems {
                run.violation(Violation {
                    signature: format!("C17|{sig}"),
                    summary: text,
                    replay: json!({"template": template.name, "crash_at_mutation": verdict.j, "observed": observed}),
                });
            }
        }
        summary.push(json!({"template": template.name, "backend_mutations": n, "reopened_equals": landed}));
    }
    run.set("templates", json!(summary));
    run.rule(
        "CRASH: for each statement template (no-Concept multi-kind, ASSERT sugar on existing Concepts, supersede, all five kinds, rewrites only) \
         and every j in 0..=N (N = backend mutations of the uninterrupted statement; quick: every j up to 3 past the journal row, then every 10th) the store loses power at the j-th mutation; a fresh Nexus \
         is connected over the content at that instant; distinct = (template, j, statement answer, before/after/neither)",
    );
    run.assume("a power failure is a prefix of the statement's backend mutations (each mutation atomic), as in vcore::ctlstore; timestamps are masked when the reopened Space is compared with the after-state of the uninterrupted run");
    run.finish();
}

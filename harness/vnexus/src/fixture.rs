//! The fixture: a real `CognitiveNexus` over `object_store::memory::InMemory`,
//! bootstrapped once (profile + two small verif packages, one restricted
//! principal) and snapshotted, so that every history starts from a byte-equal
//! store. Statements go through the real parser (`Operation::parse`) and the
//! real `Executor::execute` of a `Session`.

use anda_cognitive_nexus::{
    CognitiveNexus,
    governance::{
        AuthContext, SYSTEM_PRINCIPAL,
        rows::{AuthorityScope, principal_class},
        store::{GrantDraft, PrincipalDraft},
    },
    nexus::{DEFAULT_SPACE, Session},
    schema::{PackageState, SchemaLock, SchemaPackage},
};
use anda_db::database::{AndaDB, DBConfig};
use anda_kip::{Executor, Json, Map, ReceiptStatus, Request, RequestOptions, Response, TopLevelStatus};
use object_store::memory::InMemory;
use serde_json::json;
use std::sync::Arc;
use vcore::ctlstore::{self, Content};
use vcore::util::block_on;

pub const SPACE: &str = DEFAULT_SPACE;
pub const PROFILE_ID: &str = "kip://profiles/cognitive-memory";
pub const BASE_ID: &str = "kip://verif/base";
pub const EXT_ID: &str = "kip://verif/ext";
pub const WRITER: &str = "kip:principal:writer";
/// The exact symbol the local name `prefers` and the alias `fond_of` resolve to.
pub const PREFERS: &str = "kip://profiles/cognitive-memory@2.0.0/prefers";

/// A functional (single-valued) predicate and a plain one; the shipped
/// profile has no functional predicate.
const BASE_PACKAGE: &str = r#"{
    "format": "KIP-Schema-Package",
    "manifest": {"package_id": "kip://verif/base", "version": "1.0.0"},
    "definitions": {
        "predicates": {
            "status": {"kind": "PredicateType", "description": "single-valued", "functional": true, "open_world": true},
            "rel": {"kind": "PredicateType", "description": "many-valued", "functional": false}
        }
    }
}"#;

/// Activated later by the "schema activation" step of C18: a new type and a
/// new predicate that do not exist before.
const EXT_PACKAGE: &str = r#"{
    "format": "KIP-Schema-Package",
    "manifest": {"package_id": "kip://verif/ext", "version": "1.0.0"},
    "definitions": {
        "concept_types": {
            "Widget": {"kind": "ConceptType", "description": "A widget."}
        },
        "predicates": {
            "likes": {"kind": "PredicateType", "description": "likes", "functional": false}
        }
    }
}"#;

/// The seeded world: two Persons (keys a, b), one Preference (key d), one
/// Insight with two structural references, tuple (a prefers d) with Evidence
/// and a supporting Assertion, and a contested functional slot: the rival
/// tuples (a status "on") = P-2, supported by b, and (a status "off") = P-3,
/// supported by a (`status` is declared `functional: true` in BASE_PACKAGE).
/// A `rel` chain n -> a -> b -> d (P-6, P-7, P-8) for path walks in both
/// directions, and a second structural source, the Insight m = C-5.
/// A second subject shares the predicate: (b status "on") = P-4, which nobody
/// asserted, and (b status "busy") = P-5, supported by b.
pub const SEED: &str = r#"MUTATE {
    CREATE CONCEPT ?a { TYPE "Person" NAME "Ann" SET FIELDS {key: "a"} SET ATTRIBUTES {display_name: "Ann"} }
    CREATE CONCEPT ?b { TYPE "Person" NAME "Bob" SET FIELDS {key: "b"} }
    CREATE CONCEPT ?d { TYPE "Preference" NAME "Dark" SET FIELDS {key: "d"} }
    CREATE CONCEPT ?n { TYPE "Insight" NAME "Note" SET FIELDS {key: "n"} SET ATTRIBUTES {summary: "s"}
                        SET FACET "MnemonicState" {memory_strength: 0.8}
                        SET STRUCTURAL { ("about", ?d) ("mentions", ?a) } }
    CREATE CONCEPT ?m { TYPE "Insight" NAME "Memo" SET FIELDS {key: "m"} SET ATTRIBUTES {summary: "t"}
                        SET STRUCTURAL { ("about", ?a) ("mentions", ?b) ("derived_from", ?n) } }
    ENSURE PROPOSITION ?p (?a, "prefers", ?d)
    ENSURE PROPOSITION ?s (?a, "status", "on")
    ENSURE PROPOSITION ?s2 (?a, "status", "off")
    ENSURE PROPOSITION ?sb (?b, "status", "on")
    ENSURE PROPOSITION ?sb2 (?b, "status", "busy")
    ENSURE PROPOSITION ?r1 (?n, "rel", ?a)
    ENSURE PROPOSITION ?r2 (?a, "rel", ?b)
    ENSURE PROPOSITION ?r3 (?b, "rel", ?d)
    CREATE EVIDENCE ?e { SET FIELDS {evidence_class: "user_statement", payload: "I prefer dark.", observed_at: "2026-01-01T00:00:00Z"} }
    CREATE ASSERTION ?as { SET FIELDS {proposition: ?p, asserted_by: ?a, stance: "support", mode: "stated",
                                       confidence: 0.9, asserted_at: "2026-01-02T00:00:00Z"}
                           SET STRUCTURAL { ("evidence", ?e) {role: "support"} } }
    CREATE ASSERTION ?as2 { SET FIELDS {proposition: ?s, asserted_by: ?b, stance: "support", mode: "observed",
                                        confidence: 0.7, asserted_at: "2026-01-03T00:00:00Z"} }
    CREATE ASSERTION ?as3 { SET FIELDS {proposition: ?s2, asserted_by: ?a, stance: "support", mode: "stated",
                                        confidence: 0.8, asserted_at: "2026-01-04T00:00:00Z"} }
    CREATE ASSERTION ?as4 { SET FIELDS {proposition: ?sb2, asserted_by: ?b, stance: "support", mode: "stated",
                                        confidence: 0.9, asserted_at: "2026-01-05T00:00:00Z"} }
}"#;

/// Byte-level snapshots of the bootstrapped database.
pub struct World {
    pub empty: Content,
    pub seeded: Content,
}

#[derive(Clone, Copy, Debug, PartialEq, Eq, PartialOrd, Ord)]
pub enum Who {
    /// The owner of the Space (`CognitiveNexus::system_session`).
    System,
    /// A registered principal granted `read`+`create` on Concepts only.
    Writer,
    /// The unauthenticated principal (default deny).
    Anon,
}

#[derive(Clone, Copy, Debug, PartialEq, Eq, PartialOrd, Ord)]
pub enum Mode {
    /// An ordinary request.
    Commit,
    /// `options.dry_run = true` on the request envelope.
    DryRun,
    /// `PREVIEW KML :cmd` — the META spelling of a dry run.
    Preview,
}

#[derive(Clone, Debug)]
pub struct Stmt {
    pub text: String,
    pub params: Map<String, Json>,
    pub mode: Mode,
    pub who: Who,
}

/// How a statement ended, read off the response alone.
#[derive(Clone, Debug, PartialEq)]
pub enum Outcome {
    /// Receipt `committed`: sequence, transaction id, commit timestamp.
    Committed { seq: u64, tx: String, at: String },
    /// Receipt `no_effect` with a sequence: journalled, nothing changed.
    NoEffect { seq: u64, tx: String, at: String },
    /// A dry run / preview that reported what it would do.
    Dry,
    /// Refused, with the error code.
    Refused { code: String },
}

impl Outcome {
    pub fn label(&self) -> String {
        match self {
            Outcome::Committed { .. } => "committed".into(),
            Outcome::NoEffect { .. } => "no_effect".into(),
            Outcome::Dry => "dry".into(),
            Outcome::Refused { code } => format!("refused:{code}"),
        }
    }
    pub fn changes_nothing(&self) -> bool {
        matches!(self, Outcome::Dry | Outcome::Refused { .. })
    }
}

pub struct Nx {
    pub store: Arc<InMemory>,
    pub nexus: CognitiveNexus,
    pub sys: Session,
    pub writer: Session,
    pub anon: Session,
}

async fn connect(store: Arc<dyn object_store::ObjectStore>) -> CognitiveNexus {
    let db = AndaDB::connect(
        store,
        DBConfig {
            name: "vnexus".to_string(),
            description: "verif".to_string(),
            ..Default::default()
        },
    )
    .await
    .expect("AndaDB::connect");
    CognitiveNexus::connect(Arc::new(db)).await.expect("CognitiveNexus::connect")
}

pub fn lock(with_ext: bool) -> SchemaLock {
    let mut lock = SchemaLock::default();
    let mut ids = vec![(PROFILE_ID, "2.0.0"), (BASE_ID, "1.0.0")];
    if with_ext {
        ids.push((EXT_ID, "1.0.0"));
    }
    for (id, version) in ids {
        lock.packages.insert(id.to_string(), version.to_string());
        lock.states.insert(id.to_string(), PackageState::Active);
    }
    // a third spelling of one predicate: local name, exact symbol, alias
    lock.aliases.insert("fond_of".to_string(), PREFERS.to_string());
    lock
}

impl World {
    /// A database whose packages are installed but whose default Space has
    /// never activated a Schema Lock (environment 0, Core only).
    pub fn bare() -> Content {
        block_on(async {
            let store = Arc::new(InMemory::new());
            let nexus = connect(store.clone()).await;
            for source in [anda_cognitive_nexus::profiles::COGNITIVE_MEMORY, BASE_PACKAGE, EXT_PACKAGE] {
                nexus
                    .install_package(&SchemaPackage::parse(source).expect("package parses"), "verif")
                    .await
                    .expect("install_package");
            }
            nexus.close().await.expect("close");
            ctlstore::snapshot(&store)
        })
    }

    pub fn build() -> World {
        block_on(async {
            let store = Arc::new(InMemory::new());
            let nexus = connect(store.clone()).await;
            for source in [anda_cognitive_nexus::profiles::COGNITIVE_MEMORY, BASE_PACKAGE, EXT_PACKAGE] {
                nexus
                    .install_package(&SchemaPackage::parse(source).expect("package parses"), "verif")
                    .await
                    .expect("install_package");
            }
            nexus.activate_schema(SPACE, lock(false)).await.expect("activate_schema");
            let gov = nexus.governance();
            gov.ensure_principal(PrincipalDraft {
                principal_id: WRITER.to_string(),
                principal_class: principal_class::AGENT.to_string(),
                display_name: "writer".to_string(),
                auth_provider: "verif".to_string(),
                auth_subject: WRITER.to_string(),
            })
            .await
            .expect("ensure_principal");
            gov.create_grant(
                GrantDraft {
                    space_id: SPACE.into(),
                    grantee_principal: WRITER.into(),
                    actions: vec!["read".into(), "create".into()],
                    scope: AuthorityScope {
                        kinds: vec!["concept".into()],
                        ..Default::default()
                    },
                    ..Default::default()
                },
                SYSTEM_PRINCIPAL,
            )
            .await
            .expect("create_grant");
            nexus.close().await.expect("close");
            let empty = ctlstore::snapshot(&store);

            let nx = Nx::open_async(&empty).await;
            let seed = Stmt::sys(SEED);
            let (_, out) = nx.exec_async(&seed).await;
            if !matches!(out, Outcome::Committed { seq: 1, .. }) {
                vcore::report::machinery(&format!("seed statement did not commit at seq 1: {out:?}"));
            }
            nx.nexus.close().await.expect("close");
            let seeded = ctlstore::snapshot(&nx.store);
            World { empty, seeded }
        })
    }
}

impl Nx {
    pub fn open(content: &Content) -> Nx {
        block_on(Nx::open_async(content))
    }

    pub async fn open_async(content: &Content) -> Nx {
        let store = ctlstore::restore(content);
        Nx::over(connect(store.clone()).await, store)
    }

    /// Opens the Nexus over a controllable store (gate off) for the STEP part.
    pub fn open_gated(content: &Content) -> (Nx, Arc<vcore::ctlstore::Ctl>) {
        // logical millisecond clock for `anda_db::unix_ms` (flush bookkeeping),
        // so the number of backend calls does not depend on wall-clock time
        anda_db_utils::verif::set_clock(Some((1_750_000_000_000, 1)));
        let inner = ctlstore::restore(content);
        let (cs, ctl) = vcore::ctlstore::CtlStore::over(inner.clone());
        let nexus = block_on(connect(cs));
        (Nx::over(nexus, inner), ctl)
    }

    pub fn over(nexus: CognitiveNexus, store: Arc<InMemory>) -> Nx {
        Nx {
            store,
            sys: nexus.system_session(),
            writer: nexus.session(AuthContext::principal(WRITER)),
            anon: nexus.session(AuthContext::anonymous()),
            nexus,
        }
    }

    fn session(&self, who: Who) -> &Session {
        match who {
            Who::System => &self.sys,
            Who::Writer => &self.writer,
            Who::Anon => &self.anon,
        }
    }

    pub fn exec(&self, stmt: &Stmt) -> (Response, Outcome) {
        block_on(self.exec_async(stmt))
    }

    /// Runs one statement through the real parser and executor.
    pub async fn exec_async(&self, stmt: &Stmt) -> (Response, Outcome) {
        let mut request = match stmt.mode {
            Mode::Preview => {
                let mut r = Request::single("PREVIEW KML :cmd");
                let mut p = Map::new();
                p.insert("cmd".into(), Json::String(stmt.text.clone()));
                r.parameters = Some(p);
                r
            }
            _ => Request::single(stmt.text.clone()),
        };
        if stmt.mode != Mode::Preview && !stmt.params.is_empty() {
            request.parameters = Some(stmt.params.clone());
        }
        if stmt.mode == Mode::DryRun {
            request.options = Some(RequestOptions {
                dry_run: Some(true),
                ..Default::default()
            });
        }
        let parsed = match request.operations[0].parse() {
            Ok(parsed) => parsed,
            Err(err) => {
                let code = format!("parse:{}", err.name());
                return (Response::from(err), Outcome::Refused { code });
            }
        };
        let response = self
            .session(stmt.who)
            .execute(parsed, &request, &request.operations[0])
            .await;
        let outcome = classify(stmt.mode, &response);
        (response, outcome)
    }

    /// Runs a read (KQL/META) as the owner; `{"ok": result}` or `{"err": code}`.
    pub fn q(&self, text: &str) -> Json {
        block_on(self.q_async(text))
    }

    /// A read with request-level parameters.
    pub fn q_with(&self, text: &str, params: &Map<String, Json>) -> Json {
        block_on(self.q_params(text, Some(params)))
    }

    pub async fn q_async(&self, text: &str) -> Json {
        self.q_params(text, None).await
    }

    /// A read whose answer also carries the `schema_environment_version` of
    /// the response context (`"env"`), optionally bound to a coordinate
    /// through `read.snapshot_token` instead of an `AS OF` clause.
    pub fn q_env(&self, text: &str, params: Option<&Map<String, Json>>, token: Option<&str>) -> Json {
        block_on(self.q_request(text, params, token, true))
    }

    async fn q_params(&self, text: &str, params: Option<&Map<String, Json>>) -> Json {
        self.q_request(text, params, None, false).await
    }

    async fn q_request(&self, text: &str, params: Option<&Map<String, Json>>, token: Option<&str>, with_env: bool) -> Json {
        let mut request = Request::single(text);
        request.parameters = params.cloned();
        if let Some(token) = token {
            request.read = Some(anda_kip::ReadBinding {
                snapshot_token: Some(token.to_string()),
                ..Default::default()
            });
        }
        let parsed = match request.operations[0].parse() {
            Ok(parsed) => parsed,
            Err(err) => vcore::report::machinery(&format!("harness query does not parse: {text}\n{err}")),
        };
        if !matches!(parsed, anda_kip::Command::Kql(_) | anda_kip::Command::Meta(_)) {
            vcore::report::machinery(&format!("harness query is not a read: {text}"));
        }
        let response = self.sys.execute(parsed, &request, &request.operations[0]).await;
        let mut out = answer(&response);
        if with_env && let Some(version) = response.context.as_ref().and_then(|c| c.schema_environment_version) {
            out["env"] = json!(version);
        }
        out
    }

    /// The host-API step "activate a schema lock" (not a KIP command).
    pub fn activate(&self, with_ext: bool) -> Result<u64, String> {
        block_on(async {
            self.nexus
                .activate_schema(SPACE, lock(with_ext))
                .await
                .map(|env| env.version)
                .map_err(|e| e.name().to_string())
        })
    }
}

pub fn error_code(response: &Response) -> Option<String> {
    response
        .error
        .as_ref()
        .map(|e| e.code.as_str().to_string())
        .or_else(|| {
            response
                .results
                .iter()
                .find_map(|r| r.error.as_ref().map(|e| e.code.as_str().to_string()))
        })
}

pub fn answer(response: &Response) -> Json {
    if response.status == TopLevelStatus::Succeeded {
        let mut out = json!({"ok": response.first_result().cloned().unwrap_or(Json::Null)});
        if let Some(cursor) = response.results.first().and_then(|r| r.next_cursor.clone()) {
            out["next_cursor"] = Json::String(cursor);
        }
        out
    } else {
        json!({"err": error_code(response).unwrap_or_else(|| "?".into())})
    }
}

fn classify(mode: Mode, response: &Response) -> Outcome {
    if response.status != TopLevelStatus::Succeeded {
        return Outcome::Refused {
            code: error_code(response).unwrap_or_else(|| "?".into()),
        };
    }
    if mode == Mode::Preview {
        let result = response.first_result().cloned().unwrap_or(Json::Null);
        return if result["would_commit"] == json!(true) {
            Outcome::Dry
        } else {
            Outcome::Refused {
                code: result["error"]["code"].as_str().unwrap_or("?").to_string(),
            }
        };
    }
    match &response.receipt {
        Some(receipt) => match (receipt.status, receipt.space_seq) {
            (ReceiptStatus::Committed, Some(seq)) => Outcome::Committed {
                seq,
                tx: receipt.tx_id.clone().unwrap_or_default(),
                at: receipt.committed_at.clone().unwrap_or_default(),
            },
            (ReceiptStatus::NoEffect, Some(seq)) => Outcome::NoEffect {
                seq,
                tx: receipt.tx_id.clone().unwrap_or_default(),
                at: receipt.committed_at.clone().unwrap_or_default(),
            },
            (ReceiptStatus::NoEffect, None) => Outcome::Dry,
            other => Outcome::Refused {
                code: format!("unexpected-receipt:{other:?}"),
            },
        },
        None => Outcome::Refused {
            code: "no-receipt".into(),
        },
    }
}

impl Stmt {
    pub fn sys(text: &str) -> Stmt {
        Stmt {
            text: text.to_string(),
            params: Map::new(),
            mode: Mode::Commit,
            who: Who::System,
        }
    }
}

//! Shared helpers for the vnexus check parts.

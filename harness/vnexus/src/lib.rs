//! Shared helpers for the vnexus check parts (C17, C18): a bootstrapped
//! Cognitive Nexus fixture over `InMemory`, statement execution through the
//! real parser, and the observable-state DUMP used as a differential oracle.

pub mod dump;
pub mod fixture;
pub mod oracle;

pub use fixture::{Mode, Nx, Outcome, Stmt, Who, World};

//! The C17 oracle for one executed statement (shared by the parts `hist`,
//! `keys` and `fault`). Differential: everything is read off the two DUMPs
//! taken on the same Nexus before and after the statement.
//!
//! (i) refused / dry run / preview: the two dumps are equal (the DUMP masks
//! the Space's sequence counter and nothing else) and the counter moved by at
//! most one; (ii) committed: one fresh sequence, exactly one new journal row,
//! every changed element's version +1 once, untouched elements keep theirs,
//! no answer AS OF an earlier sequence changed (PURGE excepted), nothing
//! vanished; (iii) after every statement: one element per proposition tuple,
//! one Concept per (type, key).

use crate::dump::{self, Dump};
use crate::fixture::{Mode, Outcome};
use anda_kip::Json;
use serde_json::json;
use std::collections::BTreeMap;
use vcore::Violation;

pub fn mode_name(mode: Mode) -> &'static str {
    match mode {
        Mode::Commit => "commit",
        Mode::DryRun => "dry_run",
        Mode::Preview => "preview",
    }
}

/// (iii) one element per tuple, one Concept per (type, key).
pub fn uniqueness(views: &BTreeMap<String, Json>) -> Vec<(String, String)> {
    let mut out = Vec::new();
    let mut tuples: BTreeMap<String, String> = BTreeMap::new();
    let mut keys: BTreeMap<(String, String), String> = BTreeMap::new();
    for (id, view) in views {
        let state = view["_system"]["state"].as_str().unwrap_or("");
        if state == "pending" || state == "purged" {
            continue;
        }
        if id.starts_with("P-") {
            let tuple = format!("{}|{}|{}", view["subject"], view["predicate_ref"], view["object"]);
            if let Some(other) = tuples.insert(tuple.clone(), id.clone()) {
                out.push(("duplicate-tuple".to_string(), format!("{other} and {id} are both {tuple}")));
            }
        }
        if id.starts_with("C-") {
            let key = view["key"].as_str().unwrap_or("");
            if key.is_empty() {
                continue;
            }
            let scope = (view["schema_ref"].as_str().unwrap_or("").to_string(), key.to_string());
            if let Some(other) = keys.insert(scope.clone(), id.clone()) {
                out.push(("duplicate-key".to_string(), format!("{other} and {id} both carry {scope:?}")));
            }
        }
    }
    out
}

/// The view without the members a commit stamps on every row it writes.
pub fn strip_stamp(view: &Json) -> Json {
    let mut view = view.clone();
    if let Some(system) = view.get_mut("_system").and_then(Json::as_object_mut) {
        for key in ["version", "updated_at", "updated_tx", "space_seq", "origin"] {
            system.remove(key);
        }
    }
    view
}

pub fn journal_rows(d: &Dump) -> Vec<Json> {
    d.get("HISTORY SPACE").and_then(|a| a["ok"].as_array().cloned()).unwrap_or_default()
}

/// What is being judged: the statement's name (for the summary) and its
/// shape class (for the signature).
#[derive(Clone, Copy)]
pub struct Judged<'a> {
    pub name: &'a str,
    pub shape: &'a str,
}

/// The C17 oracle for ONE executed statement, given the full DUMP before and
/// after it. Returns the violations and whether the observable state changed.
#[allow(clippy::too_many_arguments)]
pub fn check_step(
    tpl: Judged<'_>,
    mode: Mode,
    outcome: &Outcome,
    seq_before: u64,
    seq_after: u64,
    before: &Dump,
    after: &Dump,
    replay: &Json,
) -> (Vec<Violation>, bool) {
    let mut violations = Vec::new();
    let labels = dump::diff(before, after);
    let changed = !labels.is_empty();
    let mut violate = |signature: String, summary: String, extra: Json| {
        let mut replay = replay.clone();
        replay["observed"] = extra;
        violations.push(Violation { signature, summary, replay });
    };
    let views_before = dump::by_id(before);
    let views_after = dump::by_id(after);

    match outcome {
        // (i) refused or dry run: nothing observable moved.
        Outcome::Refused { .. } | Outcome::Dry => {
            if changed {
                let class = dump::diff_class(&labels);
                let what = if class == "pending-shells-only" { "leaves-pending-shells" } else { "leaves-rows" };
                let lead = match (mode, outcome) {
                    (Mode::Commit, _) => "refused",
                    (Mode::DryRun, Outcome::Dry) => "dry-run",
                    (Mode::DryRun, _) => "refused-dry-run",
                    (Mode::Preview, Outcome::Dry) => "preview",
                    (Mode::Preview, _) => "refused-preview",
                };
                let new_ids: Vec<&String> = views_after.keys().filter(|id| !views_before.contains_key(*id)).collect();
                violate(
                    format!("C17|{lead}-{what}|{}|{}", tpl.shape, outcome.label().replace("refused:", "")),
                    format!(
                        "statement `{}` ({}) ended {} but the observable state changed [{}]: {} answers differ, e.g. {:?}; elements that appeared: {:?}",
                        tpl.name, mode_name(mode), outcome.label(), class, labels.len(),
                        labels.iter().take(3).collect::<Vec<_>>(), new_ids
                    ),
                    json!({"outcome": outcome.label(), "diff_class": class, "differing": labels.iter().take(12).collect::<Vec<_>>(),
                           "before": labels.iter().take(4).map(|l| before.get(l)).collect::<Vec<_>>(),
                           "after": labels.iter().take(4).map(|l| after.get(l)).collect::<Vec<_>>()}),
                );
            }
            if seq_after < seq_before || seq_after > seq_before + 1 {
                violate(
                    format!("C17|sequence-counter-moved-by-{}|{}", seq_after as i64 - seq_before as i64, tpl.shape),
                    format!("a refused/dry statement moved the Space sequence from {seq_before} to {seq_after}"),
                    json!({}),
                );
            }
        }
        // (ii) committed: one fresh sequence, one journal row, version +1 once.
        Outcome::Committed { seq, tx, .. } | Outcome::NoEffect { seq, tx, .. } => {
            let max_journal = journal_rows(before).iter().filter_map(|r| r["space_seq"].as_u64()).max().unwrap_or(0);
            if *seq <= seq_before || *seq <= max_journal || seq_after != *seq {
                violate(
                    format!("C17|sequence-not-fresh|{}", tpl.shape),
                    format!("commit got sequence {seq}; Space was at {seq_before} (journal max {max_journal}) and is at {seq_after}"),
                    json!({}),
                );
            }
            let rows_before = journal_rows(before);
            let rows_after = journal_rows(after);
            let fresh: Vec<&Json> = rows_after.iter().filter(|r| !rows_before.contains(r)).collect();
            if rows_after.len() != rows_before.len() + 1
                || fresh.len() != 1
                || fresh[0]["space_seq"].as_u64() != Some(*seq)
                || fresh[0]["tx_id"].as_str() != Some(tx.as_str())
            {
                violate(
                    format!("C17|journal-not-one-row|{}", tpl.shape),
                    format!("a commit at {seq} must add exactly one journal row for it; journal went {} -> {} rows", rows_before.len(), rows_after.len()),
                    json!({"fresh": fresh}),
                );
            }
            for (id, view) in &views_after {
                let version = view["_system"]["version"].as_u64().unwrap_or(0);
                match views_before.get(id) {
                    None => {
                        if version != 1 {
                            violate(
                                format!("C17|new-element-version-not-1|{}", tpl.shape),
                                format!("{id} was created by this statement at version {version}"),
                                json!({"after": view}),
                            );
                        }
                        if matches!(outcome, Outcome::NoEffect { .. }) {
                            violate(
                                format!("C17|no-effect-created-element|{}", tpl.shape),
                                format!("a no_effect receipt, yet {id} appeared"),
                                json!({"after": view}),
                            );
                        }
                    }
                    Some(old) if old != view => {
                        let was = old["_system"]["version"].as_u64().unwrap_or(0);
                        // An element whose every member outside the commit
                        // stamp is unchanged was not changed: it keeps its version.
                        if strip_stamp(old) == strip_stamp(view) && version != was {
                            violate(
                                format!("C17|version-burned-without-change|{}", tpl.shape),
                                format!("{id} is identical before and after except for its commit stamp, yet went from version {was} to {version}"),
                                json!({"before": old, "after": view}),
                            );
                            continue;
                        }
                        if version != was + 1 {
                            violate(
                                format!("C17|version-not-plus-one|{}", tpl.shape),
                                format!("{id} changed in one statement and went from version {was} to {version}"),
                                json!({"before": old, "after": view}),
                            );
                        }
                        if matches!(outcome, Outcome::NoEffect { .. }) {
                            violate(
                                format!("C17|no-effect-changed-element|{}", tpl.shape),
                                format!("a no_effect receipt, yet {id} changed"),
                                json!({"before": old, "after": view}),
                            );
                        }
                    }
                    Some(_) => {}
                }
            }
            // A commit does not rewrite the past: every AS OF answer at an
            // earlier sequence is unchanged — except that an explicit PURGE
            // removes the purged element (and nothing else) from it.
            let purged: Vec<String> = fresh
                .iter()
                .flat_map(|row| row["changes"].as_array().cloned().unwrap_or_default())
                .filter(|change| change["op"] == json!("purge"))
                .filter_map(|change| change["id"].as_str().map(|id| format!("\"{id}\"")))
                .collect();
            let without_purged = |answer: &Json| -> Json {
                match answer["ok"].as_array() {
                    Some(rows) if !purged.is_empty() => Json::Array(
                        rows.iter().filter(|row| { let text = row.to_string(); !purged.iter().any(|id| text.contains(id)) }).cloned().collect(),
                    ),
                    _ => answer.clone(),
                }
            };
            for label in &labels {
                // the past = every number below the commit's own sequence
                // (journalled or burned); at and above it the answer moves
                if !dump::as_of_seq(label).is_some_and(|k| k < *seq) || (!purged.is_empty() && label.starts_with("FIND(COUNT")) {
                    continue;
                }
                let (Some(was), Some(is)) = (before.get(label), after.get(label)) else { continue };
                if without_purged(was) != without_purged(is) {
                    violate(
                        format!("C17|commit-rewrote-the-past|{}", tpl.shape),
                        format!("`{label}` answered differently after the commit at {seq} (purged by it: {purged:?})"),
                        json!({"label": label, "before": was, "after": is}),
                    );
                    break;
                }
            }
            for id in views_before.keys() {
                if !views_after.contains_key(id) {
                    violate(
                        format!("C17|element-vanished|{}", tpl.shape),
                        format!("{id} was observable before the commit and no query shows it after"),
                        json!({"before": views_before[id]}),
                    );
                }
            }
        }
    }
    // (iii) identity, after every step.
    for (kind, detail) in uniqueness(&views_after) {
        violate(format!("C17|{kind}|{}", tpl.shape), format!("after `{}`: {detail}", tpl.name), json!({}));
    }
    (violations, changed)
}


//! DUMP — everything a query, a META command or a historical read can
//! observe about the default Space, as a label → answer map. The oracle is
//! differential: dumps taken on the same Nexus are compared with each other,
//! so no KIP semantics are re-implemented here.
//!
//! Through time: elements of every kind (and, in short histories, counts and
//! beliefs) are also read `AS OF SEQ k` at numbers no journal row carries —
//! the one the next statement takes, or every number a short history can
//! reach (`Window`, `spec_wide`): what a refused statement leaves in the
//! version log is stamped with the number it burned.
//!
//! Only fields that *are* the Space's sequence counter are masked (the
//! property exempts exactly that): `seq` in DESCRIBE SPACE / LIST SPACES /
//! PRIMER, `space_seq` in EXECUTION CONTEXT, the coordinate of a bare
//! SNAPSHOT, and the two freshness counters in SEARCH's `search_context`.

use crate::fixture::Nx;
use anda_kip::Json;
use serde_json::json;
use std::collections::BTreeMap;

pub type Dump = BTreeMap<String, Json>;

/// Element patterns that take an object matcher (Propositions do not).
pub const KINDS: [&str; 4] = ["CONCEPT", "ASSERTION", "EVIDENCE", "ACTIVITY"];
/// Every engine state, including the internal `pending` one: a shell counts
/// only if one of these queries shows it.
pub const STATES: [&str; 7] = [
    "active",
    "archived",
    "quarantined",
    "tombstoned",
    "merged",
    "purged",
    "pending",
];
const ID_LETTERS: [&str; 5] = ["C", "P", "A", "E", "X"];
/// World time every belief query is pinned to.
pub const FOR_TIME: &str = r#"FOR TIME "2030-01-01T00:00:00Z""#;

/// What the historical / probing part of a dump ranges over. Computed from
/// the *before* state and reused for the *after* dump, so both ask exactly
/// the same questions.
#[derive(Clone, Debug)]
pub struct Spec {
    /// `AS OF SEQ k` is read for every k in here: 0 and every journalled sequence.
    pub seqs: Vec<u64>,
    /// The numbers within `WINDOW` of the Space's sequence counter that no
    /// journal row carries: burned by a refused statement, or not yet taken
    /// (the next statement's own number among them). Elements, counts and
    /// beliefs are read `AS OF SEQ k` there too: a version-log row left by a
    /// refused statement is stamped with the number that statement burned and
    /// shows at no journalled coordinate.
    pub near: Vec<u64>,
    pub window: Window,
    /// The ranges were chosen once for a whole short history (`spec_wide`):
    /// every dump of that history asks exactly the same questions and
    /// `retarget` leaves the Spec alone.
    pub fixed: bool,
    /// `HISTORY ELEMENT` is probed for ids 1..=max of each kind (C, P, A, E, X).
    pub max_id: [u64; 5],
    /// `DESCRIBE TRANSACTION "<space>#k"` is probed for k in 1..=max_tx.
    pub max_tx: u64,
    /// `BELIEF SLOT (:subject, "status")` is projected for these Concept ids.
    pub slot_subjects: Vec<String>,
}

/// How far below and above the sequence counter `Spec::near` reaches.
#[derive(Clone, Copy, Debug)]
pub struct Window {
    /// How many numbers at or below the counter (0: none of them).
    pub below: u64,
    /// How many numbers above the counter.
    pub above: u64,
    /// Counts and beliefs too (elements of every kind always).
    pub projections: bool,
}

impl Window {
    /// The number the next statement takes (a version-log row is stamped with
    /// the sequence of the statement that wrote it): enough for every single
    /// step of a long history, where each refused statement is judged right
    /// after it ran.
    pub const STEP: Window = Window { below: 0, above: 1, projections: false };
    /// Every number from 1 to two past the counter (short histories).
    pub const ALL: Window = Window { below: u64::MAX, above: 2, projections: true };
}

fn near_numbers(seqs: &[u64], counter: u64, window: Window) -> Vec<u64> {
    ((counter + 1).saturating_sub(window.below)..=counter + window.above)
        .filter(|k| *k > 0 && !seqs.contains(k))
        .collect()
}

/// The k of a label that reads `AS OF SEQ k`.
pub fn as_of_seq(label: &str) -> Option<u64> {
    let rest = label.split(" AS OF SEQ ").nth(1)?;
    rest.split_whitespace().next()?.parse().ok()
}

fn as_of_clause(as_of: Option<u64>) -> String {
    match as_of {
        Some(k) => format!(" AS OF SEQ {k}"),
        None => String::new(),
    }
}

/// The queries that enumerate every element of every kind in every state.
/// At a past coordinate the `state` matcher key never matches on this tree
/// (see C18), so the historical enumeration uses the bare pattern (ordinary
/// recall) plus the archived and pending states.
pub fn element_queries(as_of: Option<u64>) -> Vec<String> {
    let at = as_of_clause(as_of);
    let mut out = Vec::new();
    for kind in KINDS {
        if as_of.is_some() {
            out.push(format!("FIND(?x) WHERE {{ ?x {kind} {{}} }}{at}"));
            if kind == "CONCEPT" {
                for state in ["archived", "pending"] {
                    out.push(format!(r#"FIND(?x) WHERE {{ ?x {kind} {{state: "{state}"}} }}{at}"#));
                }
            }
            continue;
        }
        for state in STATES {
            // `merged` is a Concept state; `quarantined` is set through the
            // host Governance API only and never by a statement enumerated here.
            if state == "quarantined" || (state == "merged" && kind != "CONCEPT") {
                continue;
            }
            out.push(format!(r#"FIND(?x) WHERE {{ ?x {kind} {{state: "{state}"}} }}{at}"#));
        }
    }
    // Propositions have no object matcher: the tuple pattern (active only) and
    // the join through the Assertions that name them (any state).
    out.push(format!("FIND(?p) WHERE {{ ?p PROPOSITION (?s, ?pr, ?o) }}{at}"));
    out.push(format!("FIND(?a.id, ?p) WHERE {{ ?a ASSERTION {{proposition: ?p}} }}{at}"));
    out
}

fn count_queries(as_of: Option<u64>) -> Vec<String> {
    let at = as_of_clause(as_of);
    let mut out: Vec<String> = KINDS
        .iter()
        .filter(|kind| as_of.is_none() || **kind == "CONCEPT")
        .map(|kind| format!("FIND(COUNT(?x)) WHERE {{ ?x {kind} {{}} }}{at}"))
        .collect();
    out.push(format!("FIND(COUNT(?p)) WHERE {{ ?p PROPOSITION (?s, ?pr, ?o) }}{at}"));
    out
}

fn belief_queries(as_of: Option<u64>) -> Vec<String> {
    let at = as_of_clause(as_of);
    vec![format!(
        "FIND(?p.id, ?b) WHERE {{ ?p PROPOSITION (?s, ?pr, ?o) ?b BELIEF (?p) }}{at} {FOR_TIME}"
    )]
}

fn slots_into(nx: &Nx, out: &mut Dump, spec: &Spec, as_of: Option<u64>) {
    let at = as_of_clause(as_of);
    for subject in &spec.slot_subjects {
        let text = format!(r#"FIND(?slot) WHERE {{ ?slot BELIEF SLOT (:subject, "status") }}{at} {FOR_TIME}"#);
        let mut params = anda_kip::Map::new();
        params.insert("subject".into(), Json::String(subject.clone()));
        let answer = nx.q_with(&text, &params);
        out.insert(format!("{text} [subject={subject}]"), answer);
    }
}

fn run_into(nx: &Nx, out: &mut Dump, text: String) {
    let mut answer = nx.q(&text);
    mask(&text, &mut answer);
    out.insert(text, answer);
}

/// Element enumeration only (cheap): used to resolve statement parameters
/// and to rebuild a history prefix.
pub fn elements(nx: &Nx, as_of: Option<u64>) -> Dump {
    let mut out = Dump::new();
    for text in element_queries(as_of) {
        run_into(nx, &mut out, text);
    }
    out
}

pub fn space_seq(nx: &Nx) -> u64 {
    nx.q("DESCRIBE SPACE")["ok"]["seq"]
        .as_u64()
        .unwrap_or_else(|| vcore::report::machinery("DESCRIBE SPACE gave no seq"))
}

fn id_number(id: &str) -> u64 {
    id.split('-').nth(1).and_then(|n| n.parse().ok()).unwrap_or(0)
}

/// Current element views by id, read off the element sections of a dump.
pub fn by_id(dump: &Dump) -> BTreeMap<String, Json> {
    let mut out = BTreeMap::new();
    for (label, answer) in dump {
        if !label.starts_with("FIND(?x)") && !label.starts_with("FIND(?p) ") && !label.starts_with("FIND(?a.id, ?p)") {
            continue;
        }
        if label.contains(" AS OF ") {
            continue;
        }
        let Some(rows) = answer["ok"].as_array() else { continue };
        for row in rows {
            let view = if label.starts_with("FIND(?a.id, ?p)") { &row[1] } else { row };
            if let Some(id) = view["id"].as_str() {
                out.insert(id.to_string(), view.clone());
            }
        }
    }
    out
}

/// The probing ranges depend only on what is committed (journal sequences,
/// element ids) — except `near`, which follows the sequence counter: after a
/// statement that changes nothing the after-dump serves as the next
/// before-dump once `retarget` has slid that window.
pub fn spec_from(nx: &Nx, now: &Dump, window: Window) -> Spec {
    let journal = nx.q("HISTORY SPACE");
    let mut seqs: Vec<u64> = vec![0];
    if let Some(rows) = journal["ok"].as_array() {
        seqs.extend(rows.iter().filter_map(|r| r["space_seq"].as_u64()));
    }
    seqs.sort();
    seqs.dedup();
    let max_tx = seqs.last().copied().unwrap_or(0) + 3;
    let mut max_id = [3u64; 5];
    for id in by_id(now).keys() {
        if let Some(i) = ID_LETTERS.iter().position(|l| id.starts_with(l)) {
            max_id[i] = max_id[i].max(id_number(id) + 3);
        }
    }
    let mut slot_subjects: Vec<String> = by_id(now)
        .iter()
        .filter(|(id, view)| id.starts_with("C-") && view["schema_ref"].as_str().is_some_and(|s| s.ends_with("/Person")))
        .map(|(id, _)| id.clone())
        .collect();
    slot_subjects.push("C-9001".to_string());
    let near = near_numbers(&seqs, space_seq(nx), window);
    Spec {
        seqs,
        near,
        window,
        fixed: false,
        max_id,
        max_tx,
        slot_subjects,
    }
}

/// One Spec for a whole history of at most `statements` further statements,
/// so that the after-dump of each is the before-dump of the next whether or
/// not it changed the state: `AS OF SEQ k` elements, counts and beliefs at
/// EVERY number the history can reach (journalled, burned or not yet taken),
/// and the id / transaction / slot probes reaching past every element those
/// statements can create. (`SNAPSHOT AS OF SEQ k` and the schema environment
/// at k only for the sequences journalled at the start: at other numbers they
/// answer by the sequence counter itself.)
pub fn spec_wide(nx: &Nx, now: &Dump, statements: u64) -> Spec {
    let window = Window { below: u64::MAX, above: statements, projections: true };
    let mut spec = spec_from(nx, now, window);
    spec.fixed = true;
    for max in spec.max_id.iter_mut() {
        *max += 3 * statements;
    }
    spec.max_tx += statements;
    let first_new = by_id(now).keys().filter(|id| id.starts_with("C-")).map(|id| id_number(id)).max().unwrap_or(0) + 1;
    let ghost = spec.slot_subjects.pop();
    spec.slot_subjects.extend((first_new..first_new + 2 * statements).map(|n| format!("C-{n}")));
    spec.slot_subjects.extend(ghost);
    spec
}

/// The full observable state. `now` may carry the element sections already
/// taken for this state (they are not queried twice).
pub fn dump(nx: &Nx, spec: &Spec, now: Option<Dump>) -> Dump {
    let mut out = now.unwrap_or_else(|| elements(nx, None));
    for text in count_queries(None) {
        run_into(nx, &mut out, text);
    }
    for text in belief_queries(None) {
        run_into(nx, &mut out, text);
    }
    slots_into(nx, &mut out, spec, None);
    for text in [
        "DESCRIBE PRIMER",
        "DESCRIBE SPACE",
        "DESCRIBE EXECUTION CONTEXT",
        "DESCRIBE SCHEMA ENVIRONMENT",
        "DESCRIBE SNAPSHOT",
        "SNAPSHOT",
        "LIST SPACES",
        "LIST SCHEMA PACKAGES",
        "LIST TYPES",
        "LIST PREDICATES",
        "HISTORY SPACE",
        "CHANGES AFTER SEQ 0 LIMIT 1000",
        r#"SEARCH CONCEPT "Ann""#,
        r#"SEARCH CONCEPT "Zed""#,
        r#"SEARCH COGNITION "dark""#,
        r#"SEARCH EVIDENCE "prefer""#,
    ] {
        run_into(nx, &mut out, text.to_string());
    }
    for k in 1..=spec.max_tx {
        run_into(nx, &mut out, format!(r#"DESCRIBE TRANSACTION "{}#{k}""#, crate::fixture::SPACE));
    }
    for (i, letter) in ID_LETTERS.iter().enumerate() {
        for n in 1..=spec.max_id[i] {
            run_into(nx, &mut out, format!(r#"HISTORY ELEMENT "{letter}-{n}""#));
        }
    }
    for &k in &spec.seqs {
        // sequence 0 is the empty Space: nothing can be written at or below it
        if k == 0 && spec.seqs.len() > 1 {
            continue;
        }
        for text in element_queries(Some(k)) {
            run_into(nx, &mut out, text);
        }
        for text in count_queries(Some(k)) {
            run_into(nx, &mut out, text);
        }
        for text in belief_queries(Some(k)) {
            run_into(nx, &mut out, text);
        }
        run_into(nx, &mut out, format!("SNAPSHOT AS OF SEQ {k}"));
        run_into(nx, &mut out, format!("DESCRIBE SCHEMA ENVIRONMENT AS OF SEQ {k}"));
    }
    for &k in &spec.near {
        near_into(nx, &mut out, k, spec.window);
    }
    out
}

/// The reads at a number no journal row carries. (`SNAPSHOT AS OF SEQ k`
/// answers by the sequence counter itself and is not asked here.)
fn near_into(nx: &Nx, out: &mut Dump, k: u64, window: Window) {
    for text in element_queries(Some(k)) {
        run_into(nx, out, text);
    }
    if window.projections {
        for text in count_queries(Some(k)) {
            run_into(nx, out, text);
        }
        for text in belief_queries(Some(k)) {
            run_into(nx, out, text);
        }
    }
}

/// After a statement that left the observable state unchanged but moved the
/// sequence counter: slides `Spec::near` to the new counter, so that `state`
/// (the after-dump) can serve as the next statement's before-dump. Labels of
/// numbers that left the window are dropped, the new ones are read. Returns
/// the number of queries issued.
pub fn retarget(nx: &Nx, spec: &mut Spec, state: &mut Dump) -> u64 {
    if spec.fixed {
        return 0;
    }
    let near = near_numbers(&spec.seqs, space_seq(nx), spec.window);
    if near == spec.near {
        return 1;
    }
    let dropped: Vec<u64> = spec.near.iter().copied().filter(|k| !near.contains(k)).collect();
    if !dropped.is_empty() {
        state.retain(|label, _| !as_of_seq(label).is_some_and(|k| dropped.contains(&k)));
    }
    let size = state.len();
    for &k in &near {
        if !spec.near.contains(&k) {
            near_into(nx, state, k, spec.window);
        }
    }
    spec.near = near;
    (state.len() - size) as u64 + 1
}

fn drop_key(value: &mut Json, key: &str) {
    if let Some(object) = value.as_object_mut()
        && object.contains_key(key)
    {
        object.insert(key.to_string(), json!("<space-seq>"));
    }
}

/// Masks the Space sequence counter, and nothing else.
pub fn mask(label: &str, answer: &mut Json) {
    let Some(ok) = answer.get_mut("ok") else { return };
    match label {
        "DESCRIBE SPACE" => drop_key(ok, "seq"),
        "DESCRIBE EXECUTION CONTEXT" => drop_key(ok, "space_seq"),
        "DESCRIBE PRIMER" => {
            if let Some(space) = ok.get_mut("space") {
                drop_key(space, "seq");
            }
        }
        "LIST SPACES" => {
            if let Some(rows) = ok.as_array_mut() {
                for row in rows {
                    drop_key(row, "seq");
                }
            }
        }
        "SNAPSHOT" | "DESCRIBE SNAPSHOT" => {
            drop_key(ok, "snapshot_seq");
            drop_key(ok, "snapshot_token");
        }
        _ if label.starts_with("SEARCH ") => {
            if let Some(context) = ok.get_mut("search_context") {
                drop_key(context, "current_space_seq");
                drop_key(context, "index_seq");
            }
        }
        _ => {}
    }
}

/// Labels whose answers differ (or exist on one side only).
pub fn diff(before: &Dump, after: &Dump) -> Vec<String> {
    let mut out = Vec::new();
    for (label, value) in before {
        if after.get(label) != Some(value) {
            out.push(label.clone());
        }
    }
    for label in after.keys() {
        if !before.contains_key(label) {
            out.push(label.clone());
        }
    }
    out.sort();
    out.dedup();
    out
}

/// A short, stable class for a set of differing labels: which *families* of
/// observation changed. Used in violation signatures.
pub fn diff_class(labels: &[String]) -> String {
    let mut pending_only = true;
    let mut families: Vec<&str> = Vec::new();
    for label in labels {
        let family = if label.starts_with("FIND(?x)") || label.starts_with("FIND(?p) ") || label.starts_with("FIND(?a.id") {
            if label.contains(r#"state: "pending""#) { "pending-shells" } else { "elements" }
        } else if label.starts_with("FIND(COUNT") {
            "counts"
        } else if label.contains("BELIEF") {
            "beliefs"
        } else if label.starts_with("HISTORY") || label.starts_with("CHANGES") || label.starts_with("DESCRIBE TRANSACTION") {
            "journal"
        } else if label.starts_with("SEARCH") {
            "search"
        } else {
            "meta"
        };
        if family != "pending-shells" {
            pending_only = false;
        }
        if !families.contains(&family) {
            families.push(family);
        }
    }
    if pending_only && !labels.is_empty() {
        return "pending-shells-only".to_string();
    }
    families.sort();
    families.join("+")
}

/// Statement parameters resolved from the element sections of the current
/// state: ids by logical key, first tuple, lowest active Assertions, first
/// Evidence. A missing element resolves to an id that never exists, which
/// turns the statement into a refused one (dangling reference) rather than
/// into a harness error.
pub fn params_from(now: &Dump) -> anda_kip::Map<String, Json> {
    let views = by_id(now);
    let mut out = anda_kip::Map::new();
    let mut bind = |name: &str, id: Option<String>, ghost: &str| {
        let id = id.unwrap_or_else(|| ghost.to_string());
        out.insert(name.to_string(), Json::String(id.clone()));
        out.insert(format!("{name}_ref"), json!({"id": id}));
    };
    let concept = |schema: &str, key: &str| -> Option<String> {
        let mut found: Vec<(&String, &Json)> = views
            .iter()
            .filter(|(id, view)| {
                id.starts_with("C-")
                    && view["key"] == json!(key)
                    && view["schema_ref"].as_str().is_some_and(|s| s.ends_with(schema))
            })
            .collect();
        // an active holder first, then the lowest id
        found.sort_by_key(|(id, view)| (view["_system"]["state"] != json!("active"), id_number(id)));
        found.first().map(|(id, _)| (*id).clone())
    };
    bind("a", concept("/Person", "a"), "C-9001");
    bind("b", concept("/Person", "b"), "C-9002");
    bind("d", concept("/Preference", "d"), "C-9003");
    bind("n", concept("/Insight", "n"), "C-9004");
    bind("m", concept("/Insight", "m"), "C-9005");
    let mut props: Vec<&String> = views.keys().filter(|id| id.starts_with("P-")).collect();
    props.sort_by_key(|id| id_number(id));
    bind("p", props.first().map(|id| (*id).clone()), "P-9001");
    let mut assertions: Vec<(&String, &Json)> = views.iter().filter(|(id, _)| id.starts_with("A-")).collect();
    assertions.sort_by_key(|(id, view)| (view["lifecycle"]["status"] != json!("active"), id_number(id)));
    bind("as1", assertions.first().map(|(id, _)| (*id).clone()), "A-9001");
    bind("as2", assertions.get(1).map(|(id, _)| (*id).clone()), "A-9002");
    let mut evidence: Vec<&String> = views.keys().filter(|id| id.starts_with("E-")).collect();
    evidence.sort_by_key(|id| id_number(id));
    bind("ev", evidence.first().map(|id| (*id).clone()), "E-9001");
    bind("ghost", None, "C-9999");
    out
}

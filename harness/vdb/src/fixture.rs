use anda_db::{
    collection::{Collection, CollectionConfig},
    database::{AndaDB, DBConfig},
    error::DBError,
    index::HnswConfig,
    schema::{AndaDBSchema, Vector, bf16},
    storage::StorageConfig,
};
use object_store::ObjectStore;
use serde::{Deserialize, Serialize};
use std::sync::Arc;

/// The document type of every collection-level check: one unique scalar,
/// one duplicate-friendly scalar, one optional scalar, one array, one text
/// and one vector field.
#[derive(Debug, Clone, Serialize, Deserialize, PartialEq, AndaDBSchema)]
pub struct VDoc {
    pub _id: u64,
    #[unique]
    pub name: String,
    pub age: u64,
    pub opt: Option<u64>,
    /// second optional scalar: with `opt` it forms a composite index whose
    /// components can be absent on either side
    pub opt2: Option<u64>,
    pub tags: Vec<String>,
    #[unique]
    pub codes: Vec<String>,
    /// wildcard map: indexed by its keys
    pub attrs: std::collections::BTreeMap<String, u64>,
    pub body: String,
    pub emb: Vector,
}

pub const DIM: usize = 4;

pub fn emb_of(age: u64, salt: u64) -> Vector {
    [age as f32, 1.0 + salt as f32, 2.0, 3.0].into_iter().map(bf16::from_f32).collect()
}

pub fn vdoc(name: &str, age: u64, opt: Option<u64>, tags: &[&str], body: &str) -> VDoc {
    vdoc_codes(name, age, opt, tags, &[], body)
}

pub fn vdoc_codes(name: &str, age: u64, opt: Option<u64>, tags: &[&str], codes: &[&str], body: &str) -> VDoc {
    VDoc {
        _id: 0,
        name: name.to_string(),
        age,
        opt,
        opt2: None,
        tags: tags.iter().map(|s| s.to_string()).collect(),
        codes: codes.iter().map(|s| s.to_string()).collect(),
        attrs: tags.iter().map(|t| (format!("k{t}"), age)).collect(),
        body: body.to_string(),
        emb: emb_of(age, name.len() as u64),
    }
}

/// Which indexes the open callback creates.
#[derive(Clone, Copy, Debug, PartialEq, Eq, Hash, Serialize, Deserialize)]
pub struct Idx {
    pub name: bool,
    pub age: bool,
    pub opt: bool,
    pub tags: bool,
    pub codes: bool,
    pub attrs: bool,
    pub age_opt: bool,
    pub opt_opt2: bool,
    pub body: bool,
    pub emb: bool,
}

impl Idx {
    pub const ALL: Idx = Idx {
        name: true,
        age: true,
        opt: true,
        tags: true,
        codes: true,
        attrs: true,
        age_opt: false,
        opt_opt2: false,
        body: true,
        emb: true,
    };
    pub const BTREES: Idx = Idx {
        name: true,
        age: true,
        opt: true,
        tags: true,
        codes: false,
        attrs: false,
        age_opt: false,
        opt_opt2: false,
        body: false,
        emb: false,
    };
    pub const NONE: Idx = Idx {
        name: false,
        age: false,
        opt: false,
        tags: false,
        codes: false,
        attrs: false,
        age_opt: false,
        opt_opt2: false,
        body: false,
        emb: false,
    };
}

pub const DB_NAME: &str = "vdb";
pub const COLL_NAME: &str = "docs";

thread_local! {
    /// Storage configuration variant of the databases this thread creates / opens:
    /// 0 = no compression, default cache; 1 = zstd level 3, cache disabled;
    /// 2 = zstd level 1, a byte-bounded cache so small that entries are evicted all the time.
    static CONFIG_VARIANT: std::cell::Cell<u8> = const { std::cell::Cell::new(0) };
}

pub fn set_config_variant(v: u8) {
    CONFIG_VARIANT.with(|c| c.set(v));
}

pub fn config_variant() -> u8 {
    CONFIG_VARIANT.with(|c| c.get())
}

pub fn db_config() -> DBConfig {
    let (compress_level, cache_max_capacity, cache_max_bytes) = match config_variant() {
        0 => (0, StorageConfig::default().cache_max_capacity, None),
        1 => (3, 0, None),
        _ => (1, StorageConfig::default().cache_max_capacity, Some(300)),
    };
    DBConfig {
        name: DB_NAME.to_string(),
        description: "verification fixture".to_string(),
        storage: StorageConfig {
            compress_level,
            cache_max_capacity,
            cache_max_bytes,
            // tiny index buckets: a handful of documents already spans several
            // buckets, so splits, migrations and compaction have real work
            bucket_overload_size: 32,
            ..Default::default()
        },
        lock: None,
    }
}

pub async fn connect(store: Arc<dyn ObjectStore>) -> Result<AndaDB, DBError> {
    AndaDB::connect(store, db_config()).await
}

pub fn hnsw_config() -> HnswConfig {
    HnswConfig {
        dimension: DIM,
        ..Default::default()
    }
}

pub async fn open_coll(db: &AndaDB, idx: Idx) -> Result<Arc<Collection>, DBError> {
    open_coll_with(db, idx, idx).await
}

/// Opens (or creates) the collection; the callback creates every index of
/// `want` that does not exist and removes every index that `had` names but
/// `want` does not.
pub async fn open_coll_with(db: &AndaDB, idx: Idx, had: Idx) -> Result<Arc<Collection>, DBError> {
    db.open_or_create_collection(
        VDoc::schema()?,
        CollectionConfig {
            name: COLL_NAME.to_string(),
            description: "verification docs".to_string(),
        },
        async move |c| {
            if idx.name {
                c.create_btree_index_nx(&["name"]).await?;
            }
            if idx.age {
                c.create_btree_index_nx(&["age"]).await?;
            }
            if idx.opt {
                c.create_btree_index_nx(&["opt"]).await?;
            }
            if idx.tags {
                c.create_btree_index_nx(&["tags"]).await?;
            }
            if idx.codes {
                c.create_btree_index_nx(&["codes"]).await?;
            }
            if idx.attrs {
                c.create_btree_index_nx(&["attrs"]).await?;
            }
            if idx.age_opt {
                c.create_btree_index_nx(&["age", "opt"]).await?;
            }
            if idx.opt_opt2 {
                c.create_btree_index_nx(&["opt", "opt2"]).await?;
            }
            if idx.body {
                c.create_bm25_index_nx(&["body"]).await?;
            }
            if idx.emb {
                c.create_hnsw_index_nx("emb", hnsw_config()).await?;
            }
            if had.tags && !idx.tags {
                c.remove_btree_index(&["tags"]).await?;
            }
            if had.name && !idx.name {
                c.remove_btree_index(&["name"]).await?;
            }
            if had.body && !idx.body {
                c.remove_bm25_index(&["body"]).await?;
            }
            if had.emb && !idx.emb {
                c.remove_hnsw_index("emb").await?;
            }
            Ok(())
        },
    )
    .await
}

/// A second collection whose name has the main collection's name as a proper prefix
/// (`docs` / `docs2`): one document, the `name` and `age` indexes, flushed.
pub const SIBLING_NAME: &str = "docs2";
pub async fn open_sibling(db: &AndaDB) -> Result<Arc<Collection>, DBError> {
    db.open_or_create_collection(
        VDoc::schema()?,
        CollectionConfig {
            name: SIBLING_NAME.to_string(),
            description: "sibling whose name extends the main collection's".to_string(),
        },
        async move |c| {
            c.create_btree_index_nx(&["name"]).await?;
            c.create_btree_index_nx(&["age"]).await?;
            Ok(())
        },
    )
    .await
}

//! CRASH engine for the collection: record a workload once over a
//! journalling store, then rebuild every crash state by journal-prefix
//! replay, recover, and compare with the acknowledgement model (per-document
//! candidate images). Nested crashes replay prefixes of the recovery journal.

use crate::fixture::{self, COLL_NAME, Idx, VDoc, vdoc_codes};
use crate::model::DocModel;
use crate::ops::{Fixture, Op, Outcome, apply_update, template};
use crate::oracle::full_compare;
use anda_db::error::DBError;
use anda_object_store::{EncryptedStoreBuilder, MetaStoreBuilder};
use object_store::ObjectStore;
use serde::{Deserialize, Serialize};
use std::collections::{BTreeMap, BTreeSet};
use std::sync::Arc;
use vcore::ctlstore::{self, Answer, Content, Ctl, CtlStore, JournalEntry};

#[derive(Clone, Copy, Debug, PartialEq, Eq, Serialize, Deserialize, Hash)]
pub enum Backend {
    Mem,
    Meta,
    Enc,
}

pub fn wrap(backend: Backend, store: &Arc<CtlStore>) -> Arc<dyn ObjectStore> {
    match backend {
        Backend::Mem => store.clone(),
        Backend::Meta => Arc::new(MetaStoreBuilder::new((**store).clone(), 1000).build()),
        Backend::Enc => Arc::new(
            EncryptedStoreBuilder::with_secret((**store).clone(), 1000, [7u8; 32])
                .with_chunk_size(256)
                .with_conditional_put()
                .build(),
        ),
    }
}

#[derive(Clone, Debug)]
pub struct OpRec {
    pub op: Op,
    pub out: Outcome,
    /// journal length before / after the op
    pub start: usize,
    pub end: usize,
    /// mutation attempts before / after the op
    pub att_start: u64,
    pub att_end: u64,
    /// id the next successful add would receive (observed before the op)
    pub next_id: u64,
    pub idx_before: Idx,
}

#[derive(Clone, Debug)]
pub struct Recorded {
    pub journal: Vec<JournalEntry>,
    /// journal length when the first open returned
    pub created_at: usize,
    pub ops: Vec<OpRec>,
    pub start_idx: Idx,
    pub open_error: Option<String>,
    pub final_content: Content,
    pub attempts: u64,
    pub prelude_end: usize,
    pub prelude_attempts: u64,
    /// fault runs only: disagreements of the LIVE handle (if it stayed Active)
    /// with the acknowledged history, checked before the process "dies"
    pub live_problems: Vec<(String, String)>,
}

fn install_env() {
    anda_db_utils::verif::set_clock(Some((1_700_000_000_000, 1)));
    anda_db_utils::verif::set_random_seed(Some(7));
}

/// Runs the workload once (optionally with one scripted ambiguous failure)
/// and records journal positions and outcomes.
pub async fn record(workload: &[Op], start_idx: Idx, backend: Backend, fault_at: Option<u64>) -> Recorded {
    record_with_prelude(&[], workload, start_idx, backend, fault_at).await
}

thread_local! {
    /// Which answer a scripted fault gives (default: the write lands, an error is returned).
    pub static FAULT_ANSWER: std::cell::Cell<Answer> = const { std::cell::Cell::new(Answer::ErrAfter) };
}

/// Like `record`, but first runs `prelude` (not part of the enumerated
/// workload: its ops are acknowledged history; `Recorded::prelude_end` is the
/// journal length after it, crash points before that are not enumerated).
/// `fault_at` counts mutation attempts after the prelude.
pub async fn record_with_prelude(prelude: &[Op], workload: &[Op], start_idx: Idx, backend: Backend, fault_at: Option<u64>) -> Recorded {
    install_env();
    let (cs, ctl) = CtlStore::new();
    if prelude.is_empty()
        && let Some(i) = fault_at
    {
        ctl.script(i, FAULT_ANSWER.with(|a| a.get()));
    }
    let store = wrap(backend, &cs);
    let mut rec = Recorded {
        journal: vec![],
        created_at: 0,
        ops: vec![],
        start_idx,
        open_error: None,
        final_content: Content::new(),
        attempts: 0,
        prelude_end: 0,
        prelude_attempts: 0,
        live_problems: Vec::new(),
    };
    let mut live_fx: Option<Fixture> = None;
    match Fixture::open(store, start_idx).await {
        Ok(mut fx) => {
            rec.created_at = ctl.journal_len();
            for op in prelude {
                let start = ctl.journal_len();
                let att_start = ctl.mutation_attempts();
                let next_id = fx.coll.max_document_id() + 1;
                let idx_before = fx.idx;
                let out = fx.exec_any(op).await;
                assert!(out.is_ok(), "prelude op {op:?} failed: {}", out.short());
                rec.ops.push(OpRec { op: op.clone(), out, start, end: ctl.journal_len(), att_start, att_end: ctl.mutation_attempts(), next_id, idx_before });
            }
            if !prelude.is_empty() {
                rec.prelude_end = ctl.journal_len();
                rec.prelude_attempts = ctl.mutation_attempts();
            }
            if !prelude.is_empty()
                && let Some(i) = fault_at
            {
                ctl.script(rec.prelude_attempts + i, FAULT_ANSWER.with(|a| a.get()));
            }
            for op in workload {
                if matches!(op, Op::CompactBm25) && !fx.idx.body {
                    continue;
                }
                if matches!(op, Op::CompactBtree) && !fx.idx.age {
                    continue;
                }
                let start = ctl.journal_len();
                let att_start = ctl.mutation_attempts();
                let next_id = fx.coll.max_document_id() + 1;
                let idx_before = fx.idx;
                let out = fx.exec_any(op).await;
                rec.ops.push(OpRec {
                    op: op.clone(),
                    out,
                    start,
                    end: ctl.journal_len(),
                    att_start,
                    att_end: ctl.mutation_attempts(),
                    next_id,
                    idx_before,
                });
            }
            live_fx = Some(fx);
        }
        Err(e) => {
            rec.created_at = usize::MAX;
            rec.open_error = Some(format!("{e:?}"));
        }
    }
    if let (Some(i), Some(fx)) = (fault_at, live_fx.as_ref())
        && fx.coll.state() == anda_db::error::CollectionState::Active
    {
        // a failed call that leaves the handle usable must have left memory
        // consistent with what was acknowledged (the failed call all-or-nothing)
        ctl.reset_faults();
        let exp = expectation_after_fault(&rec, rec.prelude_attempts + i);
        let (ps, _) = check_state(fx, &exp).await;
        for (sig, msg) in ps {
            rec.live_problems.push((format!("live-after-failed-call|{sig}"), format!("handle still Active after a failed backend call, but {msg}")));
        }
    }
    rec.journal = ctl.journal();
    rec.attempts = ctl.mutation_attempts();
    rec.final_content = ctlstore::snapshot(cs.inner());
    rec
}

/// What a recovered database may legally contain.
#[derive(Clone, Debug, PartialEq, Serialize)]
pub struct Expectation {
    /// candidate images per document id (None = absent)
    pub images: BTreeMap<u64, Vec<Option<VDoc>>>,
    pub want_idx: Idx,
    pub had_idx: Idx,
    pub allow_remedy: bool,
    pub flushed_ids: BTreeSet<u64>,
    pub in_flight: Option<String>,
}

impl Expectation {
    pub fn key(&self) -> u64 {
        vcore::util::fnv64(format!("{self:?}").as_bytes())
    }
}

fn live_ids(images: &BTreeMap<u64, Vec<Option<VDoc>>>) -> Vec<u64> {
    images
        .iter()
        .filter(|(_, c)| c.len() == 1 && c[0].is_some())
        .map(|(i, _)| *i)
        .collect()
}

/// Applies an op whose outcome is known (acknowledged or cleanly rejected).
fn apply_known(exp: &mut Expectation, r: &OpRec) {
    match (&r.op, &r.out) {
        (Op::Add(t), Outcome::Id(id)) | (Op::AddSparse(t), Outcome::Id(id)) => {
            let mut d = template(*t);
            d._id = *id;
            exp.images.insert(*id, vec![Some(d)]);
        }
        (Op::Update(id, u), Outcome::Doc(_)) => {
            if let Some(c) = exp.images.get_mut(id) {
                let n: Vec<Option<VDoc>> = c.iter().flatten().map(|d| Some(apply_update(d, *u))).collect();
                *c = dedup(n);
            }
        }
        (Op::Remove(id), Outcome::Removed(Some(_))) => {
            exp.images.insert(*id, vec![None]);
        }
        (Op::Flush, Outcome::Unit) => {
            exp.flushed_ids.extend(live_ids(&exp.images));
        }
        // a successful reopen pins the index set the application asks for: the recorded
        // one (after an EARLIER index-changing reopen that failed, the fixture went on
        // with the index set it had before, not with the one the failed call requested)
        (Op::Reopen, Outcome::Unit) => {
            exp.flushed_ids.extend(live_ids(&exp.images));
            exp.want_idx = r.idx_before;
            exp.had_idx = exp.want_idx;
        }
        (Op::ReopenWith(d), Outcome::Unit) => {
            exp.flushed_ids.extend(live_ids(&exp.images));
            exp.want_idx = d.apply(r.idx_before);
            exp.had_idx = exp.want_idx;
        }
        _ => {}
    }
}

fn dedup(v: Vec<Option<VDoc>>) -> Vec<Option<VDoc>> {
    let mut out: Vec<Option<VDoc>> = Vec::new();
    for x in v {
        if !out.contains(&x) {
            out.push(x);
        }
    }
    out
}

/// Applies an op whose outcome is unknown (in flight at the crash, or it
/// returned an error after a write of unknown outcome): each touched
/// document may show the image before or after the op, in full.
fn apply_uncertain(exp: &mut Expectation, r: &OpRec) {
    match &r.op {
        Op::Add(t) | Op::AddSparse(t) => {
            let mut d = template(*t);
            d._id = r.next_id;
            let c = exp.images.entry(r.next_id).or_insert_with(|| vec![None]);
            c.push(Some(d));
            *c = dedup(std::mem::take(c));
        }
        Op::Update(id, u) => {
            if let Some(c) = exp.images.get_mut(id) {
                let mut n = c.clone();
                for d in c.iter().flatten() {
                    n.push(Some(apply_update(d, *u)));
                }
                *c = dedup(n);
            }
        }
        Op::Remove(id) => {
            if let Some(c) = exp.images.get_mut(id) {
                c.push(None);
                *c = dedup(std::mem::take(c));
            }
        }
        Op::ReopenWith(d) => {
            exp.had_idx = exp.want_idx;
            exp.want_idx = d.apply(exp.want_idx);
        }
        _ => {}
    }
    exp.in_flight = Some(format!("{:?}", r.op));
}

/// Expectation after a power loss once the first `k` journalled mutations
/// landed.
pub fn expectation_at(rec: &Recorded, k: usize) -> Expectation {
    let mut exp = Expectation {
        images: BTreeMap::new(),
        want_idx: rec.start_idx,
        had_idx: rec.start_idx,
        allow_remedy: k < rec.created_at,
        flushed_ids: BTreeSet::new(),
        in_flight: None,
    };
    for r in &rec.ops {
        if r.end <= k {
            apply_known(&mut exp, r);
        } else if r.start < k {
            apply_uncertain(&mut exp, r);
            break;
        } else {
            break;
        }
    }
    exp
}

/// Expectation at the end of a run with one ambiguous failure injected at
/// mutation attempt `fault_at`: acknowledged ops are in effect, the faulted
/// op (if it reported an error) is uncertain, other errors are rejections.
pub fn expectation_after_fault(rec: &Recorded, fault_at: u64) -> Expectation {
    let mut exp = Expectation {
        images: BTreeMap::new(),
        want_idx: rec.start_idx,
        had_idx: rec.start_idx,
        allow_remedy: rec.created_at == usize::MAX,
        flushed_ids: BTreeSet::new(),
        in_flight: None,
    };
    for r in &rec.ops {
        let faulted = r.att_start <= fault_at && fault_at < r.att_end;
        if faulted && !r.out.is_ok() {
            apply_uncertain(&mut exp, r);
        } else {
            apply_known(&mut exp, r);
        }
    }
    exp
}

pub struct Recovered {
    pub fx: Fixture,
    pub ctl: Arc<Ctl>,
    pub used_remedy: bool,
}

/// Reboot: fresh wrappers over the surviving content, connect, open.
pub async fn recover(content: &Content, exp: &Expectation, backend: Backend) -> Result<Recovered, String> {
    install_env();
    // the logical clock of a new process is later than anything before
    anda_db_utils::verif::set_clock(Some((1_800_000_000_000, 1)));
    let inner = ctlstore::restore(content);
    let (cs, ctl) = CtlStore::over(inner);
    let store = wrap(backend, &cs);
    let db = fixture::connect(store.clone())
        .await
        .map_err(|e| format!("connect failed after the crash: {e:?}"))?;
    let mut used_remedy = false;
    let coll = match fixture::open_coll_with(&db, exp.want_idx, exp.had_idx).await {
        Ok(c) => c,
        Err(DBError::AlreadyExists { .. }) if exp.allow_remedy => {
            used_remedy = true;
            db.delete_collection(COLL_NAME)
                .await
                .map_err(|e| format!("documented delete-and-recreate remedy: delete_collection failed: {e:?}"))?;
            fixture::open_coll_with(&db, exp.want_idx, exp.had_idx)
                .await
                .map_err(|e| format!("documented delete-and-recreate remedy: recreate failed: {e:?}"))?
        }
        Err(e) => return Err(format!("collection failed to reopen after the crash: {e:?}")),
    };
    Ok(Recovered {
        fx: Fixture {
            store,
            db,
            coll,
            idx: exp.want_idx,
        },
        ctl,
        used_remedy,
    })
}

/// Checks a recovered handle against the expectation; returns
/// (problems, resolved model).
pub async fn check_state(fx: &Fixture, exp: &Expectation) -> (Vec<(String, String)>, DocModel) {
    let mut problems = Vec::new();
    let mut resolved = DocModel::default();
    for (id, cands) in &exp.images {
        match fx.coll.get_as::<VDoc>(*id).await {
            Ok(d) => {
                if cands.iter().any(|c| c.as_ref() == Some(&d)) {
                    resolved.docs.insert(*id, d);
                } else {
                    problems.push((
                        "doc-image".to_string(),
                        format!("document {id} reads {d:?}; the acknowledged history allows only {cands:?}"),
                    ));
                    resolved.docs.insert(*id, d);
                }
            }
            Err(DBError::NotFound { .. }) => {
                if !cands.iter().any(|c| c.is_none()) {
                    problems.push((
                        "doc-lost".to_string(),
                        format!("document {id} is gone; the acknowledged history requires one of {cands:?}"),
                    ));
                }
            }
            Err(e) => problems.push(("doc-unreadable".to_string(), format!("document {id} is unreadable: {e:?}"))),
        }
    }
    let probe = exp.images.keys().max().copied().unwrap_or(0) + 3;
    let bad = full_compare(&fx.coll, &resolved, exp.want_idx, probe).await;
    if !bad.is_empty() {
        problems.push((
            format!("index|{}", bad[0].split_whitespace().take(2).collect::<Vec<_>>().join("-")),
            format!("recovered indexes disagree with the recovered documents: {}", bad.join("; ")),
        ));
    }
    // unique constraints on the recovered documents
    let docs: Vec<&VDoc> = resolved.docs.values().collect();
    for i in 0..docs.len() {
        for j in i + 1..docs.len() {
            if exp.want_idx.name && docs[i].name == docs[j].name {
                problems.push(("unique".into(), format!("documents {} and {} share the unique name {:?}", docs[i]._id, docs[j]._id, docs[i].name)));
            }
            if exp.want_idx.age_opt && docs[i].age == docs[j].age && docs[i].opt == docs[j].opt {
                problems.push(("unique".into(), format!("documents {} and {} share the multi-field tuple (age, opt)", docs[i]._id, docs[j]._id)));
            }
            if exp.want_idx.opt_opt2 && docs[i].opt == docs[j].opt && docs[i].opt2 == docs[j].opt2 {
                problems.push(("unique".into(), format!("documents {} and {} share the multi-field tuple (opt, opt2)", docs[i]._id, docs[j]._id)));
            }
            if exp.want_idx.codes && docs[i].codes.iter().any(|c| docs[j].codes.contains(c)) {
                problems.push(("unique".into(), format!("documents {} and {} share a unique code", docs[i]._id, docs[j]._id)));
            }
        }
    }
    (problems, resolved)
}

/// Recovery must converge: a second, clean reopen right after recovery (no
/// write in between) shows exactly the same state.
pub async fn second_reopen(fx: &mut Fixture, exp: &Expectation, resolved: &DocModel) -> Vec<(String, String)> {
    let mut problems = Vec::new();
    let out = fx.exec_any(&Op::Reopen).await;
    if !out.is_ok() {
        problems.push(("second-reopen".into(), format!("clean reopen right after recovery failed: {}", out.short())));
        return problems;
    }
    let probe = exp.images.keys().max().copied().unwrap_or(0) + 3;
    let bad = full_compare(&fx.coll, resolved, fx.idx, probe).await;
    if !bad.is_empty() {
        problems.push((
            "second-reopen-state".into(),
            format!("a clean reopen right after recovery shows a different state: {}", bad.join("; ")),
        ));
    }
    problems
}

/// The reopened database accepts and persists new writes; a flushed id is
/// never handed to a different document.
pub async fn continuation(fx: &mut Fixture, exp: &Expectation, resolved: &DocModel) -> Vec<(String, String)> {
    let mut problems = Vec::new();
    let sentinel = vdoc_codes("s9", 99, Some(9), &["s"], &["s9"], "omega sentinel");
    let id = match fx.coll.add_from(&sentinel).await {
        Ok(id) => id,
        Err(e) => {
            problems.push(("cont-add".into(), format!("recovered database rejects a new document: {e:?}")));
            return problems;
        }
    };
    if exp.flushed_ids.contains(&id) {
        problems.push(("id-reuse".into(), format!("new document received id {id}, which a flush had acknowledged for another document")));
    }
    if resolved.docs.contains_key(&id) {
        problems.push(("id-reuse".into(), format!("new document received id {id}, which is live")));
    }
    let out = fx.exec_any(&Op::Flush).await;
    if !out.is_ok() {
        problems.push(("cont-flush".into(), format!("flush after recovery failed: {}", out.short())));
        return problems;
    }
    let out = fx.exec_any(&Op::Reopen).await;
    if !out.is_ok() {
        problems.push(("cont-reopen".into(), format!("clean reopen after recovery failed: {}", out.short())));
        return problems;
    }
    let mut model = resolved.clone();
    let mut s = sentinel;
    s._id = id;
    model.docs.insert(id, s);
    let probe = model.docs.keys().max().copied().unwrap_or(0) + 2;
    let bad = full_compare(&fx.coll, &model, fx.idx, probe).await;
    if !bad.is_empty() {
        problems.push((
            "cont-state".into(),
            format!("after a post-recovery add + flush + clean reopen: {}", bad.join("; ")),
        ));
    }
    problems
}

pub fn content_at(journal: &[JournalEntry], k: usize) -> Content {
    let mut c = Content::new();
    for e in &journal[..k] {
        ctlstore::apply(&mut c, &e.mutation);
    }
    c
}

// ---------------------------------------------------------------------------
// Downward-closed cuts of the concurrent index flushes of ONE collection flush.
//
// `Collection::store_indexes` joins the flush futures of every index
// (`try_join!(try_join_all(btree), try_join_all(bm25), try_join_all(hnsw))`):
// against a real backend their writes interleave freely, so a power failure can
// leave ANY combination of per-index write prefixes behind, not only the journal
// prefixes of the one order the deterministic executor produces. Every index
// writes only below its own directory, so such a state is rebuilt exactly by
// applying, per index chain, a prefix of that chain's journalled writes.

/// `btree_indexes/<name>` / `bm25_indexes/<name>` / `hnsw_indexes/<name>` of a backend path.
pub fn chain_key(path: &str) -> Option<String> {
    for kind in ["btree_indexes/", "bm25_indexes/", "hnsw_indexes/"] {
        if let Some(at) = path.find(kind) {
            let rest = &path[at + kind.len()..];
            let name = rest.split('/').next().unwrap_or("");
            if !name.is_empty() && rest.len() > name.len() {
                return Some(format!("{kind}{name}"));
            }
        }
    }
    None
}

#[derive(Clone, Debug)]
pub struct CutRegion {
    /// index into `Recorded::ops`
    pub op: usize,
    /// journal range [start, end) of the region: a maximal run of index-chain writes
    pub start: usize,
    pub end: usize,
    /// per chain (in order of first appearance) the journal positions of its writes, ascending
    pub chains: Vec<(String, Vec<usize>)>,
}

/// The index-write region of every flush-bearing operation (explicit flush, or
/// the closing flush of a clean reopen) in which at least two index chains wrote.
pub fn cut_regions(rec: &Recorded) -> Vec<CutRegion> {
    let mut out = Vec::new();
    for (oi, r) in rec.ops.iter().enumerate() {
        if !matches!(r.op, Op::Flush | Op::Reopen) || !r.out.is_ok() {
            continue;
        }
        // first maximal run of chain writes inside the op's segment
        let mut i = r.start;
        while i < r.end && chain_key(rec.journal[i].mutation.path()).is_none() {
            i += 1;
        }
        let start = i;
        let mut chains: Vec<(String, Vec<usize>)> = Vec::new();
        while i < r.end {
            let Some(k) = chain_key(rec.journal[i].mutation.path()) else { break };
            match chains.iter_mut().find(|(n, _)| *n == k) {
                Some((_, v)) => v.push(i),
                None => chains.push((k, vec![i])),
            }
            i += 1;
        }
        if chains.len() >= 2 {
            out.push(CutRegion { op: oi, start, end: i, chains });
        }
    }
    out
}

/// All prefix-length vectors of a region that are NOT journal prefixes (those
/// are enumerated by the ordinary pass). `max_partial`: at most that many
/// chains strictly inside (0 < p < len); `None` = the full product.
pub fn cut_vectors(region: &CutRegion, max_partial: Option<usize>) -> Vec<Vec<usize>> {
    let lens: Vec<usize> = region.chains.iter().map(|(_, v)| v.len()).collect();
    let mut out = Vec::new();
    let mut cur = vec![0usize; lens.len()];
    loop {
        // journal prefix <=> the applied positions are exactly region.start..region.start+m
        let mut applied: Vec<usize> = Vec::new();
        for (c, p) in cur.iter().enumerate() {
            applied.extend_from_slice(&region.chains[c].1[..*p]);
        }
        applied.sort_unstable();
        let is_prefix = applied.iter().enumerate().all(|(j, pos)| *pos == region.start + j);
        let partial = cur.iter().zip(&lens).filter(|(p, l)| **p > 0 && **p < **l).count();
        if !is_prefix && max_partial.is_none_or(|m| partial <= m) {
            out.push(cur.clone());
        }
        // next vector
        let mut c = 0;
        loop {
            if c == lens.len() {
                return out;
            }
            if cur[c] < lens[c] {
                cur[c] += 1;
                break;
            }
            cur[c] = 0;
            c += 1;
        }
    }
}

/// Store content after journal[..region.start] plus the chosen per-chain prefixes.
pub fn cut_content(rec: &Recorded, region: &CutRegion, lens: &[usize]) -> Content {
    let mut c = content_at(&rec.journal, region.start);
    let mut applied: Vec<usize> = Vec::new();
    for (ci, p) in lens.iter().enumerate() {
        applied.extend_from_slice(&region.chains[ci].1[..*p]);
    }
    applied.sort_unstable();
    for pos in applied {
        ctlstore::apply(&mut c, &rec.journal[pos].mutation);
    }
    c
}

/// Expectation while the region's operation is in flight.
pub fn cut_expectation(rec: &Recorded, region: &CutRegion) -> Expectation {
    let r = &rec.ops[region.op];
    let k = region.start + 1;
    assert!(r.start < k && k < r.end, "cut region must lie strictly inside its operation");
    expectation_at(rec, k)
}

//! Fixtures, reference models and oracles for the `anda_db` collection-level
//! properties (C01..C06).

pub mod conc;
pub mod crash;
pub mod fixture;
pub mod model;
pub mod ops;
pub mod oracle;

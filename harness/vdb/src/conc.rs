//! Shared fixture for the schedule-exploring checks (C04 step part, C05,
//! C06): a collection preloaded with two flushed documents over a gated
//! `CtlStore`, tasks that run one API call each, and the linearizability
//! search against the sequential model.

use crate::fixture::Idx;
use crate::ops::{Fixture, Op, Outcome, SeqModel, exec_on, probe_bound};
use crate::oracle::full_compare;
use anda_db::collection::Collection;
use std::cell::RefCell;
use std::rc::Rc;
use std::sync::{Arc, OnceLock};
use vcore::choice::Chooser;
use vcore::ctlstore::{self, Content, Ctl, CtlStore, Label};
use vcore::step::{RunEnd, Sched};
use vcore::util;

pub struct Preloaded {
    pub content: Content,
    pub model: SeqModel,
}

fn install_env() {
    anda_db_utils::verif::set_clock(Some((1_700_000_000_000, 1)));
    anda_db_utils::verif::set_random_seed(Some(7));
}

/// Two flushed documents (templates 0 and 1 -> ids 1 and 2), for the index set `idx`,
/// built (once per index set and storage configuration variant of the calling thread)
/// under `fixture::config_variant()`.
pub fn preloaded(idx: Idx) -> &'static Preloaded {
    static CELL: OnceLock<parking_lot::Mutex<Vec<((Idx, u8), &'static Preloaded)>>> = OnceLock::new();
    let variant = crate::fixture::config_variant();
    let cell = CELL.get_or_init(|| parking_lot::Mutex::new(Vec::new()));
    let mut all = cell.lock();
    if let Some((_, p)) = all.iter().find(|(k, _)| *k == (idx, variant)) {
        return p;
    }
    install_env();
    let (cs, _ctl) = CtlStore::new();
    let model = util::block_on(async {
        let mut fx = Fixture::open(cs.clone(), idx).await.expect("preload open");
        let mut model = SeqModel::default();
        for op in [Op::Add(0), Op::Add(1), Op::Flush] {
            let out = fx.exec_any(&op).await;
            assert!(out.is_ok(), "preload {op:?} failed: {}", out.short());
            model.apply(&op, &out);
        }
        fx.db.close().await.expect("preload close");
        model
    });
    let p: &'static Preloaded = Box::leak(Box::new(Preloaded { content: ctlstore::snapshot(cs.inner()), model }));
    all.push(((idx, variant), p));
    p
}

pub struct Live {
    pub cs: Arc<CtlStore>,
    pub ctl: Arc<Ctl>,
    pub fx: Fixture,
    /// (insert_count, update_count, delete_count) right after the open
    pub base_counts: (u64, u64, u64),
}

/// 65 flushed documents (templates 101..165 -> ids 1..65), all index kinds: the first
/// add published the allocation watermark 1 + 64 = 65, so the next add (id 66) is the
/// first one that has to publish a new watermark before it may write.
pub fn preloaded_bulk64() -> &'static Preloaded {
    static CELL: OnceLock<Preloaded> = OnceLock::new();
    CELL.get_or_init(|| {
        install_env();
        let (cs, _ctl) = CtlStore::new();
        let model = util::block_on(async {
            let mut fx = Fixture::open(cs.clone(), Idx::ALL).await.expect("preload open");
            let mut model = SeqModel::default();
            let mut ops: Vec<Op> = (1..=65u8).map(|k| Op::Add(100 + k)).collect();
            ops.push(Op::Flush);
            for op in ops {
                let out = fx.exec_any(&op).await;
                assert!(out.is_ok(), "preload {op:?} failed: {}", out.short());
                model.apply(&op, &out);
            }
            fx.db.close().await.expect("preload close");
            model
        });
        Preloaded { content: ctlstore::snapshot(cs.inner()), model }
    })
}

/// Which prepared store image an execution starts from.
#[derive(Clone, Copy, Debug, PartialEq, Eq, serde::Serialize, serde::Deserialize)]
pub enum Start {
    /// two flushed documents
    Two,
    /// 65 flushed documents: the next id is the first above the published allocation watermark (Idx::ALL only)
    Bulk64,
}

pub fn preloaded_at(idx: Idx, start: Start) -> &'static Preloaded {
    match start {
        Start::Two => preloaded(idx),
        Start::Bulk64 => {
            assert!(idx == Idx::ALL, "bulk64 start state exists for Idx::ALL only");
            preloaded_bulk64()
        }
    }
}

/// Opens a fresh database over a copy of the preloaded content (gate off).
pub fn open_live(idx: Idx) -> Live {
    open_live_at(idx, Start::Two)
}

pub fn open_live_at(idx: Idx, start: Start) -> Live {
    let pre = preloaded_at(idx, start);
    install_env();
    anda_db_utils::verif::set_clock(Some((1_750_000_000_000, 1)));
    let (cs, ctl) = CtlStore::over(ctlstore::restore(&pre.content));
    let fx = util::block_on(Fixture::open(cs.clone(), idx)).expect("open preloaded");
    let st = fx.coll.stats();
    let base_counts = (st.insert_count, st.update_count, st.delete_count);
    Live { cs, ctl, fx, base_counts }
}

#[derive(Debug)]
pub struct ExecOut {
    pub outcomes: Vec<Option<Outcome>>,
    pub end: RunEnd,
    /// (first step, last step) per task in the schedule
    pub spans: Vec<Option<(usize, usize)>>,
    pub labels: Vec<Label>,
    pub steps: usize,
    /// store content at the moment a `Flush` call of the op set returned
    pub flush_snapshot: Option<Content>,
}

/// Runs `ops` as concurrent tasks on `coll` under the chooser's schedule.
pub fn run_ops(live: &Live, coll: &Arc<Collection>, ops: &[Op], chooser: &mut Chooser, max_steps: usize) -> ExecOut {
    let results: Rc<RefCell<Vec<Option<Outcome>>>> = Rc::new(RefCell::new(vec![None; ops.len()]));
    live.ctl.clear_labels();
    live.ctl.keep_labels(true);
    live.ctl.set_gate(true);
    // responses are scheduling points too: a call suspends once before it takes
    // effect and once after, before its result is delivered
    live.ctl.set_post_gate(true);
    let mut sched = Sched::new();
    let ctl = live.ctl.clone();
    sched.on_switch = Some(Box::new(move |t| ctl.set_task(t)));
    for (i, op) in ops.iter().enumerate() {
        let c = coll.clone();
        let op = op.clone();
        let res = results.clone();
        sched.spawn(&format!("{op:?}"), async move {
            let out = exec_on(&c, &op).await.expect("non-reopen op");
            res.borrow_mut()[i] = Some(out);
        });
    }
    // like Sched::run, but snapshots the store at the moment a flush call returns
    let flush_task = ops.iter().position(|o| matches!(o, Op::Flush));
    let mut flush_snapshot: Option<Content> = None;
    let end = loop {
        if sched.steps.len() >= max_steps {
            break RunEnd::StepLimit;
        }
        let (opts, costs) = sched.options();
        if opts.is_empty() {
            if sched.all_done() {
                break RunEnd::AllDone;
            }
            break RunEnd::Deadlock(
                (0..ops.len())
                    .filter(|t| sched.state(*t) == vcore::step::TaskState::Suspended)
                    .map(|t| sched.name(t).to_string())
                    .collect(),
            );
        }
        let pick = if opts.len() == 1 { 0 } else { chooser.choose(&costs) };
        let t = opts[pick];
        let done = sched.step(t);
        if done && Some(t) == flush_task && flush_snapshot.is_none() {
            flush_snapshot = Some(ctlstore::snapshot(live.cs.inner()));
        }
    };
    let mut spans: Vec<Option<(usize, usize)>> = vec![None; ops.len()];
    for (s, t) in sched.steps.iter().enumerate() {
        spans[*t] = Some(match spans[*t] {
            None => (s, s),
            Some((a, _)) => (a, s),
        });
    }
    let steps = sched.steps.len();
    drop(sched);
    live.ctl.set_gate(false);
    live.ctl.keep_labels(false);
    live.ctl.set_task(99);
    let outcomes = results.borrow().clone();
    ExecOut {
        outcomes,
        end,
        spans,
        labels: live.ctl.labels(),
        steps,
        flush_snapshot,
    }
}

fn doc_of(op: &Op) -> Option<u64> {
    match op {
        Op::Update(id, _) | Op::UpdateUnknown(id) | Op::Remove(id) | Op::Get(id) => Some(*id),
        _ => None,
    }
}

/// Like `doc_of`, but an acknowledged add is a call on the document it created.
fn doc_of_call(op: &Op, out: &Option<Outcome>) -> Option<u64> {
    match (op, out) {
        (Op::Add(_) | Op::AddSparse(_), Some(Outcome::Id(id))) => Some(*id),
        _ => doc_of(op),
    }
}

/// All permutations of 0..n (n <= 4 here).
fn permutations(n: usize) -> Vec<Vec<usize>> {
    let mut out = Vec::new();
    let mut cur: Vec<usize> = (0..n).collect();
    fn heap(k: usize, a: &mut Vec<usize>, out: &mut Vec<Vec<usize>>) {
        if k <= 1 {
            out.push(a.clone());
            return;
        }
        for i in 0..k {
            heap(k - 1, a, out);
            if k % 2 == 0 {
                a.swap(i, k - 1);
            } else {
                a.swap(0, k - 1);
            }
        }
    }
    heap(n, &mut cur, &mut out);
    out.sort();
    out.dedup();
    out
}

/// Wing-Gong style search: is there an order of the completed calls that
/// respects real-time order between calls on the same document, reproduces
/// every return value on the sequential model, and ends in the state the
/// implementation is in? Returns Ok(order) or Err(explanation).
pub fn linearize(live: &Live, coll: &Collection, idx: Idx, start: &SeqModel, ops: &[Op], out: &ExecOut) -> Result<Vec<usize>, String> {
    let n = ops.len();
    let mut why: Vec<String> = Vec::new();
    'perm: for perm in permutations(n) {
        // real-time order per document
        for a in 0..n {
            for b in 0..n {
                let (ia, ib) = (perm[a], perm[b]);
                if a < b {
                    // ia placed before ib: forbidden if ib finished before ia started and same doc
                    if let (Some(da), Some(db)) = (doc_of_call(&ops[ia], &out.outcomes[ia]), doc_of_call(&ops[ib], &out.outcomes[ib]))
                        && da == db
                        && let (Some(sa), Some(sb)) = (out.spans[ia], out.spans[ib])
                        && sb.1 < sa.0
                    {
                        continue 'perm;
                    }
                }
            }
        }
        let mut model = start.clone();
        for &i in &perm {
            let Some(o) = &out.outcomes[i] else {
                continue 'perm;
            };
            let exp = model.expect(&ops[i], idx);
            if let Some(msg) = model.check_outcome(&ops[i], &exp, o) {
                if why.len() < 6 {
                    why.push(format!("order {perm:?}: {msg}"));
                }
                continue 'perm;
            }
            model.apply(&ops[i], o);
        }
        let mut bad = util::block_on(full_compare(coll, &model.docs, idx, probe_bound(&model)));
        let ext = coll.get_extension("k").and_then(|v| match v {
            anda_db::query::Fv::U64(x) => Some(x as u8),
            _ => None,
        });
        if ext != model.ext {
            bad.push(format!("extension k = {ext:?}, model {:?}", model.ext));
        }
        // "counts equal the result of that order": every acknowledged add / update /
        // remove-that-returned-the-document counts exactly once, nothing else counts
        let mut want = live.base_counts;
        for (op, o) in ops.iter().zip(&out.outcomes) {
            match (op, o) {
                (Op::Add(_) | Op::AddSparse(_), Some(Outcome::Id(_))) => want.0 += 1,
                (Op::Update(..), Some(Outcome::Doc(_))) => want.1 += 1,
                (Op::Remove(_), Some(Outcome::Removed(Some(_)))) => want.2 += 1,
                _ => {}
            }
        }
        let st = coll.stats();
        let got = (st.insert_count, st.update_count, st.delete_count);
        if got != want {
            bad.push(format!("operation counters (insert, update, delete) = {got:?}, the acknowledged calls give {want:?}"));
        }
        if bad.is_empty() {
            return Ok(perm);
        }
        if why.len() < 6 {
            why.push(format!("order {perm:?} reproduces the results but the final state differs: {}", bad.join("; ")));
        }
    }
    Err(why.join(" || "))
}

/// Canonical form of a label sequence for the determinism self-check.
pub fn canon_labels(labels: &[Label]) -> Vec<String> {
    labels.iter().map(|l| format!("{}:{}:{}", l.task, l.op, l.path)).collect()
}


/// "What a concurrent flush persisted is the state after some prefix": the
/// store content captured when the flush call returned is recovered by a
/// fresh process; every document must then show an image it has at some
/// prefix of the accepted order that contains every call on that document
/// which had returned before the flush began (calls still in flight at the
/// flush are all-or-nothing), and the recovered indexes must agree with the
/// recovered documents.
pub fn check_flush_snapshot(idx: Idx, start: &SeqModel, ops: &[Op], out: &ExecOut, order: &[usize]) -> Vec<(String, String)> {
    use crate::crash::{self, Backend, Expectation};
    let Some(content) = &out.flush_snapshot else {
        return vec![];
    };
    let Some(ft) = ops.iter().position(|o| matches!(o, Op::Flush)) else {
        return vec![];
    };
    let Some(fspan) = out.spans[ft] else {
        return vec![];
    };
    // model states along the accepted order
    let mut models = vec![start.clone()];
    let mut m = start.clone();
    for &i in order {
        if let Some(o) = &out.outcomes[i] {
            m.apply(&ops[i], o);
        }
        models.push(m.clone());
    }
    let mut ids: std::collections::BTreeSet<u64> = std::collections::BTreeSet::new();
    for mm in &models {
        ids.extend(mm.docs.docs.keys().copied());
    }
    let mut images = std::collections::BTreeMap::new();
    for id in ids {
        // first prefix length that contains every call on `id` that returned before the flush began
        let mut min_prefix = 0;
        for (pos, &i) in order.iter().enumerate() {
            let touches = match (&ops[i], &out.outcomes[i]) {
                (Op::Add(_), Some(Outcome::Id(x))) => *x == id,
                (o, _) => doc_of(o) == Some(id),
            };
            if touches && out.spans[i].map(|s| s.1 < fspan.0).unwrap_or(false) {
                min_prefix = pos + 1;
            }
        }
        let mut c: Vec<Option<crate::fixture::VDoc>> = Vec::new();
        for mm in &models[min_prefix..] {
            let img = mm.docs.docs.get(&id).cloned();
            if !c.contains(&img) {
                c.push(img);
            }
        }
        images.insert(id, c);
    }
    let exp = Expectation {
        images,
        want_idx: idx,
        had_idx: idx,
        allow_remedy: false,
        flushed_ids: start.flushed_ids.clone(),
        in_flight: Some("calls overlapping the flush".into()),
    };
    let mut problems = Vec::new();
    match util::block_on(crash::recover(content, &exp, Backend::Mem)) {
        Ok(rec) => {
            let (ps, resolved) = util::block_on(crash::check_state(&rec.fx, &exp));
            let clean = ps.is_empty();
            for (sig, msg) in ps {
                problems.push((format!("flush-snapshot|{sig}"), format!("state persisted when the concurrent flush returned: {msg}")));
            }
            // ONE global cut: the recovered documents TOGETHER must be the state
            // after one set of calls that is closed under real-time precedence,
            // contains every call returned before the flush began and none
            // started after it returned (per-document images alone would accept
            // "the later call without the earlier one" across documents).
            if clean {
                let others: Vec<usize> = (0..ops.len()).filter(|i| *i != ft && out.spans[*i].is_some()).collect();
                let span = |i: usize| out.spans[i].unwrap();
                let mut found = false;
                'sets: for mask in 0u32..(1u32 << others.len()) {
                    let inside = |i: usize| others.iter().position(|x| *x == i).map(|k| mask & (1 << k) != 0).unwrap_or(false);
                    for &a in &others {
                        if span(a).1 < fspan.0 && !inside(a) {
                            continue 'sets;
                        }
                        if span(a).0 > fspan.1 && inside(a) {
                            continue 'sets;
                        }
                        if inside(a) && others.iter().any(|&b| span(b).1 < span(a).0 && !inside(b)) {
                            continue 'sets;
                        }
                    }
                    let mut m = start.clone();
                    for &i in order {
                        if inside(i)
                            && let Some(o) = &out.outcomes[i]
                        {
                            // a set that holds an acknowledged update without the add that
                            // created its document is not a state of the accepted order
                            if let (Op::Update(id, _), Outcome::Doc(_)) = (&ops[i], o)
                                && !m.docs.docs.contains_key(id)
                            {
                                continue 'sets;
                            }
                            m.apply(&ops[i], o);
                        }
                    }
                    if m.docs.docs == resolved.docs {
                        found = true;
                        break;
                    }
                }
                if !found {
                    problems.push((
                        "flush-snapshot|not-a-prefix".into(),
                        format!(
                            "state persisted when the concurrent flush returned is no prefix of the accepted order: recovered documents {:?} equal the state after NO set of calls that is closed under real-time order (spans {:?}, flush {:?})",
                            resolved.docs, out.spans, fspan
                        ),
                    ));
                }
            }
        }
        Err(e) => problems.push(("flush-snapshot|recover".into(), format!("state persisted when the concurrent flush returned does not reopen: {e}"))),
    }
    problems
}


/// Durability of the converged state: after all calls returned, one more
/// flush and a fresh process over the store content must show the final
/// model state (documents, indexes) and the extension value of the accepted
/// order (a synchronous `set_extension` is persisted by the next flush).
pub fn check_final_durability(live: &Live, coll: &Collection, idx: Idx, start: &SeqModel, ops: &[Op], out: &ExecOut, order: &[usize]) -> Vec<(String, String)> {
    use crate::crash::{self, Backend, Expectation};
    let mut m = start.clone();
    for &i in order {
        if let Some(o) = &out.outcomes[i] {
            m.apply(&ops[i], o);
        }
    }
    if coll.state() != anda_db::error::CollectionState::Active {
        return vec![];
    }
    if let Err(e) = util::block_on(coll.flush(anda_db::unix_ms())) {
        return vec![("final-flush".into(), format!("flush after all calls returned failed: {e:?}"))];
    }
    let content = ctlstore::snapshot(live.cs.inner());
    let exp = Expectation {
        images: m.docs.docs.iter().map(|(i, d)| (*i, vec![Some(d.clone())])).collect(),
        want_idx: idx,
        had_idx: idx,
        allow_remedy: false,
        flushed_ids: Default::default(),
        in_flight: None,
    };
    let mut problems = Vec::new();
    match util::block_on(crash::recover(&content, &exp, Backend::Mem)) {
        Ok(rec) => {
            let (ps, _) = util::block_on(crash::check_state(&rec.fx, &exp));
            for (sig, msg) in ps {
                problems.push((format!("final-durability|{sig}"), format!("after a final flush a fresh process disagrees with the converged state: {msg}")));
            }
            let ext = rec.fx.coll.get_extension("k").and_then(|v| match v {
                anda_db::query::Fv::U64(x) => Some(x as u8),
                _ => None,
            });
            if ext != m.ext {
                problems.push((
                    "final-durability|extension".into(),
                    format!("after a final flush a fresh process reads extension k = {ext:?}, the accepted order gives {:?}", m.ext),
                ));
            }
        }
        Err(e) => problems.push(("final-durability|recover".into(), e)),
    }
    problems
}

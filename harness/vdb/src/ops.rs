//! Operation alphabet shared by the history / crash / schedule checks, the
//! fixture that executes it on the real `Collection`, and the acknowledgement
//! model (per-document candidate images) the oracles compare against.

use crate::fixture::{self, Idx, VDoc, vdoc_codes};
use crate::model::DocModel;
use anda_db::collection::Collection;
use anda_db::database::AndaDB;
use anda_db::error::DBError;
use anda_db::query::Fv;
use anda_db::schema::{Document, bf16};
use object_store::ObjectStore;
use serde::{Deserialize, Serialize};
use std::collections::{BTreeMap, BTreeSet};
use std::sync::Arc;

#[derive(Clone, Debug, Serialize, Deserialize, PartialEq, Eq, Hash, PartialOrd, Ord)]
pub enum Op {
    /// add document template `t`
    Add(u8),
    /// add template `t` with its absent optional fields left OUT of the
    /// document (what `skip_serializing_if = "Option::is_none"` produces)
    /// instead of stored as explicit nulls
    AddSparse(u8),
    /// add a document missing a required field (schema violation)
    AddInvalid,
    /// update document `id` with update template `u`
    Update(u64, u8),
    /// update with an unknown field name
    UpdateUnknown(u64),
    Remove(u64),
    /// read a document (a read that may overlap writers)
    Get(u64),
    /// the document object of `id` vanishes from the backend (outside the API),
    /// then `reconcile_storage()` repairs the collection
    LoseAndReconcile(u64),
    /// synchronous, in-memory `set_extension` (persisted by the next flush / close)
    SetExtSync(u8),
    Flush,
    CompactBtree,
    CompactBm25,
    SaveExt(u8),
    RemoveExt,
    /// db.close(); reconnect; open the collection creating `create` and
    /// removing `remove` indexes in the open callback
    Reopen,
    /// reopen adding the text+vector indexes (backfill) / removing them
    ReopenWith(IdxDelta),
}

#[derive(Clone, Copy, Debug, Serialize, Deserialize, PartialEq, Eq, Hash, PartialOrd, Ord)]
pub enum IdxDelta {
    AddTags,
    DropTags,
    AddBody,
    DropBody,
    AddEmb,
    DropEmb,
    AddName,
    /// one open callback that creates one index (with backfill) and removes another
    AddEmbDropTags,
    AddBodyDropName,
    AddTagsDropBody,
}

impl IdxDelta {
    pub fn apply(&self, idx: Idx) -> Idx {
        let mut i = idx;
        match self {
            IdxDelta::AddTags => i.tags = true,
            IdxDelta::DropTags => i.tags = false,
            IdxDelta::AddBody => i.body = true,
            IdxDelta::DropBody => i.body = false,
            IdxDelta::AddEmb => i.emb = true,
            IdxDelta::DropEmb => i.emb = false,
            IdxDelta::AddName => i.name = true,
            IdxDelta::AddEmbDropTags => {
                i.emb = true;
                i.tags = false;
            }
            IdxDelta::AddBodyDropName => {
                i.body = true;
                i.name = false;
            }
            IdxDelta::AddTagsDropBody => {
                i.tags = true;
                i.body = false;
            }
        }
        i
    }
}

/// Document templates. T2 contests T0's unique name; T1/T0 share an age;
/// T4 shares (age,opt) with T0 (composite conflicts).
pub fn template(t: u8) -> VDoc {
    match t {
        0 => vdoc_codes("n0", 10, Some(1), &["a", "b"], &["x"], "alpha beta"),
        1 => vdoc_codes("n1", 10, None, &["b"], &["y"], "beta gamma"),
        2 => vdoc_codes("n0", 30, Some(2), &["c"], &["z"], "gamma"),
        3 => vdoc_codes("n3", 5, Some(1), &[], &[], "delta alpha"),
        4 => vdoc_codes("n4", 10, Some(1), &["a"], &["w", "x"], "omega"),
        5 => vdoc_codes("n5", 20, Some(3), &["b"], &["y", "v"], "beta"),
        // (opt, opt2) = (7, none) and (none, 7): different tuples whose non-null parts coincide
        6 => {
            let mut d = vdoc_codes("n6", 60, Some(7), &[], &["c6"], "gamma");
            d.opt2 = None;
            d
        }
        7 => {
            let mut d = vdoc_codes("n7", 70, None, &[], &["c7"], "gamma");
            d.opt2 = Some(7);
            d
        }
        // bulk documents p<k> with unique name / code, for preloaded start states
        t if t >= 100 => {
            let k = t as u64 - 100;
            let name = format!("p{k}");
            // distinct tokens per document, so the text index spreads over several buckets
            let body = format!("w{k} v{k} bulk");
            vdoc_codes(&name, 100 + k, None, &[], &[name.as_str()], &body)
        }
        _ => panic!("no template {t}"),
    }
}

pub fn update_fields(u: u8) -> BTreeMap<String, Fv> {
    let mut m = BTreeMap::new();
    match u {
        0 => {
            m.insert("age".into(), Fv::U64(40));
        }
        1 => {
            m.insert("name".into(), Fv::Text("n1".into()));
        }
        2 => {
            m.insert("opt".into(), Fv::Null);
        }
        3 => {
            m.insert("opt".into(), Fv::U64(2));
        }
        4 => {
            m.insert("tags".into(), Fv::Array(vec![Fv::Text("c".into())]));
        }
        5 => {
            m.insert("body".into(), Fv::Text("gamma gamma".into()));
        }
        6 => {
            m.insert("name".into(), Fv::Text("n0".into()));
        }
        7 => {
            m.insert(
                "emb".into(),
                Fv::Vector([9.0f32, 9.0, 9.0, 9.0].into_iter().map(bf16::from_f32).collect()),
            );
        }
        8 => {
            m.insert("age".into(), Fv::U64(5));
            m.insert("tags".into(), Fv::Array(vec![Fv::Text("a".into())]));
            m.insert("body".into(), Fv::Text("omega".into()));
        }
        9 => {
            // contested name together with other fields: a conflict must undo all of it
            m.insert("age".into(), Fv::U64(77));
            m.insert("body".into(), Fv::Text("delta".into()));
            m.insert("name".into(), Fv::Text("n0".into()));
        }
        10 => {
            m.insert("age".into(), Fv::U64(10));
            m.insert("opt".into(), Fv::U64(1));
        }
        11 => {
            m.insert("codes".into(), Fv::Array(vec![Fv::Text("y".into())]));
        }
        12 => {
            m.insert("codes".into(), Fv::Array(vec![Fv::Text("q".into()), Fv::Text("x".into())]));
        }
        13 => {
            m.insert("codes".into(), Fv::Array(vec![]));
        }
        14 => {
            // map-keyed indexed field: replace the key set
            let mut map = BTreeMap::new();
            map.insert(anda_db::schema::FieldKey::Text("kz".into()), Fv::U64(1));
            map.insert(anda_db::schema::FieldKey::Text("ka".into()), Fv::U64(2));
            m.insert("attrs".into(), Fv::Map(map));
        }
        15 => {
            m.insert("attrs".into(), Fv::Map(BTreeMap::new()));
        }
        17 => {
            // only the NON-leading component of the (opt, opt2) composite
            m.insert("opt2".into(), Fv::U64(7));
        }
        18 => {
            // several fresh values around one that another document owns: whatever
            // order the index walks them in, some fresh value comes before the conflict
            m.insert(
                "codes".into(),
                Fv::Array(["qa", "qb", "x", "qc", "qd", "qe"].iter().map(|s| Fv::Text(s.to_string())).collect()),
            );
        }
        16 => {
            // passes the schema, rejected by the vector index (wrong dimension) after
            // the B-tree and BM25 stages already ran: everything must be rolled back
            m.insert("age".into(), Fv::U64(41));
            m.insert("body".into(), Fv::Text("omega omega".into()));
            m.insert(
                "emb".into(),
                Fv::Vector([1.0f32, 2.0, 3.0].into_iter().map(bf16::from_f32).collect()),
            );
        }
        _ => panic!("no update template {u}"),
    }
    m
}

/// Applies an update template to a model document.
pub fn apply_update(d: &VDoc, u: u8) -> VDoc {
    let mut d = d.clone();
    for (k, v) in update_fields(u) {
        match (k.as_str(), v) {
            ("age", Fv::U64(x)) => d.age = x,
            ("name", Fv::Text(s)) => d.name = s,
            ("opt", Fv::Null) => d.opt = None,
            ("opt", Fv::U64(x)) => d.opt = Some(x),
            ("opt2", Fv::U64(x)) => d.opt2 = Some(x),
            ("opt2", Fv::Null) => d.opt2 = None,
            ("tags", Fv::Array(vs)) => {
                d.tags = vs
                    .into_iter()
                    .map(|v| match v {
                        Fv::Text(s) => s,
                        _ => unreachable!(),
                    })
                    .collect()
            }
            ("codes", Fv::Array(vs)) => {
                d.codes = vs
                    .into_iter()
                    .map(|v| match v {
                        Fv::Text(s) => s,
                        _ => unreachable!(),
                    })
                    .collect()
            }
            ("attrs", Fv::Map(map)) => {
                d.attrs = map
                    .into_iter()
                    .map(|(k, v)| match (k, v) {
                        (anda_db::schema::FieldKey::Text(k), Fv::U64(v)) => (k, v),
                        other => panic!("apply_update attrs: {other:?}"),
                    })
                    .collect()
            }
            ("body", Fv::Text(s)) => d.body = s,
            ("emb", Fv::Vector(v)) => d.emb = v,
            other => panic!("apply_update: {other:?}"),
        }
    }
    d
}

/// Outcome of one operation on the real collection.
#[derive(Clone, Debug, PartialEq)]
pub enum Outcome {
    Id(u64),
    Doc(Box<VDoc>),
    Removed(Option<Box<VDoc>>),
    Unit,
    Err(ErrClass),
}

#[derive(Clone, Debug, PartialEq, Eq)]
pub enum ErrClass {
    NotFound,
    AlreadyExists,
    Schema,
    /// lifecycle / read-only rejection
    State(String),
    Other(String),
}

pub fn classify(e: &DBError) -> ErrClass {
    if let Some(st) = e.collection_state() {
        return ErrClass::State(format!("{st:?}"));
    }
    match e {
        DBError::NotFound { .. } => ErrClass::NotFound,
        DBError::AlreadyExists { .. } => ErrClass::AlreadyExists,
        DBError::Schema { .. } => ErrClass::Schema,
        other => {
            let s = format!("{other:?}");
            if s.contains("read-only") {
                ErrClass::State("ReadOnly".into())
            } else {
                ErrClass::Other(s.chars().take(160).collect())
            }
        }
    }
}

impl Outcome {
    pub fn is_ok(&self) -> bool {
        !matches!(self, Outcome::Err(_))
    }
    pub fn short(&self) -> String {
        match self {
            Outcome::Id(i) => format!("Ok(id {i})"),
            Outcome::Doc(d) => format!("Ok(doc {})", d._id),
            Outcome::Removed(Some(d)) => format!("Ok(removed {})", d._id),
            Outcome::Removed(None) => "Ok(None)".into(),
            Outcome::Unit => "Ok".into(),
            Outcome::Err(c) => format!("Err({c:?})"),
        }
    }
}

/// A live database + collection over some object store.
pub struct Fixture {
    pub store: Arc<dyn ObjectStore>,
    pub db: AndaDB,
    pub coll: Arc<Collection>,
    pub idx: Idx,
}

impl Fixture {
    pub async fn open(store: Arc<dyn ObjectStore>, idx: Idx) -> Result<Fixture, DBError> {
        let db = fixture::connect(store.clone()).await?;
        let coll = fixture::open_coll(&db, idx).await?;
        Ok(Fixture { store, db, coll, idx })
    }

    pub async fn exec(&mut self, op: &Op) -> Outcome {
        exec_on(&self.coll, op).await.unwrap_or_else(|| unreachable!())
    }

    /// Executes any op including the reopen kinds.
    pub async fn exec_any(&mut self, op: &Op) -> Outcome {
        match op {
            Op::Reopen | Op::ReopenWith(_) => {
                let want = match op {
                    Op::ReopenWith(d) => d.apply(self.idx),
                    _ => self.idx,
                };
                if let Err(e) = self.db.close().await {
                    return Outcome::Err(classify(&e));
                }
                let db = match fixture::connect(self.store.clone()).await {
                    Ok(db) => db,
                    Err(e) => return Outcome::Err(classify(&e)),
                };
                self.db = db;
                match fixture::open_coll_with(&self.db, want, self.idx).await {
                    Ok(c) => {
                        self.coll = c;
                        self.idx = want;
                        Outcome::Unit
                    }
                    Err(e) => Outcome::Err(classify(&e)),
                }
            }
            Op::LoseAndReconcile(id) => {
                use object_store::ObjectStoreExt;
                let path = object_store::path::Path::from(format!("{}/{}/data/{id}.cbor", fixture::DB_NAME, fixture::COLL_NAME));
                let _ = self.store.delete(&path).await;
                match self.coll.reconcile_storage().await {
                    Ok(_) => Outcome::Unit,
                    Err(e) => Outcome::Err(classify(&e)),
                }
            }
            other => exec_on(&self.coll, other).await.unwrap(),
        }
    }
}

/// Executes a non-reopen op on a collection handle.
pub async fn exec_on(coll: &Collection, op: &Op) -> Option<Outcome> {
    Some(match op {
        Op::Add(t) => match coll.add_from(&template(*t)).await {
            Ok(id) => Outcome::Id(id),
            Err(e) => Outcome::Err(classify(&e)),
        },
        Op::AddSparse(t) => {
            let v = template(*t);
            let mut doc = match Document::try_from(coll.schema(), &v) {
                Ok(d) => d,
                Err(e) => return Some(Outcome::Err(ErrClass::Other(format!("{e:?}")))),
            };
            if v.opt.is_none() {
                doc.remove_field("opt");
            }
            if v.opt2.is_none() {
                doc.remove_field("opt2");
            }
            doc.set_id(0);
            match coll.add(doc).await {
                Ok(id) => Outcome::Id(id),
                Err(e) => Outcome::Err(classify(&e)),
            }
        }
        Op::AddInvalid => {
            let mut doc: Document = coll.new_document();
            doc.set_id(0);
            let _ = doc.set_field("age", Fv::U64(1));
            match coll.add(doc).await {
                Ok(id) => Outcome::Id(id),
                Err(e) => Outcome::Err(classify(&e)),
            }
        }
        Op::Update(id, u) => match coll.update(*id, update_fields(*u)).await {
            Ok(doc) => match doc.try_into::<VDoc>() {
                Ok(d) => Outcome::Doc(Box::new(d)),
                Err(e) => Outcome::Err(ErrClass::Other(format!("returned document does not decode: {e:?}"))),
            },
            Err(e) => Outcome::Err(classify(&e)),
        },
        Op::UpdateUnknown(id) => {
            let mut m = BTreeMap::new();
            m.insert("nope".to_string(), Fv::U64(1));
            m.insert("age".to_string(), Fv::U64(66));
            match coll.update(*id, m).await {
                Ok(doc) => match doc.try_into::<VDoc>() {
                    Ok(d) => Outcome::Doc(Box::new(d)),
                    Err(e) => Outcome::Err(ErrClass::Other(format!("{e:?}"))),
                },
                Err(e) => Outcome::Err(classify(&e)),
            }
        }
        Op::Remove(id) => match coll.remove(*id).await {
            Ok(Some(doc)) => match doc.try_into::<VDoc>() {
                Ok(d) => Outcome::Removed(Some(Box::new(d))),
                Err(e) => Outcome::Err(ErrClass::Other(format!("removed document does not decode: {e:?}"))),
            },
            Ok(None) => Outcome::Removed(None),
            Err(e) => Outcome::Err(classify(&e)),
        },
        Op::SetExtSync(v) => {
            coll.set_extension("k".to_string(), Fv::U64(*v as u64));
            Outcome::Unit
        }
        Op::LoseAndReconcile(_) => return None,
        Op::Get(id) => match coll.get_as::<VDoc>(*id).await {
            Ok(d) => Outcome::Doc(Box::new(d)),
            Err(e) => Outcome::Err(classify(&e)),
        },
        Op::Flush => match coll.flush(anda_db::unix_ms()).await {
            Ok(_) => Outcome::Unit,
            Err(e) => Outcome::Err(classify(&e)),
        },
        Op::CompactBtree => match coll.compact_btree_index(&["age"]).await {
            Ok(_) => Outcome::Unit,
            Err(e) => Outcome::Err(classify(&e)),
        },
        Op::CompactBm25 => match coll.compact_bm25_index(&["body"]).await {
            Ok(_) => Outcome::Unit,
            Err(e) => Outcome::Err(classify(&e)),
        },
        Op::SaveExt(v) => match coll.save_extension("k".to_string(), Fv::U64(*v as u64)).await {
            Ok(_) => Outcome::Unit,
            Err(e) => Outcome::Err(classify(&e)),
        },
        Op::RemoveExt => match coll.remove_extension("k").await {
            Ok(_) => Outcome::Unit,
            Err(e) => Outcome::Err(classify(&e)),
        },
        Op::Reopen | Op::ReopenWith(_) => return None,
    })
}

// ---------------------------------------------------------------------------
// Sequential reference semantics (what a call must return and do when run alone)

#[derive(Clone, Debug, Default, PartialEq)]
pub struct SeqModel {
    pub docs: DocModel,
    /// highest id ever returned by a successful add
    pub max_acked_id: u64,
    /// ids that were live at some successful flush/close
    pub flushed_ids: BTreeSet<u64>,
    pub ext: Option<u8>,
}

#[derive(Clone, Debug, PartialEq)]
pub enum Expect {
    /// a fresh id (greater than every id handed out so far, not flushed before)
    NewId,
    Doc(Box<VDoc>),
    Removed(Option<Box<VDoc>>),
    Unit,
    /// must be rejected; the classes that are acceptable
    Rejected(Vec<&'static str>),
}

impl SeqModel {
    fn unique_conflict(&self, d: &VDoc, except: Option<u64>, idx: Idx) -> bool {
        self.docs.docs.iter().any(|(i, x)| {
            Some(*i) != except
                && ((idx.name && x.name == d.name)
                    || (idx.age_opt && x.age == d.age && x.opt == d.opt)
                    || (idx.opt_opt2 && x.opt == d.opt && x.opt2 == d.opt2)
                    || (idx.codes && x.codes.iter().any(|c| d.codes.contains(c))))
        })
    }

    /// What `op` must return when executed now, and the model after it
    /// (for `Add` the id is filled in by `commit_add`).
    pub fn expect(&self, op: &Op, idx: Idx) -> Expect {
        match op {
            Op::Add(t) | Op::AddSparse(t) => {
                if self.unique_conflict(&template(*t), None, idx) {
                    Expect::Rejected(vec!["AlreadyExists", "Other"])
                } else {
                    Expect::NewId
                }
            }
            Op::AddInvalid => Expect::Rejected(vec!["Schema", "Other"]),
            Op::Update(id, 16) => match self.docs.docs.get(id) {
                None => Expect::Rejected(vec!["NotFound"]),
                Some(d) => {
                    if idx.emb {
                        Expect::Rejected(vec!["Other", "Schema"])
                    } else {
                        Expect::Doc(Box::new(apply_update(d, 16)))
                    }
                }
            },
            Op::Update(id, u) => match self.docs.docs.get(id) {
                None => Expect::Rejected(vec!["NotFound"]),
                Some(d) => {
                    let n = apply_update(d, *u);
                    if self.unique_conflict(&n, Some(*id), idx) {
                        Expect::Rejected(vec!["AlreadyExists", "Other"])
                    } else {
                        Expect::Doc(Box::new(n))
                    }
                }
            },
            Op::UpdateUnknown(id) => match self.docs.docs.get(id) {
                None => Expect::Rejected(vec!["NotFound"]),
                Some(_) => Expect::Rejected(vec!["Schema", "Other", "NotFound"]),
            },
            Op::Remove(id) => Expect::Removed(self.docs.docs.get(id).cloned().map(Box::new)),
            // creating the vector index backfills it: a stored vector of another
            // dimension (written while no vector index existed) legitimately makes
            // the creation fail
            Op::ReopenWith(IdxDelta::AddEmb | IdxDelta::AddEmbDropTags) if !idx.emb && self.docs.docs.values().any(|d| d.emb.len() != crate::fixture::DIM) => {
                Expect::Rejected(vec!["Other"])
            }
            Op::Get(id) => match self.docs.docs.get(id) {
                Some(d) => Expect::Doc(Box::new(d.clone())),
                None => Expect::Rejected(vec!["NotFound"]),
            },
            _ => Expect::Unit,
        }
    }

    /// Applies `op` given the outcome the implementation produced, assuming
    /// the outcome was accepted by `check_outcome`.
    pub fn apply(&mut self, op: &Op, out: &Outcome) {
        match (op, out) {
            (Op::Add(t), Outcome::Id(id)) | (Op::AddSparse(t), Outcome::Id(id)) => {
                let mut d = template(*t);
                d._id = *id;
                self.docs.docs.insert(*id, d);
                self.max_acked_id = self.max_acked_id.max(*id);
            }
            (Op::Update(id, u), Outcome::Doc(_)) => {
                // (a caller that applies calls without `check_outcome` may name a document the
                // model does not hold: nothing to update then)
                if let Some(d) = self.docs.docs.get(id) {
                    let n = apply_update(d, *u);
                    self.docs.docs.insert(*id, n);
                }
            }
            (Op::Remove(id), Outcome::Removed(Some(_))) => {
                self.docs.docs.remove(id);
            }
            (Op::Flush, Outcome::Unit) | (Op::Reopen, Outcome::Unit) | (Op::ReopenWith(_), Outcome::Unit) => {
                self.flushed_ids.extend(self.docs.docs.keys().copied());
            }
            (Op::SaveExt(v), Outcome::Unit) | (Op::SetExtSync(v), Outcome::Unit) => self.ext = Some(*v),
            (Op::LoseAndReconcile(id), Outcome::Unit) => {
                self.docs.docs.remove(id);
            }
            (Op::RemoveExt, Outcome::Unit) => self.ext = None,
            _ => {}
        }
    }

    /// Compares an outcome with the expectation; returns a description of
    /// the disagreement if any.
    pub fn check_outcome(&self, op: &Op, exp: &Expect, out: &Outcome) -> Option<String> {
        match (exp, out) {
            (Expect::NewId, Outcome::Id(id)) => {
                if *id <= self.max_acked_id {
                    Some(format!("add returned id {id} but id {} was already handed out", self.max_acked_id))
                } else if self.flushed_ids.contains(id) {
                    Some(format!("add returned id {id} which a flush had acknowledged for another document"))
                } else if self.docs.docs.contains_key(id) {
                    Some(format!("add returned id {id} which is live"))
                } else {
                    None
                }
            }
            (Expect::Doc(want), Outcome::Doc(got)) => {
                if want == got {
                    None
                } else {
                    Some(format!("{op:?} returned {got:?}, sequential model gives {want:?}"))
                }
            }
            (Expect::Removed(want), Outcome::Removed(got)) => {
                if want == got {
                    None
                } else {
                    Some(format!("{op:?} returned {got:?}, sequential model gives {want:?}"))
                }
            }
            (Expect::Unit, Outcome::Unit) => None,
            (Expect::Rejected(classes), Outcome::Err(c)) => {
                let name = match c {
                    ErrClass::NotFound => "NotFound",
                    ErrClass::AlreadyExists => "AlreadyExists",
                    ErrClass::Schema => "Schema",
                    ErrClass::State(_) => "State",
                    ErrClass::Other(_) => "Other",
                };
                if classes.contains(&name) {
                    None
                } else {
                    Some(format!("{op:?} was rejected with {c:?}, expected one of {classes:?}"))
                }
            }
            (e, o) => Some(format!("{op:?} returned {}, sequential model expects {e:?}", o.short())),
        }
    }
}

/// `max id the probe loops should cover`
pub fn probe_bound(m: &SeqModel) -> u64 {
    m.max_acked_id.max(m.docs.docs.keys().max().copied().unwrap_or(0)) + 2
}

//! The full index <-> document comparison (the C02 oracle), shared by every
//! collection-level check: compares a live `Collection` with a `DocModel`.

use crate::fixture::{Idx, VDoc};
use crate::model::{BTREE_FIELDS, DocModel, Key};
use anda_db::collection::Collection;
use anda_db::error::DBError;
use anda_db::query::{Filter, Fv, RangeQuery};
use std::collections::BTreeSet;

pub const VOCAB: [&str; 5] = ["alpha", "beta", "gamma", "delta", "omega"];

fn idx_has(idx: Idx, field: &str) -> bool {
    match field {
        "name" => idx.name,
        "age" => idx.age,
        "opt" => idx.opt,
        "tags" => idx.tags,
        "codes" => idx.codes,
        "attrs" => idx.attrs,
        _ => false,
    }
}

/// Extra constants probed on every index besides the model's keys.
fn extra_probes(field: &str) -> Vec<Key> {
    match field {
        "age" | "opt" => vec![Key::U(0), Key::U(1), Key::U(7), Key::U(99)],
        _ => vec![Key::S("".into()), Key::S("a".into()), Key::S("zz".into())],
    }
}

/// Compares everything the property C02 names. Returns discrepancies
/// (empty = agreement). `probe_ids` bounds the id range probed for absence.
pub async fn full_compare(coll: &Collection, model: &DocModel, idx: Idx, probe_ids: u64) -> Vec<String> {
    let mut bad = Vec::new();
    let want_ids = model.ids();

    // --- document side
    let ids = coll.ids();
    if ids != want_ids {
        bad.push(format!("ids() = {ids:?}, model {want_ids:?}"));
    }
    if coll.len() != want_ids.len() {
        bad.push(format!("len() = {}, model {}", coll.len(), want_ids.len()));
    }
    let stats = coll.stats();
    if stats.num_documents as usize != want_ids.len() {
        bad.push(format!("stats.num_documents = {}, model {}", stats.num_documents, want_ids.len()));
    }
    for id in 1..=probe_ids {
        let live = model.docs.contains_key(&id);
        if coll.contains(id) != live {
            bad.push(format!("contains({id}) = {}, model {live}", coll.contains(id)));
        }
        match coll.get_as::<VDoc>(id).await {
            Ok(d) => match model.docs.get(&id) {
                Some(m) if *m == d => {}
                Some(m) => bad.push(format!("get({id}) = {d:?}, model {m:?}")),
                None => bad.push(format!("get({id}) returned {d:?} but the model has no such document")),
            },
            Err(DBError::NotFound { .. }) => {
                if live {
                    bad.push(format!("get({id}) NotFound but the model has {:?}", model.docs[&id]));
                }
            }
            Err(e) => bad.push(format!("get({id}) failed: {e:?}")),
        }
    }

    // --- B-tree indexes, both directions
    for field in BTREE_FIELDS {
        if !idx_has(idx, field) {
            continue;
        }
        let m = model.btree(field);
        let mut probes: BTreeSet<Key> = m.keys().cloned().collect();
        probes.extend(extra_probes(field));
        if let Ok(view) = coll.get_btree_index(&[field]) {
            for k in view.keys(None, None) {
                if let Some(k) = Key::from_fv(&k) {
                    probes.insert(k);
                }
            }
        } else {
            bad.push(format!("btree index {field} missing"));
            continue;
        }
        for k in &probes {
            let want: Vec<u64> = m.get(k).map(|s| s.iter().copied().collect()).unwrap_or_default();
            for (label, q) in [
                ("Eq", RangeQuery::Eq(k.fv())),
                ("Ge", RangeQuery::Ge(k.fv())),
                ("Lt", RangeQuery::Lt(k.fv())),
            ] {
                let want: Vec<u64> = match label {
                    "Eq" => want.clone(),
                    "Ge" => {
                        let mut s = BTreeSet::new();
                        for (kk, ids) in m.range(k.clone()..) {
                            let _ = kk;
                            s.extend(ids.iter().copied());
                        }
                        s.into_iter().collect()
                    }
                    _ => {
                        let mut s = BTreeSet::new();
                        for (_, ids) in m.range(..k.clone()) {
                            s.extend(ids.iter().copied());
                        }
                        s.into_iter().collect()
                    }
                };
                match coll.query_all_ids(Filter::Field((field.to_string(), q))).await {
                    Ok(got) if got == want => {}
                    other => bad.push(format!("btree {field} {label}({k:?}) = {other:?}, model {want:?}")),
                }
            }
        }
    }
    if idx.age_opt {
        // composite unique index: Eq on the documented composite key
        for (id, d) in &model.docs {
            let a = Fv::U64(d.age);
            let o = d.opt.map(Fv::U64).unwrap_or(Fv::Null);
            if let Some(key) = anda_db::index::virtual_field_value(&[Some(&a), Some(&o)]) {
                let want: Vec<u64> = model
                    .docs
                    .iter()
                    .filter(|(_, x)| x.age == d.age && x.opt == d.opt)
                    .map(|(i, _)| *i)
                    .collect();
                match coll
                    .query_all_ids(Filter::Field(("age-opt".to_string(), RangeQuery::Eq(key))))
                    .await
                {
                    Ok(got) if got == want => {}
                    other => bad.push(format!("btree age-opt Eq(tuple of {id}) = {other:?}, model {want:?}")),
                }
            }
        }
        match coll
            .query_all_ids(Filter::Field(("age-opt".to_string(), RangeQuery::Ge(Fv::Bytes(vec![])))))
            .await
        {
            Ok(got) if got == want_ids => {}
            other => bad.push(format!("btree age-opt full scan = {other:?}, model {want_ids:?}")),
        }
    }

    if idx.opt_opt2 {
        // composite key re-derived independently: the canonical CBOR of each
        // component in order, an absent / null component encoded as CBOR null
        // (values here are < 24, i.e. one byte each)
        fn enc(v: Option<u64>) -> u8 {
            match v {
                Some(x) => {
                    assert!(x < 24);
                    x as u8
                }
                None => 0xf6,
            }
        }
        for (id, d) in &model.docs {
            let want: Vec<u64> = model
                .docs
                .iter()
                .filter(|(_, x)| x.opt == d.opt && x.opt2 == d.opt2)
                .map(|(i, _)| *i)
                .collect();
            let key = Fv::Bytes(vec![enc(d.opt), enc(d.opt2)]);
            match coll
                .query_all_ids(Filter::Field(("opt-opt2".to_string(), RangeQuery::Eq(key))))
                .await
            {
                Ok(got) if got == want => {}
                other => bad.push(format!("btree opt-opt2 Eq(tuple of {id}) = {other:?}, model {want:?}")),
            }
        }
    }

    // --- BM25
    if idx.body {
        match coll.get_bm25_index(&["body"]) {
            Ok(view) => {
                for term in VOCAB {
                    let tq: BTreeSet<String> = coll.tokenize(term).into_iter().collect();
                    let want: BTreeSet<u64> = model
                        .docs
                        .iter()
                        .filter(|(_, d)| coll.tokenize(&d.body).iter().any(|t| tq.contains(t)))
                        .map(|(i, _)| *i)
                        .collect();
                    let got_list = view.search(term, want_ids.len() + 8, None);
                    let got: BTreeSet<u64> = got_list.iter().map(|r| r.0).collect();
                    if got.len() != got_list.len() {
                        bad.push(format!("bm25 search({term}) returned duplicates: {got_list:?}"));
                    }
                    if got != want {
                        bad.push(format!("bm25 search({term}) ids = {got:?}, model {want:?}"));
                    }
                }
            }
            Err(e) => bad.push(format!("bm25 index body missing: {e:?}")),
        }
    }

    // --- HNSW
    if idx.emb {
        match coll.get_hnsw_index("emb") {
            Ok(view) => {
                let n = view.stats().num_elements;
                if n as usize != want_ids.len() {
                    bad.push(format!("hnsw num_elements = {n}, live documents with a vector = {}", want_ids.len()));
                }
                for q in [[0.0f32, 1.0, 2.0, 3.0], [50.0, 3.0, 2.0, 3.0], [-5.0, -5.0, 0.0, 0.0]] {
                    let got = view.search(&q, want_ids.len() + 8);
                    let mut seen = BTreeSet::new();
                    for (id, _) in &got {
                        if !model.docs.contains_key(id) {
                            bad.push(format!("hnsw search returned dead id {id}: {got:?}"));
                        }
                        if !seen.insert(*id) {
                            bad.push(format!("hnsw search returned id {id} twice: {got:?}"));
                        }
                    }
                }
            }
            Err(e) => bad.push(format!("hnsw index emb missing: {e:?}")),
        }
    }
    bad
}

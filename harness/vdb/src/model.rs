//! Reference models: documents as a `BTreeMap`, index contents derived from
//! them by the documented derivation, filters as set algebra.

use crate::fixture::VDoc;
use anda_db::query::{Filter, Fv, RangeQuery};
use std::collections::{BTreeMap, BTreeSet};

#[derive(Clone, Debug, PartialEq, Eq, PartialOrd, Ord, Hash)]
pub enum Key {
    U(u64),
    S(String),
}

impl Key {
    pub fn fv(&self) -> Fv {
        match self {
            Key::U(v) => Fv::U64(*v),
            Key::S(s) => Fv::Text(s.clone()),
        }
    }
    pub fn from_fv(v: &Fv) -> Option<Key> {
        match v {
            Fv::U64(v) => Some(Key::U(*v)),
            Fv::I64(v) if *v >= 0 => Some(Key::U(*v as u64)),
            Fv::Text(s) => Some(Key::S(s.clone())),
            _ => None,
        }
    }
}

pub const BTREE_FIELDS: [&str; 6] = ["name", "age", "opt", "tags", "codes", "attrs"];

/// Keys a document contributes to the single-field B-tree index `field`
/// (null skipped, arrays expanded).
pub fn keys_of(doc: &VDoc, field: &str) -> Vec<Key> {
    match field {
        "name" => vec![Key::S(doc.name.clone())],
        "age" => vec![Key::U(doc.age)],
        "opt" => doc.opt.map(Key::U).into_iter().collect(),
        "tags" => doc.tags.iter().map(|t| Key::S(t.clone())).collect(),
        "codes" => doc.codes.iter().map(|t| Key::S(t.clone())).collect(),
        "attrs" => doc.attrs.keys().map(|t| Key::S(t.clone())).collect(),
        _ => panic!("unknown btree field {field}"),
    }
}

#[derive(Clone, Debug, Default, PartialEq)]
pub struct DocModel {
    pub docs: BTreeMap<u64, VDoc>,
}

impl DocModel {
    pub fn ids(&self) -> Vec<u64> {
        self.docs.keys().copied().collect()
    }

    /// key -> ids for one single-field index.
    pub fn btree(&self, field: &str) -> BTreeMap<Key, BTreeSet<u64>> {
        let mut m: BTreeMap<Key, BTreeSet<u64>> = BTreeMap::new();
        for (id, d) in &self.docs {
            for k in keys_of(d, field) {
                m.entry(k).or_default().insert(*id);
            }
        }
        m
    }

    /// Set-algebra reading of a range query over the key set of `field`,
    /// then the union of the postings of the selected keys.
    pub fn eval_field(&self, field: &str, q: &RangeQuery<Fv>) -> Result<BTreeSet<u64>, String> {
        if field == "_id" {
            let keys: BTreeSet<Key> = self.docs.keys().map(|i| Key::U(*i)).collect();
            let sel = eval_range(q, &keys)?;
            return Ok(sel
                .into_iter()
                .map(|k| match k {
                    Key::U(i) => i,
                    _ => unreachable!(),
                })
                .collect());
        }
        let idx = self.btree(field);
        let keys: BTreeSet<Key> = idx.keys().cloned().collect();
        let sel = eval_range(q, &keys)?;
        let mut out = BTreeSet::new();
        for k in sel {
            out.extend(idx[&k].iter().copied());
        }
        Ok(out)
    }

    pub fn eval_filter(&self, f: &Filter) -> Result<BTreeSet<u64>, String> {
        match f {
            Filter::Field((name, q)) => self.eval_field(name, q),
            Filter::And(fs) => {
                let mut it = fs.iter();
                let mut acc = match it.next() {
                    Some(f) => self.eval_filter(f)?,
                    None => return Err("empty And".into()),
                };
                for f in it {
                    let s = self.eval_filter(f)?;
                    acc = acc.intersection(&s).copied().collect();
                }
                Ok(acc)
            }
            Filter::Or(fs) => {
                let mut acc = BTreeSet::new();
                for f in fs {
                    acc.extend(self.eval_filter(f)?);
                }
                Ok(acc)
            }
            Filter::Not(f) => {
                let s = self.eval_filter(f)?;
                Ok(self.docs.keys().copied().filter(|i| !s.contains(i)).collect())
            }
        }
    }
}

fn key_of(v: &Fv) -> Result<Key, String> {
    Key::from_fv(v).ok_or_else(|| format!("unsupported key constant {v:?}"))
}

/// Keys (among `keys`) selected by a range query.
pub fn eval_range(q: &RangeQuery<Fv>, keys: &BTreeSet<Key>) -> Result<BTreeSet<Key>, String> {
    Ok(match q {
        RangeQuery::Eq(v) => {
            let k = key_of(v)?;
            keys.iter().filter(|x| **x == k).cloned().collect()
        }
        RangeQuery::Gt(v) => {
            let k = key_of(v)?;
            keys.iter().filter(|x| **x > k).cloned().collect()
        }
        RangeQuery::Ge(v) => {
            let k = key_of(v)?;
            keys.iter().filter(|x| **x >= k).cloned().collect()
        }
        RangeQuery::Lt(v) => {
            let k = key_of(v)?;
            keys.iter().filter(|x| **x < k).cloned().collect()
        }
        RangeQuery::Le(v) => {
            let k = key_of(v)?;
            keys.iter().filter(|x| **x <= k).cloned().collect()
        }
        RangeQuery::Between(a, b) => {
            let (a, b) = (key_of(a)?, key_of(b)?);
            keys.iter().filter(|x| **x >= a && **x <= b).cloned().collect()
        }
        RangeQuery::Include(vs) => {
            let mut set = BTreeSet::new();
            for v in vs {
                set.insert(key_of(v)?);
            }
            keys.iter().filter(|x| set.contains(x)).cloned().collect()
        }
        RangeQuery::Or(qs) => {
            let mut acc = BTreeSet::new();
            for q in qs {
                acc.extend(eval_range(q, keys)?);
            }
            acc
        }
        RangeQuery::And(qs) => {
            let mut it = qs.iter();
            let mut acc = match it.next() {
                Some(q) => eval_range(q, keys)?,
                None => return Err("empty range And".into()),
            };
            for q in it {
                let s = eval_range(q, keys)?;
                acc = acc.intersection(&s).cloned().collect();
            }
            acc
        }
        RangeQuery::Not(q) => {
            let s = eval_range(q, keys)?;
            keys.iter().filter(|x| !s.contains(x)).cloned().collect()
        }
    })
}

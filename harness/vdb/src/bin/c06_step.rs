//! C06 — closed / deleted / poisoned / read-only handles never write;
//! cancellation = crash.
//!
//! Part "cancel": every mutating API x every poll count k at which its
//! future is dropped (exhaustive over suspension points of the call run
//! alone), then: healthy handle => nothing changed; otherwise the retained
//! handle rejects everything and writes nothing; reopening gives a state
//! that satisfies the C01/C02 oracles.
//! Part "race": a lifecycle transition x 1..3 concurrent operations, all
//! interleavings with <= B preemptions; every backend mutation is attributed
//! to its issuing task, so "no write after close/delete returned" and "no
//! write by a call that was queued or not yet started at a read-only switch"
//! are checked on the journal itself.

use anda_db::collection::Collection;
use anda_db::error::CollectionState;
use anda_db::database::AndaDB;
use serde::{Deserialize, Serialize};
use serde_json::json;
use std::cell::RefCell;
use std::rc::Rc;
use std::sync::Arc;
use std::time::{Duration, Instant};
use vcore::choice::{self, Chooser};
use vcore::ctlstore::{self, Content};
use vcore::step::{Sched, TaskState};
use vcore::{Run, Violation, util};
use vdb::conc::{self, Live};
use vdb::crash::{self, Expectation};
use vdb::fixture::{self, COLL_NAME, Idx, VDoc};
use vdb::ops::{ErrClass, Fixture, Op, Outcome, SeqModel, apply_update, classify, exec_on, template};

const PREFIX: &str = "vdb/docs/";

#[derive(Clone, Debug, Serialize, Deserialize, PartialEq)]
enum Call {
    Op(Op),
    /// close_collection, then reopen with an index created / removed in the open callback
    Reindex(vdb::ops::IdxDelta),
    Reconcile,
    CollClose,
    DbCloseCollection,
    DbDeleteCollection,
    DbClose,
    DbReadOnly,
    CollReadOnly,
}

impl Call {
    /// Index set of the collection the call runs against: an index-creating
    /// reopen starts from the fixture without that index.
    fn start_idx(&self) -> Idx {
        use vdb::ops::IdxDelta::*;
        match self {
            Call::Reindex(AddTags | AddTagsDropBody) => Idx { tags: false, ..Idx::ALL },
            Call::Reindex(AddBody | AddBodyDropName) => Idx { body: false, ..Idx::ALL },
            Call::Reindex(AddEmb | AddEmbDropTags) => Idx { emb: false, ..Idx::ALL },
            Call::Reindex(AddName) => Idx { name: false, ..Idx::ALL },
            _ => Idx::ALL,
        }
    }
    fn is_transition(&self) -> bool {
        !matches!(self, Call::Op(_) | Call::Reconcile | Call::Reindex(_))
    }
}

async fn exec_call(db: &AndaDB, coll: &Arc<Collection>, call: &Call) -> Outcome {
    let unit = |r: Result<(), anda_db::error::DBError>| match r {
        Ok(()) => Outcome::Unit,
        Err(e) => Outcome::Err(classify(&e)),
    };
    match call {
        Call::Op(op) => exec_on(coll, op).await.expect("plain op"),
        Call::Reconcile => match coll.reconcile_storage().await {
            Ok(_) => Outcome::Unit,
            Err(e) => Outcome::Err(classify(&e)),
        },
        Call::Reindex(delta) => {
            if let Err(e) = db.close_collection(COLL_NAME).await {
                return Outcome::Err(classify(&e));
            }
            let had = call.start_idx();
            match fixture::open_coll_with(db, delta.apply(had), had).await {
                Ok(_) => Outcome::Unit,
                Err(e) => Outcome::Err(classify(&e)),
            }
        }
        Call::CollClose => unit(coll.close().await),
        Call::DbCloseCollection => unit(db.close_collection(COLL_NAME).await),
        Call::DbDeleteCollection => unit(db.delete_collection(COLL_NAME).await),
        Call::DbClose => unit(db.close().await),
        Call::DbReadOnly => {
            db.set_read_only(true);
            Outcome::Unit
        }
        Call::CollReadOnly => {
            coll.set_read_only(true);
            Outcome::Unit
        }
    }
}

fn prefix_content(live: &Live) -> Content {
    ctlstore::snapshot(live.cs.inner())
        .into_iter()
        .filter(|(k, _)| k.starts_with(PREFIX))
        .collect()
}

fn prefix_mutations_from(live: &Live, from: usize) -> Vec<(usize, String)> {
    live.ctl
        .journal_from(from)
        .iter()
        .filter(|e| e.mutation.path().starts_with(PREFIX))
        .map(|e| (e.task, e.mutation.label()))
        .collect()
}

/// Setup: preloaded collection; when `dirty`, one acknowledged unflushed
/// update so that flush/close have real work.
fn setup(idx: Idx, dirty: bool) -> (Live, SeqModel) {
    let live = conc::open_live(idx);
    let mut model = conc::preloaded(idx).model.clone();
    if dirty {
        let op = Op::Update(2, 3);
        let out = util::block_on(exec_on(&live.fx.coll, &op)).unwrap();
        assert!(out.is_ok(), "setup update failed: {}", out.short());
        model.apply(&op, &out);
    }
    (live, model)
}

/// Every mutating API on a retained handle: must be rejected and write
/// nothing under the collection prefix.
fn retained_battery(live: &Live, coll: &Arc<Collection>, label: &str, problems: &mut Vec<(String, String)>) {
    let calls = vec![
        Call::Op(Op::Add(3)),
        Call::Op(Op::Update(2, 0)),
        Call::Op(Op::Remove(2)),
        Call::Op(Op::Flush),
        Call::Op(Op::SaveExt(9)),
        Call::Op(Op::RemoveExt),
        Call::Op(Op::CompactBtree),
        Call::Op(Op::CompactBm25),
        Call::Reconcile,
        Call::CollClose,
    ];
    for round in 0..2 {
        if round == 1 {
            coll.set_read_only(false);
        }
        for c in &calls {
            let before = live.ctl.journal_len();
            live.ctl.set_task(50);
            let out = util::block_on(exec_call(&live.fx.db, coll, c));
            let wrote = prefix_mutations_from(live, before);
            if !wrote.is_empty() {
                problems.push((
                    format!("retained-writes|{label}"),
                    format!(
                        "{label} handle{}: {c:?} wrote to storage: {wrote:?}",
                        if round == 1 { " after set_read_only(false)" } else { "" }
                    ),
                ));
            }
            if out.is_ok() && !matches!(c, Call::CollClose) {
                problems.push((
                    format!("retained-accepts|{label}"),
                    format!(
                        "{label} handle{}: {c:?} was accepted ({})",
                        if round == 1 { " after set_read_only(false)" } else { "" },
                        out.short()
                    ),
                ));
            }
        }
    }
}

fn expectation_from(model: &SeqModel, idx: Idx, uncertain: &[&Call], acked: &[(&Call, &Outcome)], next_id: u64) -> Expectation {
    let mut exp = Expectation {
        images: model.docs.docs.iter().map(|(i, d)| (*i, vec![Some(d.clone())])).collect(),
        want_idx: idx,
        had_idx: idx,
        allow_remedy: false,
        flushed_ids: model.flushed_ids.clone(),
        in_flight: None,
    };
    for (c, out) in acked {
        if let Call::Op(op) = c {
            match (op, out) {
                (Op::Add(t), Outcome::Id(id)) => {
                    let mut d = template(*t);
                    d._id = *id;
                    exp.images.insert(*id, vec![Some(d)]);
                }
                (Op::Update(id, u), Outcome::Doc(_)) => {
                    if let Some(c) = exp.images.get_mut(id) {
                        *c = c.iter().flatten().map(|d| Some(apply_update(d, *u))).collect();
                    }
                }
                (Op::Remove(id), Outcome::Removed(Some(_))) => {
                    exp.images.insert(*id, vec![None]);
                }
                _ => {}
            }
        }
    }
    for c in uncertain {
        if let Call::Op(op) = c {
            match op {
                Op::Add(t) => {
                    // the id a cancelled add would have used is not observable: accept a
                    // whole template document at any id above the known ones
                    for id in next_id..next_id + 4 {
                        let mut d = template(*t);
                        d._id = id;
                        let e = exp.images.entry(id).or_insert_with(|| vec![None]);
                        if !e.contains(&Some(d.clone())) {
                            e.push(Some(d));
                        }
                    }
                }
                Op::Update(id, u) => {
                    if let Some(c) = exp.images.get_mut(id) {
                        let extra: Vec<Option<VDoc>> = c.iter().flatten().map(|d| Some(apply_update(d, *u))).collect();
                        for e in extra {
                            if !c.contains(&e) {
                                c.push(e);
                            }
                        }
                    }
                }
                Op::Remove(id) => {
                    if let Some(c) = exp.images.get_mut(id)
                        && !c.contains(&None)
                    {
                        c.push(None);
                    }
                }
                _ => {}
            }
            exp.in_flight = Some(format!("{op:?}"));
        }
    }
    exp
}

/// Reopens through the same database handle (what a caller does after a
/// poisoned / closed handle) and applies the C01/C02 oracles.
fn reopen_and_check(live: &mut Live, idx: Idx, exp: &Expectation, problems: &mut Vec<(String, String)>, label: &str) {
    live.ctl.set_task(60);
    let reopened = util::block_on(fixture::open_coll_with(&live.fx.db, exp.want_idx, idx));
    let idx = exp.want_idx;
    let coll = match reopened {
        Ok(c) => c,
        Err(e) => {
            problems.push((format!("reopen|{label}"), format!("reopening the collection after {label} failed: {e:?}")));
            return;
        }
    };
    if coll.state() != CollectionState::Active {
        problems.push((format!("reopen|{label}"), format!("reopened handle is {:?}", coll.state())));
        return;
    }
    let mut fx = Fixture {
        store: live.fx.store.clone(),
        db: live.fx.db.clone(),
        coll,
        idx,
    };
    let (ps, resolved) = util::block_on(crash::check_state(&fx, exp));
    let had = !ps.is_empty();
    for (sig, msg) in ps {
        problems.push((format!("reopened-state|{label}|{sig}"), format!("after {label} and reopen: {msg}")));
    }
    if !had {
        for (sig, msg) in util::block_on(crash::continuation(&mut fx, exp, &resolved)) {
            problems.push((format!("reopened-cont|{label}|{sig}"), format!("after {label} and reopen: {msg}")));
        }
    }
}

/// Like `setup`, but leaves the B-tree and BM25 indexes fragmented (six more
/// documents added and flushed, four of them removed and flushed) so that a
/// compaction really rewrites and deletes bucket objects.
fn setup_fragmented(idx: Idx) -> (Live, SeqModel) {
    let (live, mut model) = setup(idx, false);
    let mut steps: Vec<Op> = (1..=6u8).map(|k| Op::Add(100 + k)).collect();
    steps.push(Op::Flush);
    for id in [3u64, 4, 6, 7] {
        steps.push(Op::Remove(id));
    }
    steps.push(Op::Flush);
    steps.push(Op::Update(2, 3));
    for op in steps {
        let out = util::block_on(exec_on(&live.fx.coll, &op)).unwrap();
        assert!(out.is_ok(), "fragmenting setup {op:?} failed: {}", out.short());
        model.apply(&op, &out);
    }
    (live, model)
}

fn wants_fragmentation(calls: &[&Call]) -> bool {
    calls.iter().any(|c| matches!(c, Call::Op(Op::CompactBtree) | Call::Op(Op::CompactBm25)))
}

// ---------------------------------------------------------------------------
// Part A: cancellation at every suspension point

struct CancelResult {
    completed_at: Option<u32>,
    problems: Vec<(String, String)>,
    state: String,
}

fn cancel_case(idx: Idx, call: &Call, dirty: bool, k: u32) -> CancelResult {
    let (mut live, model) = if dirty && wants_fragmentation(&[call]) { setup_fragmented(idx) } else { setup(idx, dirty) };
    let coll = live.fx.coll.clone();
    let db = live.fx.db.clone();
    let pre = prefix_content(&live);
    let next_id = coll.max_document_id() + 1;
    let mut problems = Vec::new();
    let result: Rc<RefCell<Option<Outcome>>> = Rc::new(RefCell::new(None));
    live.ctl.set_gate(true);
    live.ctl.set_post_gate(true);
    live.ctl.set_task(0);
    let mut completed_at = None;
    {
        let mut sched = Sched::new();
        let (c2, d2, call2, r2) = (coll.clone(), db.clone(), call.clone(), result.clone());
        let t = sched.spawn("call", async move {
            let out = exec_call(&d2, &c2, &call2).await;
            *r2.borrow_mut() = Some(out);
        });
        for p in 0..k {
            if sched.state(t) == TaskState::Done {
                break;
            }
            if !sched.is_enabled(t) {
                problems.push(("cancel|blocked-alone".into(), format!("{call:?} run alone blocked after {p} polls")));
                break;
            }
            if sched.step(t) {
                completed_at = Some(p + 1);
            }
        }
        if sched.state(t) != TaskState::Done {
            sched.cancel(t);
        }
    }
    live.ctl.set_gate(false);
    let state = coll.state();
    if completed_at.is_some() {
        return CancelResult {
            completed_at,
            problems,
            state: format!("{state:?}"),
        };
    }
    let label = format!("cancel {call:?} after {k} polls");
    let now = prefix_content(&live);
    match call {
        Call::DbDeleteCollection => {
            // a cancelled delete may be retried; afterwards nothing remains
            if state == CollectionState::Active {
                // the delete had not begun: nothing may have changed
                if now != pre {
                    problems.push(("cancel|partial-effect-healthy-handle|delete_collection".into(), format!("{label}: handle still Active but storage changed")));
                }
            } else {
                retained_battery(&live, &coll, "cancelled-delete", &mut problems);
            }
            live.ctl.set_task(61);
            match util::block_on(db.delete_collection(COLL_NAME)) {
                Ok(()) => {
                    let left = prefix_content(&live);
                    if !left.is_empty() {
                        problems.push(("delete|residue".into(), format!("{label}, then a successful retry: objects remain: {:?}", left.keys().collect::<Vec<_>>())));
                    }
                    retained_battery(&live, &coll, "deleted", &mut problems);
                    let left = prefix_content(&live);
                    if !left.is_empty() {
                        problems.push(("delete|recreated".into(), format!("{label}: retained handle recreated {:?}", left.keys().collect::<Vec<_>>())));
                    }
                }
                Err(e) => {
                    // k = 0: nothing started; the collection simply still exists
                    if state != CollectionState::Active {
                        problems.push(("delete|retry".into(), format!("{label}: retry of delete_collection failed: {e:?}")));
                    }
                }
            }
        }
        Call::DbClose => {
            // the database handle is gone; a fresh process must see a consistent state
            let exp = expectation_from(&model, idx, &[], &[], next_id);
            let content = ctlstore::snapshot(live.cs.inner());
            match util::block_on(crash::recover(&content, &exp, crash::Backend::Mem)) {
                Ok(rec) => {
                    let (ps, _) = util::block_on(crash::check_state(&rec.fx, &exp));
                    for (sig, msg) in ps {
                        problems.push((format!("dbclose|{sig}"), format!("{label}, fresh connect: {msg}")));
                    }
                }
                Err(e) => problems.push(("dbclose|recover".into(), format!("{label}: {e}"))),
            }
        }
        _ => {
            match state {
                CollectionState::Active => {
                    if now != pre {
                        let diff: Vec<&String> = now
                            .iter()
                            .filter(|(k, v)| pre.get(*k) != Some(v))
                            .map(|(k, _)| k)
                            .chain(pre.keys().filter(|k| !now.contains_key(*k)))
                            .collect();
                        problems.push((
                            format!("cancel|partial-effect-healthy-handle|{}", call_kind(call)),
                            format!("{label}: handle still Active but storage changed: {diff:?}"),
                        ));
                    }
                    let bad = util::block_on(vdb::oracle::full_compare(&coll, &model.docs, idx, vdb::ops::probe_bound(&model)));
                    if !bad.is_empty() {
                        problems.push((
                            format!("cancel|memory-diverged-healthy-handle|{}", call_kind(call)),
                            format!("{label}: handle still Active but its state changed: {}", bad.join("; ")),
                        ));
                    }
                }
                other => {
                    let l = format!("{other:?}").to_lowercase();
                    retained_battery(&live, &coll, &l, &mut problems);
                }
            }
            let mut exp = expectation_from(&model, idx, &[call], &[], next_id);
            if let Call::Reindex(delta) = call {
                // the caller retries the same open: the requested index set is the target
                exp.want_idx = delta.apply(idx);
                // cancelled before close_collection took effect: the handle is still
                // registered and an open would hand it back without running the
                // callback, so the retry is the whole call (close, then open)
                if coll.state() == CollectionState::Active {
                    live.ctl.set_task(59);
                    if let Err(e) = util::block_on(db.close_collection(COLL_NAME)) {
                        problems.push((format!("reindex-retry-close|{}", call_kind(call)), format!("{label}: the retried close_collection failed on an Active handle: {e:?}")));
                    }
                }
            }
            reopen_and_check(&mut live, idx, &exp, &mut problems, &format!("cancelled-{}", call_kind(call)));
        }
    }
    CancelResult {
        completed_at,
        problems,
        state: format!("{state:?}"),
    }
}

fn call_kind(c: &Call) -> String {
    match c {
        Call::Op(Op::Add(_)) => "add".into(),
        Call::Op(Op::Update(..)) => "update".into(),
        Call::Op(Op::Remove(_)) => "remove".into(),
        Call::Op(Op::Flush) => "flush".into(),
        Call::Op(Op::SaveExt(_)) => "save_extension".into(),
        Call::Op(Op::RemoveExt) => "remove_extension".into(),
        Call::Op(Op::CompactBtree) => "compact_btree".into(),
        Call::Op(Op::CompactBm25) => "compact_bm25".into(),
        Call::Op(o) => format!("{o:?}"),
        Call::Reindex(d) => format!("reindex-{d:?}"),
        Call::Reconcile => "reconcile".into(),
        Call::CollClose => "close".into(),
        Call::DbCloseCollection => "close_collection".into(),
        Call::DbDeleteCollection => "delete_collection".into(),
        Call::DbClose => "db_close".into(),
        Call::DbReadOnly => "db_read_only".into(),
        Call::CollReadOnly => "read_only".into(),
    }
}

// ---------------------------------------------------------------------------
// Part B: lifecycle transition racing operations

struct RaceResult {
    problems: Vec<(String, String)>,
    steps: usize,
    outcome_key: u64,
    labels: Vec<String>,
}

fn race_case(idx: Idx, transition: &Call, ops: &[Call], ch: &mut Chooser) -> RaceResult {
    let (mut live, model) = if wants_fragmentation(&ops.iter().collect::<Vec<_>>()) { setup_fragmented(idx) } else { setup(idx, true) };
    let coll = live.fx.coll.clone();
    let db = live.fx.db.clone();
    let next_id = coll.max_document_id() + 1;
    let n = ops.len() + 1;
    let results: Rc<RefCell<Vec<Option<Outcome>>>> = Rc::new(RefCell::new(vec![None; n]));
    let mut problems = Vec::new();
    live.ctl.clear_labels();
    live.ctl.keep_labels(true);
    live.ctl.set_gate(true);
    live.ctl.set_post_gate(true);
    // journal length / call classification at the moment the transition returned
    let mut t_done: Option<(usize, Vec<&'static str>)> = None;
    let mut steps = 0usize;
    let mut deadlock: Option<Vec<String>> = None;
    {
        let mut sched = Sched::new();
        let ctl = live.ctl.clone();
        sched.on_switch = Some(Box::new(move |t| ctl.set_task(t)));
        let all: Vec<Call> = std::iter::once(transition.clone()).chain(ops.iter().cloned()).collect();
        for (i, c) in all.iter().enumerate() {
            let (c2, d2, call2, r2) = (coll.clone(), db.clone(), c.clone(), results.clone());
            sched.spawn(&format!("{c:?}"), async move {
                let out = exec_call(&d2, &c2, &call2).await;
                r2.borrow_mut()[i] = Some(out);
            });
        }
        loop {
            if steps > 4000 {
                problems.push(("race|livelock".into(), "no completion within 4000 steps".into()));
                break;
            }
            let (opts, costs) = sched.options();
            if opts.is_empty() {
                if !sched.all_done() {
                    deadlock = Some((0..n).filter(|t| sched.state(*t) == TaskState::Suspended).map(|t| sched.name(t).to_string()).collect());
                }
                break;
            }
            let pick = if opts.len() == 1 { 0 } else { ch.choose(&costs) };
            let t = opts[pick];
            let done = sched.step(t);
            steps += 1;
            if t == 0 && done && t_done.is_none() {
                let labels = live.ctl.labels();
                let class: Vec<&'static str> = (0..n)
                    .map(|u| {
                        let calls = labels.iter().filter(|l| l.task == u).count();
                        match sched.state(u) {
                            TaskState::Fresh => "not-started",
                            TaskState::Suspended if sched.is_blocked(u) && calls == 0 => "queued",
                            TaskState::Done => "finished",
                            _ => "admitted",
                        }
                    })
                    .collect();
                t_done = Some((live.ctl.journal_len(), class));
            }
        }
    }
    live.ctl.set_gate(false);
    live.ctl.keep_labels(false);
    live.ctl.set_task(99);
    let labels: Vec<String> = conc::canon_labels(&live.ctl.labels());
    let outcomes = results.borrow().clone();
    let outcome_key = util::fnv64(format!("{:?}|{:?}", outcomes.iter().map(|o| o.as_ref().map(|x| x.short())).collect::<Vec<_>>(), t_done.as_ref().map(|t| &t.1)).as_bytes());
    if let Some(who) = deadlock {
        problems.push(("race|deadlock".into(), format!("deadlock: {who:?} blocked forever")));
        return RaceResult { problems, steps, outcome_key, labels };
    }
    let tk = call_kind(transition);
    let journal = live.ctl.journal();
    if let Some((jlen, class)) = &t_done {
        let t_ok = outcomes[0].as_ref().map(|o| o.is_ok()).unwrap_or(false);
        match transition {
            Call::CollClose | Call::DbCloseCollection | Call::DbDeleteCollection | Call::DbClose if t_ok => {
                // once close/delete has returned nothing may be written under the prefix by any call on the handle
                for (i, e) in journal.iter().enumerate().skip(*jlen) {
                    if e.mutation.path().starts_with(PREFIX) && e.task != 0 {
                        problems.push((
                            format!("race|write-after-{tk}-returned|{}", call_kind(&ops[e.task - 1])),
                            format!("{:?} wrote `{}` (journal #{i}) after {tk} had returned", ops[e.task - 1], e.mutation.label()),
                        ));
                    }
                }
            }
            Call::DbReadOnly | Call::CollReadOnly => {
                for (i, e) in journal.iter().enumerate().skip(*jlen) {
                    if e.mutation.path().starts_with(PREFIX) && e.task != 0 && matches!(class[e.task], "not-started" | "queued") {
                        problems.push((
                            format!("race|write-after-{tk}|{}|{}", class[e.task], call_kind(&ops[e.task - 1])),
                            format!(
                                "{:?} was {} when {tk} took effect but later wrote `{}` (journal #{i})",
                                ops[e.task - 1], class[e.task], e.mutation.label()
                            ),
                        ));
                    }
                }
                for u in 1..n {
                    if matches!(class[u], "not-started" | "queued") && outcomes[u].as_ref().map(|o| o.is_ok()).unwrap_or(false) {
                        problems.push((
                            format!("race|accepted-after-{tk}|{}|{}", class[u], call_kind(&ops[u - 1])),
                            format!("{:?} was {} when {tk} took effect but was accepted: {}", ops[u - 1], class[u], outcomes[u].as_ref().unwrap().short()),
                        ));
                    }
                }
            }
            _ => {}
        }
        // retained handle afterwards
        match transition {
            Call::CollClose | Call::DbCloseCollection | Call::DbClose if t_ok => {
                if coll.state() != CollectionState::Closed {
                    problems.push((format!("race|state-after-{tk}"), format!("{tk} returned Ok but state() = {:?}", coll.state())));
                }
                retained_battery(&live, &coll, "closed", &mut problems);
            }
            Call::DbDeleteCollection if t_ok => {
                let left = prefix_content(&live);
                if !left.is_empty() {
                    problems.push(("race|delete-residue".into(), format!("delete_collection returned Ok but objects remain: {:?}", left.keys().collect::<Vec<_>>())));
                }
                if coll.state() != CollectionState::Deleted {
                    problems.push((format!("race|state-after-{tk}"), format!("{tk} returned Ok but state() = {:?}", coll.state())));
                }
                retained_battery(&live, &coll, "deleted", &mut problems);
                let left = prefix_content(&live);
                if !left.is_empty() {
                    problems.push(("race|delete-recreated".into(), format!("retained handle recreated objects after delete: {:?}", left.keys().collect::<Vec<_>>())));
                }
            }
            Call::DbReadOnly | Call::CollReadOnly => {
                // while read-only, the retained handle rejects every mutation and writes nothing
                let calls = [Call::Op(Op::Add(3)), Call::Op(Op::Update(2, 0)), Call::Op(Op::Remove(2)), Call::Op(Op::Flush), Call::Op(Op::SaveExt(9)), Call::Op(Op::CompactBtree), Call::Reconcile];
                for c in &calls {
                    let before = live.ctl.journal_len();
                    live.ctl.set_task(50);
                    let out = util::block_on(exec_call(&db, &coll, c));
                    let wrote = prefix_mutations_from(&live, before);
                    if !wrote.is_empty() || out.is_ok() {
                        problems.push((
                            format!("race|read-only-handle-writes|{}", call_kind(c)),
                            format!("read-only handle: {c:?} -> {} wrote {wrote:?}", out.short()),
                        ));
                    }
                }
                if matches!(transition, Call::DbReadOnly) {
                    // a collection cannot override the database-level switch
                    coll.set_read_only(false);
                    let before = live.ctl.journal_len();
                    let out = util::block_on(exec_call(&db, &coll, &Call::Op(Op::Add(3))));
                    if out.is_ok() || !prefix_mutations_from(&live, before).is_empty() {
                        problems.push(("race|db-read-only-overridden".into(), format!("collection.set_read_only(false) overrode the database read-only switch: {}", out.short())));
                    }
                }
            }
            _ => {}
        }
        // durable state after close: acknowledged operations are in effect
        if t_ok && matches!(transition, Call::CollClose | Call::DbCloseCollection | Call::DbClose) {
            let acked: Vec<(&Call, &Outcome)> = ops.iter().zip(outcomes[1..].iter()).filter_map(|(c, o)| o.as_ref().filter(|o| o.is_ok()).map(|o| (c, o))).collect();
            let exp = expectation_from(&model, idx, &[], &acked, next_id);
            if matches!(transition, Call::DbClose) {
                let content = ctlstore::snapshot(live.cs.inner());
                match util::block_on(crash::recover(&content, &exp, crash::Backend::Mem)) {
                    Ok(rec) => {
                        let (ps, _) = util::block_on(crash::check_state(&rec.fx, &exp));
                        for (sig, msg) in ps {
                            problems.push((format!("race|after-{tk}|{sig}"), format!("after {tk} and reconnect: {msg}")));
                        }
                    }
                    Err(e) => problems.push((format!("race|after-{tk}|recover"), e)),
                }
            } else {
                reopen_and_check(&mut live, idx, &exp, &mut problems, &format!("race-{tk}"));
            }
        }
    } else if problems.is_empty() {
        problems.push(("race|transition-never-finished".into(), format!("{tk} did not finish")));
    }
    // rejected calls must be rejected for a lifecycle reason, not silently lost
    for (u, o) in outcomes.iter().enumerate().skip(1) {
        if o.is_none() {
            problems.push(("race|call-never-returned".into(), format!("{:?} never returned", ops[u - 1])));
        }
        if let Some(Outcome::Err(ErrClass::Other(s))) = o
            && !s.contains("read-only")
        {
            // informational only: an unexpected error class is not a C06 violation by itself
            let _ = s;
        }
    }
    RaceResult { problems, steps, outcome_key, labels }
}


// ---------------------------------------------------------------------------
// Part E: lifecycle operations of ONE collection name racing each other
// (per-name lifecycle lock): close_collection / open_or_create / delete.

#[derive(Clone, Copy, Debug, Serialize, Deserialize, PartialEq)]
enum Life {
    Close,
    Open,
    Delete,
}

fn life_race_case(idx: Idx, ops: &[Life], ch: &mut Chooser) -> RaceResult {
    let (mut live, model) = setup(idx, true);
    let coll = live.fx.coll.clone();
    let db = live.fx.db.clone();
    let next_id = coll.max_document_id() + 1;
    let n = ops.len();
    // per task: Ok(handle opened, if any) / Err(text)
    type LifeOut = Result<Option<Arc<Collection>>, String>;
    let results: Rc<RefCell<Vec<Option<LifeOut>>>> = Rc::new(RefCell::new((0..n).map(|_| None).collect()));
    let mut problems = Vec::new();
    live.ctl.clear_labels();
    live.ctl.keep_labels(true);
    live.ctl.set_gate(true);
    live.ctl.set_post_gate(true);
    let mut steps = 0usize;
    let mut deadlock: Option<Vec<String>> = None;
    // scheduler step at which each task was first polled / returned
    let mut first_step: Vec<Option<usize>> = vec![None; n];
    let mut done_step: Vec<Option<usize>> = vec![None; n];
    {
        let mut sched = Sched::new();
        let ctl = live.ctl.clone();
        sched.on_switch = Some(Box::new(move |t| ctl.set_task(t)));
        for (i, op) in ops.iter().enumerate() {
            let (d2, r2, op2) = (db.clone(), results.clone(), *op);
            sched.spawn(&format!("{op:?}#{i}"), async move {
                let out: LifeOut = match op2 {
                    Life::Close => d2.close_collection(COLL_NAME).await.map(|_| None).map_err(|e| format!("{e:?}")),
                    Life::Delete => d2.delete_collection(COLL_NAME).await.map(|_| None).map_err(|e| format!("{e:?}")),
                    // the open callback has real work when it loads from storage: it creates the
                    // `tags` index (with backfill) that the fixture of this part starts without
                    Life::Open => fixture::open_coll_with(&d2, Idx::ALL, idx).await.map(Some).map_err(|e| format!("{e:?}")),
                };
                r2.borrow_mut()[i] = Some(out);
            });
        }
        loop {
            if steps > 6000 {
                problems.push(("life-race|livelock".into(), "no completion within 6000 steps".into()));
                break;
            }
            let (opts, costs) = sched.options();
            if opts.is_empty() {
                if !sched.all_done() {
                    deadlock = Some((0..n).filter(|t| sched.state(*t) == TaskState::Suspended).map(|t| sched.name(t).to_string()).collect());
                }
                break;
            }
            let pick = if opts.len() == 1 { 0 } else { ch.choose(&costs) };
            let t = opts[pick];
            if first_step[t].is_none() {
                first_step[t] = Some(steps);
            }
            let done = sched.step(t);
            steps += 1;
            if done {
                done_step[t] = Some(steps);
            }
        }
    }
    live.ctl.set_gate(false);
    live.ctl.keep_labels(false);
    live.ctl.set_task(99);
    let labels: Vec<String> = conc::canon_labels(&live.ctl.labels());
    let outs: Vec<Option<LifeOut>> = results.borrow().iter().map(|o| o.clone()).collect();
    let shorts: Vec<String> = outs
        .iter()
        .map(|o| match o {
            None => "never-returned".to_string(),
            Some(Ok(Some(h))) => format!("handle:{:?}", h.state()),
            Some(Ok(None)) => "ok".to_string(),
            Some(Err(e)) => format!("err:{}", e.split(['{', '(']).next().unwrap_or("").trim()),
        })
        .collect();
    let outcome_key = util::fnv64(format!("{shorts:?}|{}", prefix_content(&live).is_empty()).as_bytes());
    if let Some(who) = deadlock {
        problems.push(("life-race|deadlock".into(), format!("deadlock: {who:?} blocked forever")));
        return RaceResult { problems, steps, outcome_key, labels };
    }
    if !problems.is_empty() {
        return RaceResult { problems, steps, outcome_key, labels };
    }
    for (i, o) in outs.iter().enumerate() {
        if o.is_none() {
            problems.push(("life-race|call-never-returned".into(), format!("{:?} never returned", ops[i])));
        }
    }
    // ---- linearization: some order of the calls that respects real time (a call that
    // returned before another was first polled precedes it) must explain what is observed
    let oks: Vec<bool> = outs.iter().map(|o| matches!(o, Some(Ok(_)))).collect();
    let residue = prefix_content(&live);
    let listed = db.metadata().collections.contains(COLL_NAME);
    let n_docs = model.docs.docs.len() as u64;
    // observed: per task an opened handle's (Active?, len)
    let observed_handles: Vec<Option<(bool, u64)>> = outs
        .iter()
        .map(|o| match o {
            Some(Ok(Some(h))) => Some((h.state() == CollectionState::Active, h.len() as u64)),
            _ => None,
        })
        .collect();
    let orig_active = coll.state() == CollectionState::Active;
    #[derive(Clone, Debug, PartialEq)]
    struct Final {
        exists: bool,
        fresh: bool,
        orig_active: bool,
        handles: Vec<Option<bool>>,
    }
    let mut candidates: Vec<(Vec<usize>, Final)> = Vec::new();
    let mut perm: Vec<usize> = (0..n).collect();
    let mut perms: Vec<Vec<usize>> = Vec::new();
    fn permute(k: usize, a: &mut Vec<usize>, out: &mut Vec<Vec<usize>>) {
        if k == a.len() {
            out.push(a.clone());
            return;
        }
        for i in k..a.len() {
            a.swap(k, i);
            permute(k + 1, a, out);
            a.swap(k, i);
        }
    }
    permute(0, &mut perm, &mut perms);
    for order in perms {
        // real-time order
        let pos = |t: usize| order.iter().position(|x| *x == t).unwrap();
        let mut ok = true;
        for a in 0..n {
            for b in 0..n {
                if a != b
                    && let (Some(da), Some(fb)) = (done_step[a], first_step[b])
                    && da < fb
                    && pos(a) > pos(b)
                {
                    ok = false;
                }
            }
        }
        if !ok {
            continue;
        }
        // sequential model of the three lifecycle calls
        let mut exists = true;
        let mut fresh = false;
        let mut o_active = true; // the original handle is registered and Active at the start
        // incarnation each open handle belongs to, and whether it is still the registered Active one
        let mut h_active: Vec<Option<bool>> = vec![None; n];
        for &t in &order {
            if !oks[t] {
                continue; // a call that reported an error has no effect
            }
            match ops[t] {
                Life::Close => {
                    o_active = false;
                    for h in h_active.iter_mut().flatten() {
                        *h = false;
                    }
                }
                Life::Delete => {
                    exists = false;
                    o_active = false;
                    for h in h_active.iter_mut().flatten() {
                        *h = false;
                    }
                }
                Life::Open => {
                    if !exists {
                        exists = true;
                        fresh = true;
                    }
                    // an open of a collection whose handle is registered and Active hands that handle back
                    h_active[t] = Some(true);
                }
            }
        }
        candidates.push((order.clone(), Final { exists, fresh: exists && fresh, orig_active: o_active, handles: h_active }));
    }
    let matches_observation = |f: &Final| -> bool {
        if f.exists != listed || f.exists == residue.is_empty() {
            return false;
        }
        for t in 0..n {
            match (&f.handles[t], &observed_handles[t]) {
                (None, None) => {}
                (Some(exp_active), Some((act, len))) => {
                    if exp_active != act {
                        return false;
                    }
                    if *act && *len != if f.fresh { 0 } else { n_docs } {
                        return false;
                    }
                }
                _ => return false,
            }
        }
        // the original handle stays Active only while no close / delete retired it
        f.orig_active == orig_active
    };
    let explained: Vec<&(Vec<usize>, Final)> = candidates.iter().filter(|(_, f)| matches_observation(f)).collect();
    if explained.is_empty() {
        problems.push((
            "life-race|no-sequential-explanation".into(),
            format!(
                "no real-time-respecting order of {ops:?} explains the outcome: results {shorts:?}, original handle {:?}, listed={listed}, objects under the prefix={} (first: {:?}); orders tried: {:?}",
                coll.state(),
                residue.len(),
                residue.keys().next(),
                candidates.iter().map(|(o, f)| format!("{o:?}->exists={} fresh={} orig_active={} handles={:?}", f.exists, f.fresh, f.orig_active, f.handles)).collect::<Vec<_>>()
            ),
        ));
        return RaceResult { problems, steps, outcome_key, labels };
    }
    let mut handles: Vec<(String, Arc<Collection>)> = vec![("original".into(), coll.clone())];
    for (i, o) in outs.iter().enumerate() {
        if let Some(Ok(Some(h))) = o {
            handles.push((format!("opened-by-task-{i}"), h.clone()));
        }
    }
    // retired handles are inert
    for (who, h) in &handles {
        if h.state() != CollectionState::Active {
            let before = prefix_content(&live);
            let mut ps = Vec::new();
            retained_battery(&live, h, &format!("life-race-{}", format!("{:?}", h.state()).to_lowercase()), &mut ps);
            if prefix_content(&live) != before {
                problems.push(("life-race|retired-handle-writes".into(), format!("the retired {who} handle changed storage after the race")));
            }
            problems.extend(ps);
        }
    }
    if !problems.is_empty() {
        return RaceResult { problems, steps, outcome_key, labels };
    }
    // durable state: what the explaining order says exists must be complete for a reopen
    let f = &explained[0].1;
    if f.exists {
        let fresh_options: Vec<bool> = {
            let mut v: Vec<bool> = explained.iter().map(|(_, f)| f.fresh).collect();
            v.sort();
            v.dedup();
            v
        };
        let mut per_option: Vec<Vec<(String, String)>> = Vec::new();
        for fresh in fresh_options {
            let mut ps = Vec::new();
            let exp = if fresh { expectation_from(&SeqModel::default(), idx, &[], &[], 1) } else { expectation_from(&model, idx, &[], &[], next_id) };
            // flush through whatever handle is registered, then look from a fresh process
            let _ = util::block_on(db.close_collection(COLL_NAME));
            let content = ctlstore::snapshot(live.cs.inner());
            match util::block_on(crash::recover(&content, &exp, crash::Backend::Mem)) {
                Ok(rec) => {
                    if !rec.fx.db.metadata().collections.contains(COLL_NAME) {
                        ps.push(("life-race|not-durably-listed".into(), "the collection is not listed for a fresh process".into()));
                    }
                    let (p2, _) = util::block_on(crash::check_state(&rec.fx, &exp));
                    for (sig, msg) in p2 {
                        ps.push((format!("life-race|durable|{sig}"), format!("after the race, fresh process ({}): {msg}", if fresh { "collection recreated after the delete" } else { "original collection" })));
                    }
                }
                Err(e) => ps.push(("life-race|durable|recover".into(), e)),
            }
            per_option.push(ps);
        }
        if per_option.iter().all(|ps| !ps.is_empty()) {
            problems.extend(per_option.into_iter().next().unwrap());
        }
    }
    RaceResult { problems, steps, outcome_key, labels }
}

// ---------------------------------------------------------------------------
// Part F: power loss inside delete_collection, fresh process afterwards

struct DeleteCrashResult {
    problems: Vec<(String, String)>,
    listed_after: bool,
    residue: usize,
}

/// delete_collection on a collection with an unflushed acknowledged update; the power
/// fails after its `k`-th backend mutation (`None` = it runs to completion). A fresh
/// process then connects: a collection that is still listed must be complete (C01/C02
/// oracles, every acknowledged document); one that is no longer listed must be deletable
/// again by name, after which nothing remains under the prefix and the name is usable.
fn delete_crash_case(idx: Idx, k: Option<u64>, dirty: bool) -> Option<DeleteCrashResult> {
    let (live, model) = setup(idx, dirty);
    let db = live.fx.db.clone();
    let next_id = live.fx.coll.max_document_id() + 1;
    // a sibling collection whose name extends the deleted one's (docs / docs2): whatever
    // happens to `docs`, not one object of `docs2` may change
    let sibling_doc = fixture::vdoc("sib", 33, None, &["s"], "sibling text");
    let sibling = util::block_on(async {
        let c = fixture::open_sibling(&db).await.expect("sibling collection");
        c.add_from(&sibling_doc).await.expect("sibling add");
        c.flush(anda_db::unix_ms()).await.expect("sibling flush");
        c
    });
    let sibling_prefix = format!("vdb/{}/", fixture::SIBLING_NAME);
    let sibling_objects = |content: &Content| -> Content { content.iter().filter(|(p, _)| p.starts_with(&sibling_prefix)).map(|(p, v)| (p.clone(), v.clone())).collect() };
    let sibling_before = sibling_objects(&ctlstore::snapshot(live.cs.inner()));
    assert!(sibling_before.len() >= 4, "sibling collection wrote nothing");
    let base = live.ctl.mutation_attempts();
    if let Some(k) = k {
        live.ctl.crash_after_mutations(base + k);
    }
    live.ctl.set_task(0);
    let out = util::block_on(db.delete_collection(COLL_NAME));
    let used = live.ctl.mutation_attempts() - base;
    if let Some(k) = k
        && used <= k
    {
        return None; // the call finished before reaching mutation k
    }
    let mut problems = Vec::new();
    if k.is_none()
        && let Err(e) = &out
    {
        problems.push(("delete-crash|fault-free-delete-failed".into(), format!("delete_collection failed without a fault: {e:?}")));
    }
    let content = ctlstore::snapshot(live.cs.inner());
    if sibling_objects(&content) != sibling_before {
        let now = sibling_objects(&content);
        let lost: Vec<&String> = sibling_before.keys().filter(|p| !now.contains_key(*p)).collect();
        problems.push(("delete-crash|sibling-collection-touched".into(), format!("delete_collection({COLL_NAME:?}) changed objects of the collection {:?}: missing {lost:?}", fixture::SIBLING_NAME)));
    }
    if k.is_none() {
        // the live sibling handle still works and still holds its document
        match util::block_on(sibling.get_as::<VDoc>(1)) {
            Ok(d) if d.name == "sib" => {}
            other => problems.push(("delete-crash|sibling-collection-touched".into(), format!("after delete_collection({COLL_NAME:?}) the sibling collection's document reads {other:?}"))),
        }
    }
    drop(sibling);
    drop(live);
    // fresh process
    anda_db_utils::verif::set_clock(Some((1_800_000_000_000, 1)));
    let (cs, ctl) = vcore::ctlstore::CtlStore::over(ctlstore::restore(&content));
    let label = match k {
        Some(k) => format!("power loss after backend mutation #{k} of delete_collection"),
        None => "completed delete_collection".to_string(),
    };
    let store: Arc<dyn object_store::ObjectStore> = cs.clone();
    let db2 = match util::block_on(fixture::connect(store.clone())) {
        Ok(d) => d,
        Err(e) => {
            problems.push(("delete-crash|connect".into(), format!("{label}: the database does not reconnect: {e:?}")));
            return Some(DeleteCrashResult { problems, listed_after: false, residue: 0 });
        }
    };
    match util::block_on(fixture::open_sibling(&db2)) {
        Ok(c) => match util::block_on(c.get_as::<VDoc>(1)) {
            Ok(d) if d.name == "sib" && c.len() == 1 => {}
            other => problems.push(("delete-crash|sibling-collection-touched".into(), format!("{label}: fresh process, the sibling collection {:?} reads {other:?} (len {})", fixture::SIBLING_NAME, c.len()))),
        },
        Err(e) => problems.push(("delete-crash|sibling-collection-touched".into(), format!("{label}: fresh process, the sibling collection {:?} does not reopen: {e:?}", fixture::SIBLING_NAME))),
    }
    let listed = db2.metadata().collections.contains(COLL_NAME);
    let under_prefix = |cs: &Arc<vcore::ctlstore::CtlStore>| -> Vec<String> { ctlstore::snapshot(cs.inner()).into_keys().filter(|p| p.starts_with(PREFIX)).collect() };
    let residue = under_prefix(&cs).len();
    if k.is_none() && (listed || residue > 0) {
        problems.push(("delete-crash|completed-delete-leaves-something".into(), format!("{label}: listed={listed}, objects under the prefix: {:?}", under_prefix(&cs))));
    }
    if listed {
        // the delete had not become durable: the collection must be whole
        let exp = expectation_from(&model, idx, &[], &[], next_id);
        match util::block_on(fixture::open_coll_with(&db2, idx, idx)) {
            Ok(coll) => {
                let fx = Fixture { store: store.clone(), db: db2.clone(), coll, idx };
                let (ps, _) = util::block_on(crash::check_state(&fx, &exp));
                for (sig, msg) in ps {
                    problems.push((format!("delete-crash|still-listed|{sig}"), format!("{label}: the collection is still listed but {msg}")));
                }
            }
            Err(e) => problems.push(("delete-crash|still-listed|reopen".into(), format!("{label}: the collection is still listed but does not reopen: {e:?}"))),
        }
    } else {
        // not listed any more: finishing the delete by name must work and leave nothing
        ctl.set_task(61);
        if let Err(e) = util::block_on(db2.delete_collection(COLL_NAME)) {
            // an unknown collection may be refused; what matters is what is left and whether the name is usable
            let _ = e;
        }
        let left = under_prefix(&cs);
        let recreated = util::block_on(fixture::open_coll_with(&db2, idx, idx));
        match recreated {
            Ok(coll) => {
                if coll.len() != 0 || !coll.ids().is_empty() {
                    problems.push(("delete-crash|deleted-documents-resurface".into(), format!("{label}: a collection created under the deleted name holds {} document(s) of the deleted one (objects left before creation: {left:?})", coll.len())));
                }
                let fx = Fixture { store: store.clone(), db: db2.clone(), coll, idx };
                let exp = expectation_from(&SeqModel::default(), idx, &[], &[], 1);
                let (ps, resolved) = util::block_on(crash::check_state(&fx, &exp));
                let clean = ps.is_empty();
                for (sig, msg) in ps {
                    problems.push((format!("delete-crash|recreated|{sig}"), format!("{label}, collection created again under the name: {msg}")));
                }
                if clean {
                    let mut fx = fx;
                    for (sig, msg) in util::block_on(crash::continuation(&mut fx, &exp, &resolved)) {
                        problems.push((format!("delete-crash|recreated-cont|{sig}"), format!("{label}, collection created again under the name: {msg}")));
                    }
                }
            }
            Err(e) => problems.push(("delete-crash|name-unusable".into(), format!("{label}: the collection is not listed, a retried delete_collection was issued, and the name still cannot be created again: {e:?} (objects left: {left:?})"))),
        }
    }
    Some(DeleteCrashResult { problems, listed_after: listed, residue })
}

// ---------------------------------------------------------------------------
// Part C: a storage fault inside close / flush (every mutation x both answers)

struct FaultResult {
    problems: Vec<(String, String)>,
    mutations: u64,
    state: String,
}

/// Runs `call` (close / close_collection / flush) on a collection with the
/// unflushed acknowledged op `dirty_op`, failing its `i`-th backend mutation
/// with `answer`. Returns None when the call has fewer than i+1 mutations.
fn fault_case(idx: Idx, call: &Call, dirty_op: &Op, i: u64, answer: vcore::ctlstore::Answer) -> Option<FaultResult> {
    let mut live = conc::open_live(idx);
    let mut model = conc::preloaded(idx).model.clone();
    let out = util::block_on(exec_on(&live.fx.coll, dirty_op)).unwrap();
    assert!(out.is_ok(), "setup {dirty_op:?} failed: {}", out.short());
    model.apply(dirty_op, &out);
    let coll = live.fx.coll.clone();
    let db = live.fx.db.clone();
    let next_id = coll.max_document_id() + 1;
    let base = live.ctl.mutation_attempts();
    live.ctl.script(base + i, answer);
    live.ctl.set_task(0);
    let out = util::block_on(exec_call(&db, &coll, call));
    let used = live.ctl.mutation_attempts() - base;
    if used <= i {
        return None; // the call finished before reaching mutation i
    }
    live.ctl.reset_faults();
    let state = coll.state();
    let mut problems = Vec::new();
    let label = format!("{} with mutation #{i} answered {answer:?} (call returned {})", call_kind(call), out.short());
    match state {
        CollectionState::Active => {
            // a failed flush/close that leaves the handle Active must have left memory and storage consistent
            let bad = util::block_on(vdb::oracle::full_compare(&coll, &model.docs, idx, vdb::ops::probe_bound(&model)));
            if !bad.is_empty() {
                problems.push((format!("fault|active-but-diverged|{}", call_kind(call)), format!("{label}: handle Active but {}", bad.join("; "))));
            }
        }
        other => {
            let l = format!("{other:?}").to_lowercase();
            retained_battery(&live, &coll, &l, &mut problems);
        }
    }
    let exp = expectation_from(&model, idx, &[], &[], next_id);
    reopen_and_check(&mut live, idx, &exp, &mut problems, &format!("failed-{}", call_kind(call)));
    Some(FaultResult { problems, mutations: used, state: format!("{state:?}") })
}

/// delete_collection with its `i`-th backend mutation answered by a fault: a delete that
/// reports success leaves nothing; one that reports an error leaves a retired, inert
/// handle and can be retried, after which nothing remains and nothing can be recreated.
fn delete_fault_case(idx: Idx, i: u64, answer: vcore::ctlstore::Answer, dirty: bool) -> Option<FaultResult> {
    let (live, _model) = setup(idx, dirty);
    let coll = live.fx.coll.clone();
    let db = live.fx.db.clone();
    let base = live.ctl.mutation_attempts();
    live.ctl.script(base + i, answer);
    live.ctl.set_task(0);
    let out = util::block_on(db.delete_collection(COLL_NAME));
    let used = live.ctl.mutation_attempts() - base;
    if used <= i {
        return None;
    }
    live.ctl.reset_faults();
    let mut problems = Vec::new();
    let label = format!("delete_collection with mutation #{i} answered {answer:?} (returned {})", if out.is_ok() { "Ok".to_string() } else { format!("{:?}", out.as_ref().err().map(|e| classify(e))) });
    let state = coll.state();
    if out.is_ok() {
        let left = prefix_content(&live);
        if !left.is_empty() {
            problems.push(("delete-fault|ok-with-residue".into(), format!("{label}: objects remain under the prefix: {:?}", left.keys().collect::<Vec<_>>())));
        }
        if db.metadata().collections.contains(COLL_NAME) {
            problems.push(("delete-fault|ok-still-listed".into(), format!("{label}: the database still lists the collection")));
        }
    }
    if state != CollectionState::Active {
        retained_battery(&live, &coll, &format!("delete-fault-{}", format!("{state:?}").to_lowercase()), &mut problems);
    }
    // a retry (also after a success: idempotent or refused, never harmful) and the final state
    live.ctl.set_task(61);
    let retry = util::block_on(db.delete_collection(COLL_NAME));
    if out.is_err()
        && state != CollectionState::Active
        && let Err(e) = &retry
    {
        problems.push(("delete-fault|retry-failed".into(), format!("{label}: the fault-free retry of delete_collection failed: {e:?}")));
    }
    if retry.is_ok() || out.is_ok() {
        let left = prefix_content(&live);
        if !left.is_empty() {
            problems.push(("delete-fault|residue-after-retry".into(), format!("{label}, then a retry returning {:?}: objects remain: {:?}", retry.as_ref().map(|_| "Ok").map_err(|e| classify(e)), left.keys().collect::<Vec<_>>())));
        }
        retained_battery(&live, &coll, "deleted", &mut problems);
        if !prefix_content(&live).is_empty() {
            problems.push(("delete-fault|recreated".into(), format!("{label}: the retained handle recreated objects after the delete")));
        }
    }
    Some(FaultResult { problems, mutations: used, state: format!("{state:?}") })
}

// ---------------------------------------------------------------------------
// Part D: poison by cancellation while another call is in flight, then reopen

/// `via_close`: the caller first asks the database to close the (poisoned)
/// collection - which fails - and then opens it again.
fn poison_race_case(idx: Idx, victim: &Op, survivor: &Op, via_close: bool, ch: &mut Chooser) -> RaceResult {
    let (mut live, model) = setup(idx, true);
    let coll = live.fx.coll.clone();
    let db = live.fx.db.clone();
    let next_id = coll.max_document_id() + 1;
    let results: Rc<RefCell<Vec<Option<Outcome>>>> = Rc::new(RefCell::new(vec![None; 2]));
    let reopened: Rc<RefCell<Option<Result<Arc<Collection>, String>>>> = Rc::new(RefCell::new(None));
    let mut problems = Vec::new();
    live.ctl.clear_labels();
    live.ctl.keep_labels(true);
    live.ctl.set_gate(true);
    live.ctl.set_post_gate(true);
    let mut steps = 0usize;
    let mut cancelled = false;
    // (journal length, handle state, survivor still queued for admission) at the cancellation
    let mut at_cancel: Option<(usize, CollectionState, bool)> = None;
    let mut deadlock = None;
    {
        let mut sched = Sched::new();
        let ctl = live.ctl.clone();
        sched.on_switch = Some(Box::new(move |t| ctl.set_task(t)));
        for (i, op) in [victim, survivor].into_iter().enumerate() {
            let (c2, op2, r2) = (coll.clone(), op.clone(), results.clone());
            sched.spawn(&format!("{op:?}"), async move {
                let out = exec_on(&c2, &op2).await.expect("plain op");
                r2.borrow_mut()[i] = Some(out);
            });
        }
        loop {
            if steps > 6000 {
                problems.push(("poison-race|livelock".into(), "no completion within 6000 steps".into()));
                break;
            }
            let (mut opts, mut costs) = sched.options();
            // extra option: drop the victim's future at its current suspension point
            let can_cancel = !cancelled && sched.state(0) == TaskState::Suspended;
            if can_cancel {
                opts.push(usize::MAX);
                costs.push(if opts.len() == 1 { 0 } else { 1 });
            }
            if opts.is_empty() {
                if !sched.all_done() {
                    deadlock = Some((0..sched.len()).filter(|t| sched.state(*t) == TaskState::Suspended).map(|t| sched.name(t).to_string()).collect::<Vec<_>>());
                }
                break;
            }
            let pick = if opts.len() == 1 { 0 } else { ch.choose(&costs) };
            if opts[pick] == usize::MAX {
                sched.cancel(0);
                cancelled = true;
                // was the survivor still waiting for admission (no backend call issued, blocked or not started)?
                let survivor_calls = live.ctl.labels().iter().filter(|l| l.task == 1).count();
                let queued = survivor_calls == 0 && (sched.state(1) == TaskState::Fresh || (sched.state(1) == TaskState::Suspended && sched.is_blocked(1)));
                at_cancel = Some((live.ctl.journal_len(), coll.state(), queued));
                // the caller notices the poisoned handle and reopens through the same database
                let (d2, r2) = (db.clone(), reopened.clone());
                sched.spawn("reopen", async move {
                    if via_close {
                        let _ = d2.close_collection(fixture::COLL_NAME).await;
                    }
                    let r = fixture::open_coll_with(&d2, idx, idx).await.map_err(|e| format!("{e:?}"));
                    *r2.borrow_mut() = Some(r);
                });
            } else {
                sched.step(opts[pick]);
            }
            steps += 1;
        }
    }
    live.ctl.set_gate(false);
    live.ctl.keep_labels(false);
    live.ctl.set_task(99);
    let labels = conc::canon_labels(&live.ctl.labels());
    let outcomes = results.borrow().clone();
    let outcome_key = util::fnv64(format!("{:?}|{cancelled}", outcomes.iter().map(|o| o.as_ref().map(|x| x.short())).collect::<Vec<_>>()).as_bytes());
    if let Some(who) = deadlock {
        problems.push(("poison-race|deadlock".into(), format!("deadlock: {who:?} blocked forever")));
        return RaceResult { problems, steps, outcome_key, labels };
    }
    if !cancelled {
        // the victim completed before any cancellation point was chosen: nothing to check here
        return RaceResult { problems, steps, outcome_key, labels };
    }
    // a call that was still queued for admission when the cancellation poisoned the handle
    // must neither write nor be accepted afterwards
    if let Some((j_cancel, CollectionState::Poisoned, true)) = at_cancel {
        for (i, e) in live.ctl.journal().iter().enumerate().skip(j_cancel) {
            if e.task == 1 && e.mutation.path().starts_with(PREFIX) {
                problems.push((
                    format!("poison-race|queued-call-wrote-after-poison|{}", call_kind(&Call::Op(survivor.clone()))),
                    format!("{survivor:?} was queued for admission when the cancellation of {victim:?} poisoned the handle, yet it wrote `{}` (journal #{i}) afterwards", e.mutation.label()),
                ));
                break;
            }
        }
        if outcomes[1].as_ref().map(|o| o.is_ok()).unwrap_or(false) && !matches!(survivor, Op::Get(_)) {
            problems.push((
                format!("poison-race|queued-call-accepted-after-poison|{}", call_kind(&Call::Op(survivor.clone()))),
                format!("{survivor:?} was queued for admission when the cancellation of {victim:?} poisoned the handle, yet it was accepted: {}", outcomes[1].as_ref().unwrap().short()),
            ));
        }
    }
    let victim_call = Call::Op(victim.clone());
    let survivor_call = Call::Op(survivor.clone());
    let acked: Vec<(&Call, &Outcome)> = outcomes[1].as_ref().filter(|o| o.is_ok()).map(|o| vec![(&survivor_call, o)]).unwrap_or_default();
    // a survivor that reported an error other than a lifecycle rejection has an unknown outcome
    let mut uncertain: Vec<&Call> = vec![&victim_call];
    if let Some(Outcome::Err(c)) = &outcomes[1]
        && !matches!(c, ErrClass::State(_))
    {
        uncertain.push(&survivor_call);
    }
    let exp = expectation_from(&model, idx, &uncertain, &acked, next_id);
    let r = reopened.borrow_mut().take();
    match r {
        Some(Ok(c2)) => {
            if c2.state() != CollectionState::Active {
                problems.push(("poison-race|reopened-not-active".into(), format!("handle returned by the reopen is {:?}", c2.state())));
            } else {
                let fx = Fixture { store: live.fx.store.clone(), db: live.fx.db.clone(), coll: c2, idx };
                let (ps, _) = util::block_on(crash::check_state(&fx, &exp));
                for (sig, msg) in ps {
                    problems.push((format!("poison-race|reopened-state|{sig}"), format!("handle reopened after the poisoning cancellation: {msg}")));
                }
            }
        }
        Some(Err(e)) => problems.push(("poison-race|reopen-failed".into(), format!("reopen after the poisoning cancellation failed: {e}"))),
        None => problems.push(("poison-race|reopen-never-returned".into(), "reopen never returned".into())),
    }
    // the poisoned handle itself stays retired
    if coll.state() != CollectionState::Active {
        let l = format!("{:?}", coll.state()).to_lowercase();
        retained_battery(&live, &coll, &l, &mut problems);
    }
    let _ = &mut live;
    RaceResult { problems, steps, outcome_key, labels }
}

// ---------------------------------------------------------------------------
// Part G: a call cancelled while a close is draining it

/// `victim` is in flight, `closer` (close / close_collection / database close) runs against
/// it, and the victim's future may be dropped at any of its suspension points (a deviation).
/// Once the cancellation has poisoned the handle, nothing more may be written under the
/// collection prefix through it, it must stay poisoned (a close must not report success and
/// turn it into Closed), and a reopen must satisfy the C01/C02 oracles with the victim
/// all-or-nothing.
fn cancel_during_close_case(idx: Idx, victim: &Op, closer: &Call, ch: &mut Chooser) -> RaceResult {
    let (mut live, model) = setup(idx, true);
    let coll = live.fx.coll.clone();
    let db = live.fx.db.clone();
    let next_id = coll.max_document_id() + 1;
    let results: Rc<RefCell<Vec<Option<Outcome>>>> = Rc::new(RefCell::new(vec![None; 2]));
    let mut problems = Vec::new();
    live.ctl.clear_labels();
    live.ctl.keep_labels(true);
    live.ctl.set_gate(true);
    live.ctl.set_post_gate(true);
    let mut steps = 0usize;
    // (journal length, handle state) right after the cancellation
    let mut cancelled: Option<(usize, CollectionState)> = None;
    let mut deadlock = None;
    {
        let mut sched = Sched::new();
        let ctl = live.ctl.clone();
        sched.on_switch = Some(Box::new(move |t| ctl.set_task(t)));
        {
            let (c2, op2, r2) = (coll.clone(), victim.clone(), results.clone());
            sched.spawn(&format!("{victim:?}"), async move {
                let out = exec_on(&c2, &op2).await.expect("plain op");
                r2.borrow_mut()[0] = Some(out);
            });
            let (c2, d2, call2, r2) = (coll.clone(), db.clone(), closer.clone(), results.clone());
            sched.spawn(&format!("{closer:?}"), async move {
                let out = exec_call(&d2, &c2, &call2).await;
                r2.borrow_mut()[1] = Some(out);
            });
        }
        loop {
            if steps > 6000 {
                problems.push(("cancel-in-close|livelock".into(), "no completion within 6000 steps".into()));
                break;
            }
            let (mut opts, mut costs) = sched.options();
            let can_cancel = cancelled.is_none() && sched.state(0) == TaskState::Suspended;
            if can_cancel {
                opts.push(usize::MAX);
                costs.push(if opts.len() == 1 { 0 } else { 1 });
            }
            if opts.is_empty() {
                if !sched.all_done() {
                    deadlock = Some((0..sched.len()).filter(|t| sched.state(*t) == TaskState::Suspended).map(|t| sched.name(t).to_string()).collect::<Vec<_>>());
                }
                break;
            }
            let pick = if opts.len() == 1 { 0 } else { ch.choose(&costs) };
            if opts[pick] == usize::MAX {
                sched.cancel(0);
                cancelled = Some((live.ctl.journal_len(), coll.state()));
            } else {
                sched.step(opts[pick]);
            }
            steps += 1;
        }
    }
    live.ctl.set_gate(false);
    live.ctl.keep_labels(false);
    live.ctl.set_task(99);
    let labels = conc::canon_labels(&live.ctl.labels());
    let outcomes = results.borrow().clone();
    let outcome_key = util::fnv64(format!("{:?}|{:?}|{:?}", outcomes.iter().map(|o| o.as_ref().map(|x| x.short())).collect::<Vec<_>>(), cancelled.as_ref().map(|c| c.1), coll.state()).as_bytes());
    if let Some(who) = deadlock {
        problems.push(("cancel-in-close|deadlock".into(), format!("deadlock: {who:?} blocked forever")));
        return RaceResult { problems, steps, outcome_key, labels };
    }
    let Some((j_cancel, state_at_cancel)) = cancelled else {
        return RaceResult { problems, steps, outcome_key, labels };
    };
    let ck = call_kind(closer);
    if state_at_cancel == CollectionState::Poisoned {
        for (i, e) in live.ctl.journal().iter().enumerate().skip(j_cancel) {
            if e.mutation.path().starts_with(PREFIX) {
                problems.push((
                    format!("cancel-in-close|poisoned-handle-wrote|{ck}"),
                    format!("the cancellation of {victim:?} poisoned the handle, yet `{}` (journal #{i}, task {}) was written afterwards while {ck} ran", e.mutation.label(), e.task),
                ));
                break;
            }
        }
        if coll.state() != CollectionState::Poisoned {
            problems.push((
                format!("cancel-in-close|left-poisoned-state|{ck}"),
                format!("the handle was Poisoned by the cancellation of {victim:?} and is {:?} after {ck} returned {}", coll.state(), outcomes[1].as_ref().map(|o| o.short()).unwrap_or_default()),
            ));
        }
        if outcomes[1].as_ref().map(|o| o.is_ok()).unwrap_or(false) && !matches!(closer, Call::DbClose) {
            problems.push((format!("cancel-in-close|close-of-poisoned-handle-succeeded|{ck}"), format!("{ck} reported success on a handle poisoned during its drain")));
        }
    }
    if coll.state() != CollectionState::Active {
        let l = format!("{:?}", coll.state()).to_lowercase();
        retained_battery(&live, &coll, &l, &mut problems);
    }
    if !problems.is_empty() {
        return RaceResult { problems, steps, outcome_key, labels };
    }
    // reopen: the victim all-or-nothing, everything acknowledged before in effect
    let victim_call = Call::Op(victim.clone());
    let exp = expectation_from(&model, idx, &[&victim_call], &[], next_id);
    if matches!(closer, Call::DbClose) {
        let content = ctlstore::snapshot(live.cs.inner());
        match util::block_on(crash::recover(&content, &exp, crash::Backend::Mem)) {
            Ok(rec) => {
                let (ps, _) = util::block_on(crash::check_state(&rec.fx, &exp));
                for (sig, msg) in ps {
                    problems.push((format!("cancel-in-close|after-{ck}|{sig}"), format!("cancel {victim:?} during {ck}, fresh connect: {msg}")));
                }
            }
            Err(e) => problems.push((format!("cancel-in-close|after-{ck}|recover"), e)),
        }
    } else {
        let _ = util::block_on(db.close_collection(COLL_NAME));
        reopen_and_check(&mut live, idx, &exp, &mut problems, &format!("cancel-in-{ck}"));
    }
    RaceResult { problems, steps, outcome_key, labels }
}

fn main() {
    let mut run = Run::from_args("C06", "step", "model_checking");
    let idx = Idx::ALL;

    if let Some(file) = run.replay_file.clone() {
        let v: serde_json::Value = serde_json::from_slice(&std::fs::read(&file).expect("read")).expect("json");
        let r = &v["replay"];
        let mut problems = Vec::new();
        if r["kind"] == "cancel" {
            let call: Call = serde_json::from_value(r["call"].clone()).unwrap();
            let res = cancel_case(call.start_idx(), &call, r["dirty"].as_bool().unwrap(), r["k"].as_u64().unwrap() as u32);
            problems = res.problems;
        } else if r["kind"] == "fault" {
            let call: Call = serde_json::from_value(r["call"].clone()).unwrap();
            let dirty: Op = serde_json::from_value(r["dirty_op"].clone()).unwrap();
            let ans = if r["answer"] == "ErrAfter" { vcore::ctlstore::Answer::ErrAfter } else { vcore::ctlstore::Answer::ErrBefore };
            if let Some(res) = fault_case(idx, &call, &dirty, r["i"].as_u64().unwrap(), ans) {
                problems = res.problems;
            }
        } else if r["kind"] == "delete-fault" {
            let ans = if r["answer"] == "ErrAfter" { vcore::ctlstore::Answer::ErrAfter } else { vcore::ctlstore::Answer::ErrBefore };
            if let Some(res) = delete_fault_case(idx, r["i"].as_u64().unwrap(), ans, r["dirty"].as_bool().unwrap_or(true)) {
                problems = res.problems;
            }
        } else if r["kind"] == "cancel-in-close" {
            let victim: Op = serde_json::from_value(r["victim"].clone()).unwrap();
            let closer: Call = serde_json::from_value(r["closer"].clone()).unwrap();
            let choices: Vec<u32> = serde_json::from_value(r["choices"].clone()).unwrap();
            let mut ch = Chooser::new(choices);
            let res = cancel_during_close_case(idx, &victim, &closer, &mut ch);
            if let Some(d) = ch.diverged {
                vcore::report::machinery(&format!("replay diverged: {d}"));
            }
            problems = res.problems;
        } else if r["kind"] == "delete-crash" {
            if let Some(res) = delete_crash_case(idx, r["k"].as_u64(), r["dirty"].as_bool().unwrap_or(true)) {
                problems = res.problems;
            }
        } else if r["kind"] == "life-race" {
            let ops: Vec<Life> = serde_json::from_value(r["ops"].clone()).unwrap();
            let choices: Vec<u32> = serde_json::from_value(r["choices"].clone()).unwrap();
            let mut ch = Chooser::new(choices);
            let res = life_race_case(Idx { tags: false, ..Idx::ALL }, &ops, &mut ch);
            if let Some(d) = ch.diverged {
                vcore::report::machinery(&format!("replay diverged: {d}"));
            }
            problems = res.problems;
        } else if r["kind"] == "poison-race" {
            let victim: Op = serde_json::from_value(r["victim"].clone()).unwrap();
            let survivor: Op = serde_json::from_value(r["survivor"].clone()).unwrap();
            let choices: Vec<u32> = serde_json::from_value(r["choices"].clone()).unwrap();
            let mut ch = Chooser::new(choices);
            let res = poison_race_case(idx, &victim, &survivor, r["via_close"].as_bool().unwrap_or(false), &mut ch);
            if let Some(d) = ch.diverged {
                vcore::report::machinery(&format!("replay diverged: {d}"));
            }
            problems = res.problems;
        } else {
            let t: Call = serde_json::from_value(r["transition"].clone()).unwrap();
            let ops: Vec<Call> = serde_json::from_value(r["ops"].clone()).unwrap();
            let choices: Vec<u32> = serde_json::from_value(r["choices"].clone()).unwrap();
            let mut ch = Chooser::new(choices);
            let res = race_case(idx, &t, &ops, &mut ch);
            if let Some(d) = ch.diverged {
                vcore::report::machinery(&format!("replay diverged: {d}"));
            }
            problems = res.problems;
        }
        run.add("executions", 1);
        for (sig, msg) in problems {
            run.violation(Violation { signature: format!("C06|{sig}"), summary: msg, replay: r.clone() });
        }
        run.finish();
    }

    let deadline = Instant::now() + Duration::from_secs_f64(run.budget_s);
    let threads = util::n_threads();

    // ---- Part A
    let cancel_calls = vec![
        Call::Op(Op::Add(3)),
        Call::Op(Op::Update(1, 0)),
        Call::Op(Op::Update(1, 8)),
        Call::Op(Op::Remove(1)),
        Call::Op(Op::Flush),
        Call::Op(Op::SaveExt(1)),
        Call::Op(Op::RemoveExt),
        Call::Op(Op::CompactBtree),
        Call::Op(Op::CompactBm25),
        Call::Reconcile,
        Call::CollClose,
        Call::DbCloseCollection,
        Call::DbDeleteCollection,
        Call::DbClose,
        Call::Reindex(vdb::ops::IdxDelta::DropTags),
        Call::Reindex(vdb::ops::IdxDelta::DropBody),
        Call::Reindex(vdb::ops::IdxDelta::DropEmb),
        // index creation with backfill over the stored documents
        Call::Reindex(vdb::ops::IdxDelta::AddTags),
        Call::Reindex(vdb::ops::IdxDelta::AddBody),
        Call::Reindex(vdb::ops::IdxDelta::AddEmb),
        Call::Reindex(vdb::ops::IdxDelta::AddName),
        // one callback that creates an index and removes another
        Call::Reindex(vdb::ops::IdxDelta::AddEmbDropTags),
        Call::Reindex(vdb::ops::IdxDelta::AddBodyDropName),
        Call::Reindex(vdb::ops::IdxDelta::AddTagsDropBody),
    ];
    let mut items = Vec::new();
    for c in &cancel_calls {
        for dirty in [false, true] {
            items.push((c.clone(), dirty));
        }
    }
    let results = util::par_map(items, threads, |(call, dirty)| {
        let mut out = Vec::new();
        let mut k = 0u32;
        loop {
            let r = cancel_case(call.start_idx(), &call, dirty, k);
            let completed = r.completed_at.is_some();
            out.push((k, r));
            if completed || k > 400 {
                break;
            }
            k += 1;
        }
        (call, dirty, out)
    });
    let mut cancel_states = std::collections::BTreeSet::new();
    for (call, dirty, out) in results {
        let polls = out.last().and_then(|(_, r)| r.completed_at).unwrap_or(0);
        run.add("cancel_points", out.len() as u64 - 1);
        run.add("executions", out.len() as u64);
        run.add("evaluations", out.len() as u64);
        run.add("transitions", out.iter().map(|(k, _)| *k as u64).sum());
        run.distinct(util::fnv64(format!("cancel {call:?} {dirty}").as_bytes()));
        if polls > 3 {
            run.sample(json!({"part": "cancel", "call": format!("{call:?}"), "dirty": dirty, "polls_to_complete": polls,
                "handle_state_by_cancel_point": out.iter().map(|(k, r)| format!("{k}:{}", r.state)).collect::<Vec<_>>()}));
        }
        for (k, r) in out {
            cancel_states.insert(format!("{}|{}", call_kind(&call), r.state));
            for (sig, msg) in r.problems {
                run.violation(Violation {
                    signature: format!("C06|{sig}"),
                    summary: msg,
                    replay: json!({"kind": "cancel", "call": call, "dirty": dirty, "k": k}),
                });
            }
        }
    }

    // ---- Part C: faults inside close / flush
    {
        let calls = [Call::CollClose, Call::DbCloseCollection, Call::Op(Op::Flush)];
        let dirties = [Op::Update(2, 3), Op::Remove(2), Op::Add(3), Op::Update(1, 8)];
        let mut items = Vec::new();
        for c in &calls {
            for d in &dirties {
                for ans in [vcore::ctlstore::Answer::ErrBefore, vcore::ctlstore::Answer::ErrAfter] {
                    items.push((c.clone(), d.clone(), ans));
                }
            }
        }
        let results = util::par_map(items, threads, |(c, d, ans)| {
            let mut out = Vec::new();
            let mut i = 0u64;
            while let Some(r) = fault_case(idx, &c, &d, i, ans) {
                out.push((i, r));
                i += 1;
                if i > 200 {
                    break;
                }
            }
            (c, d, ans, out)
        });
        for (c, d, ans, out) in results {
            run.add("fault_points", out.len() as u64);
            run.add("executions", out.len() as u64);
            run.add("evaluations", out.len() as u64);
            run.add("transitions", out.iter().map(|(_, r)| r.mutations).sum());
            run.distinct(util::fnv64(format!("fault {c:?} {d:?} {ans:?}").as_bytes()));
            if out.len() > 3 && matches!(ans, vcore::ctlstore::Answer::ErrAfter) {
                run.sample(json!({"part": "fault", "call": format!("{c:?}"), "unflushed_op": format!("{d:?}"), "answer": format!("{ans:?}"),
                    "handle_state_by_failed_mutation": out.iter().map(|(i, r)| format!("{i}:{}", r.state)).collect::<Vec<_>>()}));
            }
            for (i, r) in out {
                cancel_states.insert(format!("fault|{}|{}", call_kind(&c), r.state));
                for (sig, msg) in r.problems {
                    run.violation(Violation {
                        signature: format!("C06|{sig}"),
                        summary: msg,
                        replay: json!({"kind": "fault", "call": c, "dirty_op": d, "i": i, "answer": format!("{ans:?}")}),
                    });
                }
            }
        }
    }

    // ---- Part C2: faults inside delete_collection
    {
        let mut items = Vec::new();
        for dirty in [true, false] {
            for ans in [vcore::ctlstore::Answer::ErrBefore, vcore::ctlstore::Answer::ErrAfter] {
                items.push((dirty, ans));
            }
        }
        let results = util::par_map(items, threads, |(dirty, ans)| {
            let mut out = Vec::new();
            let mut i = 0u64;
            while let Some(r) = delete_fault_case(idx, i, ans, dirty) {
                out.push((i, r));
                i += 1;
                if i > 300 {
                    break;
                }
            }
            (dirty, ans, out)
        });
        for (dirty, ans, out) in results {
            run.add("delete_fault_points", out.len() as u64);
            run.add("executions", out.len() as u64);
            run.add("evaluations", out.len() as u64);
            run.distinct(util::fnv64(format!("delete-fault {dirty} {ans:?}").as_bytes()));
            for (i, r) in out {
                cancel_states.insert(format!("delete-fault|{}", r.state));
                for (sig, msg) in r.problems {
                    run.violation(Violation {
                        signature: format!("C06|{sig}"),
                        summary: msg,
                        replay: json!({"kind": "delete-fault", "i": i, "dirty": dirty, "answer": format!("{ans:?}")}),
                    });
                }
            }
        }
        if run.get("delete_fault_points") < 8 {
            vcore::report::machinery("delete-fault part enumerated no fault point");
        }
    }

    // ---- Part D: poison by cancellation with a survivor in flight, then reopen
    let mut outcome_kinds = std::collections::BTreeSet::new();
    {
        let pairs0 = vec![
            (Op::Update(1, 0), Op::Update(2, 8)),
            (Op::Update(1, 0), Op::Remove(2)),
            (Op::Remove(1), Op::Update(2, 8)),
            (Op::Add(3), Op::Update(2, 8)),
            (Op::Update(1, 8), Op::Add(3)),
            // survivors that wait for the EXCLUSIVE gate behind the victim's lease
            (Op::Update(1, 0), Op::Flush),
            (Op::Add(3), Op::Flush),
            (Op::Remove(1), Op::Flush),
            (Op::Update(1, 8), Op::CompactBtree),
            (Op::Add(3), Op::SaveExt(1)),
        ];
        // each pair twice: plain reopen, and close_collection (fails on the poisoned handle) then reopen
        let pairs: Vec<(Op, Op, bool)> = pairs0.iter().flat_map(|(a, b)| [(a.clone(), b.clone(), false), (a.clone(), b.clone(), true)]).collect();
        let bound = run.tier.pick(2, 3);
        struct PrOut {
            v: Op,
            s: Op,
            via_close: bool,
            machinery: Option<String>,
            found: Vec<(Vec<u32>, Vec<(String, String)>)>,
            execs: u64,
            steps: u64,
            keys: Vec<u64>,
            capped: bool,
        }
        let outs = util::par_map(pairs, threads, |(v, sv, via_close)| {
            let mut po = PrOut { v: v.clone(), s: sv.clone(), via_close, machinery: None, found: vec![], execs: 0, steps: 0, keys: vec![], capped: false };
            let a = poison_race_case(idx, &v, &sv, via_close, &mut Chooser::new(vec![]));
            let b = poison_race_case(idx, &v, &sv, via_close, &mut Chooser::new(vec![]));
            if a.labels != b.labels || a.outcome_key != b.outcome_key {
                po.machinery = Some("nondeterministic replay".into());
                return po;
            }
            let stats = choice::explore(
                bound,
                1,
                deadline,
                u64::MAX,
                |ch| {
                    let r = poison_race_case(idx, &v, &sv, via_close, ch);
                    (r, ch.diverged.clone())
                },
                |choices, (r, div)| {
                    po.execs += 1;
                    po.steps += r.steps as u64;
                    po.keys.push(r.outcome_key);
                    if let Some(d) = div {
                        po.machinery = Some(d);
                        return false;
                    }
                    if !r.problems.is_empty() {
                        po.found.push((choices, r.problems));
                        return false;
                    }
                    true
                },
            );
            po.capped = stats.capped;
            po
        });
        for po in outs {
            if let Some(m) = po.machinery {
                vcore::report::machinery(&format!("poison race {:?} vs {:?}: {m}", po.v, po.s));
            }
            run.add("executions", po.execs);
            run.add("evaluations", po.execs);
            run.add("transitions", po.steps);
            run.add("poison_race_executions", po.execs);
            run.distinct(util::fnv64(format!("poison {:?} {:?} {}", po.v, po.s, po.via_close).as_bytes()));
            outcome_kinds.extend(po.keys);
            for (choices, ps) in po.found {
                for (sig, msg) in ps {
                    run.violation(Violation {
                        signature: format!("C06|{sig}"),
                        summary: format!("cancel {:?} while {:?} is in flight, then {}reopen; schedule {choices:?}: {msg}", po.v, po.s, if po.via_close { "close_collection + " } else { "" }),
                        replay: json!({"kind": "poison-race", "victim": po.v, "survivor": po.s, "via_close": po.via_close, "choices": choices}),
                    });
                }
            }
            if po.capped {
                run.cap_hit("time budget inside the poison-race part");
            }
        }
    }

    // ---- Part G: a call cancelled while a close drains it
    {
        let victims = [Op::Add(3), Op::Update(1, 0), Op::Update(1, 8), Op::Remove(1), Op::SaveExt(1)];
        let closers = [Call::CollClose, Call::DbCloseCollection, Call::DbClose];
        let bound = run.tier.pick(2, 3);
        let mut pairs: Vec<(Op, Call)> = Vec::new();
        for v in &victims {
            for c in &closers {
                pairs.push((v.clone(), c.clone()));
            }
        }
        struct GOut {
            v: Op,
            c: Call,
            machinery: Option<String>,
            found: Vec<(Vec<u32>, Vec<(String, String)>)>,
            execs: u64,
            steps: u64,
            keys: Vec<u64>,
            capped: bool,
        }
        let outs = util::par_map(pairs, threads, |(v, c)| {
            let mut go = GOut { v: v.clone(), c: c.clone(), machinery: None, found: vec![], execs: 0, steps: 0, keys: vec![], capped: false };
            let a = cancel_during_close_case(idx, &v, &c, &mut Chooser::new(vec![]));
            let b = cancel_during_close_case(idx, &v, &c, &mut Chooser::new(vec![]));
            if a.labels != b.labels || a.outcome_key != b.outcome_key {
                go.machinery = Some("nondeterministic replay".into());
                return go;
            }
            let stats = choice::explore(
                bound,
                1,
                deadline,
                u64::MAX,
                |ch| {
                    let r = cancel_during_close_case(idx, &v, &c, ch);
                    (r, ch.diverged.clone())
                },
                |choices, (r, div)| {
                    go.execs += 1;
                    go.steps += r.steps as u64;
                    go.keys.push(r.outcome_key);
                    if let Some(d) = div {
                        go.machinery = Some(d);
                        return false;
                    }
                    if !r.problems.is_empty() {
                        go.found.push((choices, r.problems));
                        return false;
                    }
                    true
                },
            );
            go.capped = stats.capped;
            go
        });
        for go in outs {
            if let Some(m) = go.machinery {
                vcore::report::machinery(&format!("cancel-in-close {:?} vs {:?}: {m}", go.v, go.c));
            }
            run.add("executions", go.execs);
            run.add("evaluations", go.execs);
            run.add("transitions", go.steps);
            run.add("cancel_in_close_executions", go.execs);
            run.distinct(util::fnv64(format!("cancel-in-close {:?} {:?}", go.v, go.c).as_bytes()));
            outcome_kinds.extend(go.keys);
            for (choices, ps) in go.found {
                for (sig, msg) in ps {
                    run.violation(Violation {
                        signature: format!("C06|{sig}"),
                        summary: format!("{:?} cancelled while {:?} runs, schedule {choices:?}: {msg}", go.v, go.c),
                        replay: json!({"kind": "cancel-in-close", "victim": go.v, "closer": go.c, "choices": choices}),
                    });
                }
            }
            if go.capped {
                run.cap_hit("time budget inside the cancel-in-close part");
            }
        }
    }

    // ---- Part F: power loss inside delete_collection
    {
        let mut items: Vec<(Option<u64>, bool)> = Vec::new();
        for dirty in [true, false] {
            items.push((None, dirty));
            for k in 0..200u64 {
                items.push((Some(k), dirty));
            }
        }
        let results = util::par_map(items, threads, |(k, dirty)| (k, dirty, delete_crash_case(idx, k, dirty)));
        let mut kinds = std::collections::BTreeSet::new();
        for (k, dirty, r) in results {
            let Some(r) = r else { continue };
            run.add("delete_crash_points", 1);
            run.add("executions", 1);
            run.add("evaluations", 1);
            kinds.insert((r.listed_after, r.residue > 0));
            cancel_states.insert(format!("delete-crash|listed={}|residue={}", r.listed_after, r.residue > 0));
            run.distinct(util::fnv64(format!("delete-crash {k:?} {dirty}").as_bytes()));
            for (sig, msg) in r.problems {
                run.violation(Violation { signature: format!("C06|{sig}"), summary: msg, replay: json!({"kind": "delete-crash", "k": k, "dirty": dirty}) });
            }
        }
        run.sample(json!({"part": "delete-crash", "crash_points": run.get("delete_crash_points"), "distinct (still listed, residue under prefix) kinds": kinds.len()}));
        if run.get("delete_crash_points") < 4 {
            vcore::report::machinery("delete-crash part enumerated no crash point");
        }
    }

    // ---- Part E: lifecycle operations of one name racing each other
    {
        use Life::*;
        let bound = run.tier.pick(2, 3);
        let idx = Idx { tags: false, ..Idx::ALL };
        let mut sets: Vec<Vec<Life>> = vec![
            vec![Close, Open, Delete],
            vec![Close, Delete, Open],
            vec![Open, Close, Delete],
            vec![Delete, Close, Open],
            vec![Delete, Open, Close],
            vec![Open, Delete, Close],
            vec![Close, Open, Open],
            vec![Close, Open, Close],
            vec![Delete, Open, Open],
            vec![Open, Delete, Open],
            vec![Close, Open],
            vec![Delete, Open],
            vec![Open, Delete],
            vec![Close, Delete],
        ];
        if run.tier == vcore::Tier::Thorough {
            sets.push(vec![Close, Open, Delete, Open]);
            sets.push(vec![Close, Open, Close, Delete]);
            sets.push(vec![Delete, Open, Delete, Open]);
            sets.push(vec![Close, Open, Close, Open]);
        }
        struct LrOut {
            ops: Vec<Life>,
            machinery: Option<String>,
            found: Vec<(Vec<u32>, Vec<(String, String)>)>,
            execs: u64,
            steps: u64,
            keys: Vec<u64>,
            capped: bool,
        }
        let quick = run.tier == vcore::Tier::Quick;
        let outs = util::par_map(sets, threads, |ops| {
            let mut lo = LrOut { ops: ops.clone(), machinery: None, found: vec![], execs: 0, steps: 0, keys: vec![], capped: false };
            // quick: the full bound for the sets in which all three kinds of call meet and for the pairs,
            // one preemption less for the three-call sets that repeat a kind
            let distinct_kinds = [Close, Open, Delete].iter().filter(|k| ops.contains(k)).count();
            let bound = if quick && ops.len() == 3 && distinct_kinds < 3 { bound - 1 } else { bound };
            let a = life_race_case(idx, &ops, &mut Chooser::new(vec![]));
            let b = life_race_case(idx, &ops, &mut Chooser::new(vec![]));
            if a.labels != b.labels || a.outcome_key != b.outcome_key {
                lo.machinery = Some("nondeterministic replay".into());
                return lo;
            }
            let stats = choice::explore(
                bound,
                1,
                deadline,
                u64::MAX,
                |ch| {
                    let r = life_race_case(idx, &ops, ch);
                    (r, ch.diverged.clone())
                },
                |choices, (r, div)| {
                    lo.execs += 1;
                    lo.steps += r.steps as u64;
                    lo.keys.push(r.outcome_key);
                    if let Some(d) = div {
                        lo.machinery = Some(d);
                        return false;
                    }
                    if !r.problems.is_empty() {
                        lo.found.push((choices, r.problems));
                        return false;
                    }
                    true
                },
            );
            lo.capped = stats.capped;
            lo
        });
        for lo in outs {
            if let Some(m) = lo.machinery {
                vcore::report::machinery(&format!("life race {:?}: {m}", lo.ops));
            }
            run.add("executions", lo.execs);
            run.add("evaluations", lo.execs);
            run.add("transitions", lo.steps);
            run.add("life_race_executions", lo.execs);
            run.distinct(util::fnv64(format!("life {:?}", lo.ops).as_bytes()));
            let kinds: std::collections::BTreeSet<u64> = lo.keys.iter().copied().collect();
            if lo.ops.len() == 3 && run.get("life_race_samples") < 2 {
                run.add("life_race_samples", 1);
                run.sample(json!({"part": "life-race", "ops": format!("{:?}", lo.ops), "preemption_bound": bound, "executions": lo.execs, "distinct_outcome_kinds": kinds.len()}));
            }
            outcome_kinds.extend(lo.keys);
            for (choices, ps) in lo.found {
                for (sig, msg) in ps {
                    run.violation(Violation {
                        signature: format!("C06|{sig}"),
                        summary: format!("lifecycle race {:?}, schedule {choices:?}: {msg}", lo.ops),
                        replay: json!({"kind": "life-race", "ops": lo.ops, "choices": choices}),
                    });
                }
            }
            if lo.capped {
                run.cap_hit("time budget inside the lifecycle-race part");
            }
        }
    }

    // ---- Part B
    let transitions = vec![Call::CollClose, Call::DbCloseCollection, Call::DbDeleteCollection, Call::CollReadOnly, Call::DbReadOnly, Call::DbClose];
    let op_alpha = vec![
        Call::Op(Op::Add(3)),
        Call::Op(Op::Update(1, 0)),
        Call::Op(Op::Flush),
        Call::Op(Op::Remove(2)),
        Call::Op(Op::SaveExt(1)),
        Call::Op(Op::CompactBtree),
        Call::Op(Op::CompactBm25),
    ];
    let plan: Vec<(usize, u32)> = run.tier.pick(vec![(1, 2), (2, 1)], vec![(1, 3), (2, 2), (3, 1), (2, 3), (3, 2), (1, 4)]);
    let mut completed = Vec::new();
    'plan: for (k, bound) in plan {
        let mut sets: Vec<Vec<Call>> = Vec::new();
        fn rec(start: usize, k: usize, alpha: &[Call], cur: &mut Vec<Call>, out: &mut Vec<Vec<Call>>) {
            if cur.len() == k {
                out.push(cur.clone());
                return;
            }
            for i in start..alpha.len() {
                cur.push(alpha[i].clone());
                rec(i + 1, k, alpha, cur, out);
                cur.pop();
            }
        }
        rec(0, k, &op_alpha, &mut Vec::new(), &mut sets);
        let mut items: Vec<(Call, Vec<Call>)> = Vec::new();
        for t in &transitions {
            for ops in &sets {
                items.push((t.clone(), ops.clone()));
            }
        }
        struct SetOut {
            t: Call,
            ops: Vec<Call>,
            machinery: Option<String>,
            found: Vec<(Vec<u32>, Vec<(String, String)>)>,
            execs: u64,
            steps: u64,
            keys: Vec<u64>,
            stats: Option<choice::ExploreStats>,
            skipped: bool,
        }
        let outs = util::par_map(items, threads, |(t, ops)| {
            let mut so = SetOut { t: t.clone(), ops: ops.clone(), machinery: None, found: vec![], execs: 0, steps: 0, keys: vec![], stats: None, skipped: false };
            if Instant::now() > deadline {
                so.skipped = true;
                return so;
            }
            let a = race_case(idx, &t, &ops, &mut Chooser::new(vec![]));
            let b = race_case(idx, &t, &ops, &mut Chooser::new(vec![]));
            if a.labels != b.labels || a.outcome_key != b.outcome_key {
                so.machinery = Some(format!("nondeterministic replay for {t:?} vs {ops:?}"));
                return so;
            }
            let stats = choice::explore(
                bound,
                1,
                deadline,
                u64::MAX,
                |ch| {
                    let r = race_case(idx, &t, &ops, ch);
                    (r, ch.diverged.clone())
                },
                |choices, (r, div)| {
                    so.execs += 1;
                    so.steps += r.steps as u64;
                    so.keys.push(r.outcome_key);
                    if let Some(d) = div {
                        so.machinery = Some(d);
                        return false;
                    }
                    if !r.problems.is_empty() {
                        so.found.push((choices, r.problems));
                        return false;
                    }
                    true
                },
            );
            so.stats = Some(stats);
            so
        });
        let mut capped = false;
        for so in outs {
            if let Some(m) = so.machinery {
                vcore::report::machinery(&format!("{:?} vs {:?}: {m}", so.t, so.ops));
            }
            if so.skipped {
                capped = true;
                continue;
            }
            let (t, ops) = (so.t, so.ops);
            run.add("executions", so.execs);
            run.add("evaluations", so.execs);
            run.add("transitions", so.steps);
            run.add("race_sets", 1);
            run.distinct(util::fnv64(format!("race {t:?} {ops:?}").as_bytes()));
            outcome_kinds.extend(so.keys);
            let stats = so.stats.unwrap();
            if k == 2 {
                run.sample(json!({"part": "race", "transition": format!("{t:?}"), "ops": format!("{ops:?}"), "preemption_bound": bound, "executions": stats.executions, "per_bound_level": stats.per_level}));
            }
            for (choices, ps) in so.found {
                for (sig, msg) in ps {
                    run.violation(Violation {
                        signature: format!("C06|{sig}"),
                        summary: format!("{t:?} vs {ops:?} schedule {choices:?}: {msg}"),
                        replay: json!({"kind": "race", "transition": t, "ops": ops, "choices": choices}),
                    });
                }
            }
            if stats.capped {
                capped = true;
            }
        }
        if capped {
            run.cap_hit(&format!("time budget in race part at {k} ops, bound {bound}"));
            break 'plan;
        }
        completed.push(format!("every transition x every set of {k} operations, preemption bound {bound}"));
    }
    let ex = run.get("executions");
    run.add("traces_validated_against_impl", ex);
    run.add("states", (outcome_kinds.len() + cancel_states.len()) as u64);
    run.set("completed", json!(completed));
    run.set("cancel_handle_states", json!(cancel_states));
    run.rule("delete-fault: every backend mutation of delete_collection (clean and dirty collection) answered ErrBefore and ErrAfter: a delete that reports success leaves nothing under the prefix and unlists the collection; one that reports an error leaves a retired inert handle and a fault-free retry succeeds, after which nothing remains and the retained handle recreates nothing; cancel-in-close: each of 5 mutating calls in flight against each of close / close_collection / database close, the call's future dropped at any of its suspension points (a deviation), every schedule within the bound: once the cancellation has poisoned the handle nothing is written under the prefix, the handle stays Poisoned (the close must not succeed and turn it Closed), a reopen satisfies the C01/C02 oracles with the cancelled call all-or-nothing; delete-crash: delete_collection on a clean and on a dirty collection with the power failing after each of its backend mutations (and the completed call): a fresh process must reconnect; a collection that is still listed must be whole (C01/C02 oracles); one that is no longer listed must leave a usable name - after a retried delete by name nothing of it resurfaces in a collection created again under that name, which must itself be complete and accept writes; life-race: 2..3 (thorough 4) lifecycle calls on ONE collection name (close_collection, open_or_create with the index callback, delete_collection; 14 ordered sets) spawned together on a collection holding an acknowledged unflushed update, every schedule within the preemption bound: after a successful delete every handle is either retired and inert or an EMPTY collection created after it (listed, complete for a fresh process), nothing else remains under the prefix; without a delete the collection is listed, every Active handle agrees with the acknowledged history and close + reopen satisfies the C01/C02 oracles; fault: close / close_collection / flush with each of 4 unflushed acknowledged ops, every backend mutation of the call answered ErrBefore and ErrAfter: a non-Active handle rejects everything and writes nothing, reopening through the same database satisfies the C01/C02 oracles; poison-race: a call cancelled at any suspension point (a deviation) while another call is in flight, the caller then reopens through the same database - directly, and after a close_collection that fails on the poisoned handle - concurrently with the survivor, all schedules within the bound: the reopened handle satisfies the C01/C02 oracles with the survivor acknowledged and the victim all-or-nothing; cancel: each of 14 mutating APIs (clean and dirty collection) dropped after k polls for every k up to completion; race: each of 6 lifecycle transitions x every set of k operations from a 5-operation alphabet (always a dirty collection so flush/close write), every interleaving with <= B preemptions; oracle on the attributed mutation journal + retained-handle battery (10 mutating APIs, before and after set_read_only(false)) + reopen through the same database handle with the C01/C02 oracles; states = distinct (outcome vector, admission classification) kinds");
    run.assume("await granularity (one scheduling point per backend call and per async-lock wait); operations in one race set touch different documents so that a task blocked before its first backend call is waiting for admission (operation gate), not for a document lock");
    run.finish();
}

//! C03 — filters follow set algebra; a bounded page is an end of the full
//! result. Bounded-exhaustive enumeration (SCOPE) of filter trees over small
//! collections whose key order is de-correlated from id order, compared with
//! the set-algebra model for every limit and both entry points.

use anda_db::collection::Collection;
use anda_db::query::{Filter, Fv, Query, RangeQuery, Search};
use serde_json::json;
use std::sync::Arc;
use vcore::{Run, Tier, Violation, util};
use vdb::fixture::{self, Idx, VDoc, vdoc, vdoc_codes};
use vdb::model::DocModel;

fn datasets() -> Vec<(&'static str, Vec<VDoc>)> {
    vec![
        (
            "anti",
            vec![
                // codes: a UNIQUE array index; several keys of one document fall into one range
                vdoc_codes("zeta", 50, None, &["a", "b"], &["c8", "c1", "c5"], "alpha beta"),
                vdoc_codes("alpha", 10, Some(3), &["b"], &["c7"], "beta gamma"),
                vdoc_codes("mid", 5, Some(1), &[], &[], "alpha"),
                vdoc_codes("beta", 40, None, &["c", "a"], &["c2", "c9"], "gamma delta alpha"),
                vdoc_codes("omega", 10, Some(3), &["a"], &["c3", "c4", "c6"], "beta"),
                vdoc_codes("delta", 30, Some(2), &["b", "c"], &["c0"], "alpha alpha beta"),
            ],
        ),
        (
            "holes",
            // ids 1..7 with 2 and 5 removed afterwards: the id space has holes
            vec![
                vdoc_codes("n7", 7, Some(9), &["x"], &["k3", "k4"], "alpha"),
                vdoc_codes("n6", 6, None, &["y"], &["k9"], "beta"),
                vdoc_codes("n5", 7, Some(8), &["x", "y"], &["k1", "k7", "k8"], "alpha beta"),
                vdoc_codes("n4", 1, Some(9), &[], &[], "gamma"),
                vdoc_codes("n3", 6, Some(1), &["z"], &["k2", "k6"], "alpha gamma"),
                vdoc_codes("n2", 3, None, &["x", "z"], &["k5"], "beta beta"),
                vdoc_codes("n1", 1, Some(5), &["y", "z"], &["k0"], "delta"),
            ],
        ),
        (
            "many",
            // 24 documents; relevance (term frequency, closeness to the query vector)
            // GROWS with the id, so the best hits have the largest ids and every
            // search index alone already returns more candidates than a small page
            (1..=24u64)
                .map(|i| {
                    let body = format!("{} gamma", "alpha ".repeat(1 + (i as usize) / 3));
                    let tags: Vec<&str> = if i % 2 == 0 { vec!["even"] } else { vec![] };
                    let mut d = vdoc(&format!("m{i:02}"), 100 - i, if i % 3 == 0 { Some(i % 5) } else { None }, &tags, &body);
                    d.emb = fixture::emb_of(i, 0);
                    d
                })
                .collect(),
        ),
    ]
}

struct Data {
    name: &'static str,
    coll: Arc<Collection>,
    model: DocModel,
}

fn build(name: &'static str, docs: Vec<VDoc>) -> Data {
    let store = Arc::new(object_store::memory::InMemory::new());
    let (coll, model) = util::block_on(async {
        let db = fixture::connect(store).await.expect("connect");
        let coll = fixture::open_coll(
            &db,
            Idx {
                body: true,
                emb: true,
                codes: true,
                ..Idx::BTREES
            },
        )
        .await
        .expect("open");
        let mut model = DocModel::default();
        for mut d in docs {
            let id = coll.add_from(&d).await.expect("add");
            d._id = id;
            model.docs.insert(id, d);
        }
        if name == "holes" {
            for id in [2u64, 5] {
                coll.remove(id).await.expect("remove");
                model.docs.remove(&id);
            }
        }
        (coll, model)
    });
    Data { name, coll, model }
}

fn consts(data: &Data, field: &str) -> Vec<Fv> {
    match field {
        "_id" => {
            let max = data.model.docs.keys().max().copied().unwrap_or(0);
            let mut v: Vec<u64> = vec![0, 1, 2, 3, max, max + 1];
            v.sort();
            v.dedup();
            v.into_iter().map(Fv::U64).collect()
        }
        "age" | "opt" => {
            let mut ks: Vec<u64> = data
                .model
                .btree(field)
                .keys()
                .map(|k| match k {
                    vdb::model::Key::U(u) => *u,
                    _ => unreachable!(),
                })
                .collect();
            let max = ks.iter().max().copied().unwrap_or(0);
            ks.push(0);
            ks.push(max + 1);
            if let Some(min) = ks.iter().filter(|x| **x > 0).min().copied() {
                ks.push(min + 1);
            }
            ks.sort();
            ks.dedup();
            ks.into_iter().map(Fv::U64).collect()
        }
        "name" | "tags" | "codes" => {
            let mut ks: Vec<String> = data
                .model
                .btree(field)
                .keys()
                .map(|k| match k {
                    vdb::model::Key::S(s) => s.clone(),
                    _ => unreachable!(),
                })
                .collect();
            ks.push("".into());
            ks.push("zzzz".into());
            ks.push("b0".into());
            ks.sort();
            ks.dedup();
            if ks.len() > 7 {
                // keep boundary-spread subset
                let n = ks.len();
                ks = vec![
                    ks[0].clone(),
                    ks[1].clone(),
                    ks[n / 3].clone(),
                    ks[n / 2].clone(),
                    ks[2 * n / 3].clone(),
                    ks[n - 2].clone(),
                    ks[n - 1].clone(),
                ];
                ks.dedup();
            }
            ks.into_iter().map(Fv::Text).collect()
        }
        _ => unreachable!(),
    }
}

/// Atomic range queries over one field.
fn atoms(cs: &[Fv]) -> Vec<RangeQuery<Fv>> {
    let mut out = Vec::new();
    for c in cs {
        out.push(RangeQuery::Eq(c.clone()));
    }
    for c in cs {
        out.push(RangeQuery::Gt(c.clone()));
        out.push(RangeQuery::Ge(c.clone()));
        out.push(RangeQuery::Lt(c.clone()));
        out.push(RangeQuery::Le(c.clone()));
    }
    let n = cs.len();
    if n >= 2 {
        let pairs = [(0, n - 1), (1, n - 2), (1, 1), (n - 1, 0), (n - 2, 1), (0, 1), (n / 2, n - 1)];
        for (a, b) in pairs {
            if a < n && b < n {
                out.push(RangeQuery::Between(cs[a].clone(), cs[b].clone()));
            }
        }
        out.push(RangeQuery::Include(vec![]));
        out.push(RangeQuery::Include(vec![cs[1].clone()]));
        out.push(RangeQuery::Include(vec![cs[n - 1].clone(), cs[1].clone(), cs[n - 1].clone()]));
        out.push(RangeQuery::Include(cs.to_vec()));
        out.push(RangeQuery::Include(vec![cs[n / 2].clone(), cs[0].clone()]));
        // unsorted lists of EXISTING keys (the last constant lies beyond every key):
        // descending order, and a non-adjacent repeat
        out.push(RangeQuery::Include(cs.iter().rev().cloned().collect()));
        out.push(RangeQuery::Include(vec![cs[n - 2].clone(), cs[1].clone(), cs[n - 2].clone(), cs[2 % n].clone()]));
    }
    out
}

fn stride<T: Clone>(v: &[T], want: usize) -> Vec<T> {
    if v.len() <= want || want == 0 {
        return v.to_vec();
    }
    let mut out = Vec::new();
    for i in 0..want {
        out.push(v[i * v.len() / want].clone());
    }
    out
}

/// Range-level trees of depth <= 2 (and 3 in thorough) over one field.
fn range_trees(cs: &[Fv], tier: Tier) -> Vec<RangeQuery<Fv>> {
    let a = atoms(cs);
    let mut out = a.clone();
    for q in &a {
        out.push(RangeQuery::Not(Box::new(q.clone())));
    }
    let rep = stride(&a, tier.pick(9, 16));
    let mut depth2 = Vec::new();
    for x in &rep {
        for y in &rep {
            depth2.push(RangeQuery::And(vec![Box::new(x.clone()), Box::new(y.clone())]));
            depth2.push(RangeQuery::Or(vec![Box::new(x.clone()), Box::new(y.clone())]));
        }
    }
    // three-operand and nested forms
    let rep3 = stride(&depth2, tier.pick(8, 40));
    for d in &rep3 {
        out.push(RangeQuery::Not(Box::new(d.clone())));
        for x in stride(&rep, tier.pick(3, 6)) {
            out.push(RangeQuery::Or(vec![Box::new(d.clone()), Box::new(x.clone())]));
            out.push(RangeQuery::And(vec![
                Box::new(RangeQuery::Not(Box::new(x.clone()))),
                Box::new(d.clone()),
            ]));
        }
    }
    out.extend(depth2);
    // three-operand range-level conjunctions / disjunctions in every order over a
    // small operand set that contains negations: an operand after the second one
    // must still be applied when one key is left, and the result must not depend
    // on the operand order
    let mut rep_t: Vec<RangeQuery<Fv>> = stride(&a, tier.pick(5, 8));
    for x in stride(&a, 2) {
        rep_t.push(RangeQuery::Not(Box::new(x)));
    }
    for x in &rep_t {
        for y in &rep_t {
            for z in &rep_t {
                out.push(RangeQuery::And(vec![Box::new(x.clone()), Box::new(y.clone()), Box::new(z.clone())]));
                out.push(RangeQuery::Or(vec![Box::new(x.clone()), Box::new(y.clone()), Box::new(z.clone())]));
            }
        }
    }
    out
}

const FIELDS: [&str; 6] = ["_id", "age", "opt", "tags", "name", "codes"];

struct Case<'a> {
    data: &'a Data,
    filter: Filter,
}

#[derive(Default)]
struct Tally {
    evaluations: u64,
    filters: u64,
    nontrivial: Vec<u64>,
    violations: Vec<Violation>,
    sample: Option<serde_json::Value>,
    hybrid_candidates: u64,
}

fn shape(f: &Filter) -> String {
    fn rq(q: &RangeQuery<Fv>) -> String {
        match q {
            RangeQuery::Eq(_) => "Eq".into(),
            RangeQuery::Gt(_) => "Gt".into(),
            RangeQuery::Ge(_) => "Ge".into(),
            RangeQuery::Lt(_) => "Lt".into(),
            RangeQuery::Le(_) => "Le".into(),
            RangeQuery::Between(..) => "Between".into(),
            RangeQuery::Include(_) => "Include".into(),
            RangeQuery::Or(v) => format!("rOr({})", v.iter().map(|x| rq(x)).collect::<Vec<_>>().join(",")),
            RangeQuery::And(v) => format!("rAnd({})", v.iter().map(|x| rq(x)).collect::<Vec<_>>().join(",")),
            RangeQuery::Not(x) => format!("rNot({})", rq(x)),
        }
    }
    match f {
        Filter::Field((n, q)) => format!("{}:{}", if n == "_id" { "id" } else { "bt" }, rq(q)),
        Filter::And(v) => format!("And({})", v.iter().map(|x| shape(x)).collect::<Vec<_>>().join(",")),
        Filter::Or(v) => format!("Or({})", v.iter().map(|x| shape(x)).collect::<Vec<_>>().join(",")),
        Filter::Not(x) => format!("Not({})", shape(x)),
    }
}

fn limits(n: usize) -> Vec<Option<usize>> {
    let mut v = vec![None, Some(0)];
    for l in 1..=n + 1 {
        v.push(Some(l));
    }
    v.push(Some(Collection::MAX_SEARCH_LIMIT + 1));
    v
}

fn check_case(case: &Case, t: &mut Tally) {
    let data = case.data;
    let f = &case.filter;
    t.filters += 1;
    let expect: Vec<u64> = match data.model.eval_filter(f) {
        Ok(s) => s.into_iter().collect(),
        Err(e) => vcore::report::machinery(&format!("model cannot evaluate {f:?}: {e}")),
    };
    let n_live = data.model.docs.len();
    if !expect.is_empty() && expect.len() < n_live {
        t.nontrivial.push(util::fnv64(format!("{}|{:?}", data.name, f).as_bytes()));
    }
    let mut report = |t: &mut Tally, entry: &str, limit: Option<usize>, got: &dyn std::fmt::Debug, want: &[u64]| {
        let sig = format!("C03|{}|{}|{}", entry, if limit.is_some() { "bounded" } else { "unbounded" }, shape(f));
        t.violations.push(Violation {
            signature: sig,
            summary: format!(
                "dataset {} filter {:?} {}(limit={:?}) returned {:?}, set algebra gives {:?}",
                data.name, f, entry, limit, got, want
            ),
            replay: json!({"dataset": data.name, "filter": f, "entry": entry, "limit": limit, "expected": want}),
        });
    };
    util::block_on(async {
        t.evaluations += 1;
        match data.coll.query_all_ids(f.clone()).await {
            Ok(got) if got == expect => {}
            other => report(t, "query_all_ids", None, &other, &expect),
        }
        for limit in limits(n_live) {
            let k = limit.unwrap_or(usize::MAX).min(expect.len());
            let first = &expect[..k];
            let last = &expect[expect.len() - k..];
            t.evaluations += 2;
            match data.coll.query_ids(f.clone(), limit).await {
                Ok(got) if got == first => {}
                other => report(t, "query_ids", limit, &other, first),
            }
            match data.coll.query_last_ids(f.clone(), limit).await {
                Ok(got) if got == last => {}
                other => report(t, "query_last_ids", limit, &other, last),
            }
            // filter-only search: the first `limit` (default 10) ascending
            t.evaluations += 1;
            let k = limit.unwrap_or(10).min(expect.len());
            match data
                .coll
                .search_ids(Query {
                    search: None,
                    filter: Some(f.clone()),
                    limit,
                })
                .await
            {
                Ok(got) if got == expect[..k] => {}
                other => report(t, "search_ids(filter)", limit, &other, &expect[..k]),
            }
        }
    });
    if t.sample.is_none() && expect.len() > 1 && expect.len() < n_live {
        t.sample = Some(json!({"dataset": data.name, "filter": format!("{f:?}"), "full_result": expect}));
    }
}

/// Search + filter: relevance-ordered candidates restricted to the match set.
fn check_search(data: &Data, f: &Filter, t: &mut Tally) {
    // exact comparison is only valid where the candidate lists cannot exceed
    // limit*10 (documented candidate window); the 24-document dataset is checked
    // by the window-independent laws of `check_hybrid` instead
    if data.name == "many" {
        return;
    }
    let expect = match data.model.eval_filter(f) {
        Ok(s) => s,
        Err(_) => return,
    };
    for text in ["alpha", "beta gamma", "delta", "nomatch"] {
        util::block_on(async {
            let search = Search {
                text: Some(text.to_string()),
                ..Default::default()
            };
            let unfiltered = data
                .coll
                .search_ids(Query {
                    search: Some(search.clone()),
                    filter: None,
                    limit: Some(100),
                })
                .await
                .expect("unfiltered search");
            let want_all: Vec<u64> = unfiltered.iter().copied().filter(|i| expect.contains(i)).collect();
            for limit in [None, Some(1), Some(2), Some(3), Some(100)] {
                t.evaluations += 1;
                let k = limit.unwrap_or(10).min(want_all.len());
                let got = data
                    .coll
                    .search_ids(Query {
                        search: Some(search.clone()),
                        filter: Some(f.clone()),
                        limit,
                    })
                    .await;
                match got {
                    Ok(g) if g == want_all[..k] => {}
                    other => t.violations.push(Violation {
                        signature: format!("C03|search_ids(text+filter)|{}", shape(f)),
                        summary: format!(
                            "dataset {} text {:?} filter {:?} limit {:?}: got {:?}, relevance order restricted to the match set gives {:?}",
                            data.name, text, f, limit, other, &want_all[..k]
                        ),
                        replay: json!({"dataset": data.name, "filter": f, "entry": "search_ids(text+filter)", "text": text, "limit": limit, "expected": &want_all[..k]}),
                    }),
                }
            }
        });
    }
}

/// Hybrid (text + vector) search with a filter, on the dataset whose candidate
/// lists exceed the page: (1) every id returned matches the filter; (2) the
/// unfiltered answer for the same limit, restricted to the match set, is a
/// prefix of the filtered answer (same candidates, same relevance order);
/// (3) a filter that matches every document changes nothing.
fn check_hybrid(data: &Data, f: &Filter, t: &mut Tally) {
    let expect = match data.model.eval_filter(f) {
        Ok(s) => s,
        Err(_) => return,
    };
    let all = expect.len() == data.model.docs.len();
    let searches = [
        Search { text: Some("alpha".into()), vector: Some(vec![24.0, 1.0, 2.0, 3.0]), ..Default::default() },
        Search { text: Some("alpha gamma".into()), vector: Some(vec![1.0, 1.0, 2.0, 3.0]), ..Default::default() },
        Search { text: None, vector: Some(vec![24.0, 1.0, 2.0, 3.0]), ..Default::default() },
        Search { text: Some("alpha".into()), ..Default::default() },
    ];
    for search in searches {
        for limit in [Some(1usize), Some(2), Some(3), None] {
            util::block_on(async {
                t.evaluations += 1;
                let unfiltered = data.coll.search_ids(Query { search: Some(search.clone()), filter: None, limit }).await;
                let filtered = data.coll.search_ids(Query { search: Some(search.clone()), filter: Some(f.clone()), limit }).await;
                let (Ok(u), Ok(g)) = (&unfiltered, &filtered) else {
                    t.violations.push(Violation {
                        signature: format!("C03|search_ids(hybrid+filter)|error|{}", shape(f)),
                        summary: format!("dataset {} hybrid search {:?} filter {:?} limit {:?}: unfiltered {:?}, filtered {:?}", data.name, search.text, f, limit, unfiltered, filtered),
                        replay: json!({"dataset": data.name, "filter": f, "entry": "search_ids(hybrid+filter)", "limit": limit}),
                    });
                    return;
                };
                let prefix: Vec<u64> = u.iter().copied().filter(|i| expect.contains(i)).collect();
                let bad = if g.iter().any(|i| !expect.contains(i)) {
                    Some("returned an id outside the filter's match set")
                } else if !g.starts_with(&prefix) {
                    Some("the unfiltered answer restricted to the match set is not a prefix of the filtered answer")
                } else if all && g != u {
                    Some("a filter that matches every document changed the answer")
                } else {
                    None
                };
                if let Some(why) = bad {
                    t.violations.push(Violation {
                        signature: format!("C03|search_ids(hybrid+filter)|{}", shape(f)),
                        summary: format!(
                            "dataset {} search text {:?} vector {:?} filter {:?} limit {:?}: {why}: filtered {:?}, unfiltered {:?}, match set {:?}",
                            data.name, search.text, search.vector.as_ref().map(|v| v[0]), f, limit, g, u, expect
                        ),
                        replay: json!({"dataset": data.name, "filter": f, "entry": "search_ids(hybrid+filter)", "limit": limit}),
                    });
                }
            });
        }
    }
}

/// Candidate law of the hybrid search: every document one of the component searches
/// ranks inside the hybrid search's own window (top_k = 10 x limit per index, read off
/// through the single-index searches at limit 10 x L) IS a relevance-ordered candidate,
/// so a filter that matches exactly that document must return it - wherever the fusion
/// puts it - and a filter matching two such documents must return both for limit 2.
fn check_hybrid_candidates(data: &Data, t: &mut Tally) {
    let searches = [
        ("alpha", vec![24.0f32, 1.0, 2.0, 3.0]),
        ("alpha gamma", vec![1.0, 1.0, 2.0, 3.0]),
        ("beta", vec![12.0, 1.0, 2.0, 3.0]),
    ];
    for (text, vector) in searches {
        for l in [1usize, 2] {
            util::block_on(async {
                let window = Some(10 * l);
                let text_only = data.coll.search_ids(Query { search: Some(Search { text: Some(text.into()), ..Default::default() }), filter: None, limit: window }).await.expect("text search");
                let vec_only = data.coll.search_ids(Query { search: Some(Search { vector: Some(vector.clone()), ..Default::default() }), filter: None, limit: window }).await.expect("vector search");
                let mut cands: Vec<u64> = text_only.clone();
                for x in &vec_only {
                    if !cands.contains(x) {
                        cands.push(*x);
                    }
                }
                t.hybrid_candidates = t.hybrid_candidates.max(cands.len() as u64);
                let hybrid = Search { text: Some(text.into()), vector: Some(vector.clone()), ..Default::default() };
                let mut singles: Vec<(Filter, Vec<u64>)> = Vec::new();
                for x in &cands {
                    singles.push((Filter::Field(("_id".into(), RangeQuery::Eq(Fv::U64(*x)))), vec![*x]));
                    singles.push((Filter::Field(("_id".into(), RangeQuery::Include(vec![Fv::U64(*x)]))), vec![*x]));
                    let name = data.model.docs[x].name.clone();
                    singles.push((Filter::Field(("name".into(), RangeQuery::Eq(Fv::Text(name)))), vec![*x]));
                }
                if l == 2 {
                    // the two documents the component lists rank LAST: the ones a cut of the fused list loses first
                    if let (Some(a), Some(b)) = (text_only.last(), vec_only.last())
                        && a != b
                    {
                        singles.push((Filter::Field(("_id".into(), RangeQuery::Include(vec![Fv::U64(*a), Fv::U64(*b)]))), vec![*a, *b]));
                    }
                }
                for (f, want) in singles {
                    t.evaluations += 1;
                    let got = data.coll.search_ids(Query { search: Some(hybrid.clone()), filter: Some(f.clone()), limit: Some(l) }).await;
                    let ok = match &got {
                        Ok(g) => {
                            let mut a = g.clone();
                            a.sort_unstable();
                            let mut b = want.clone();
                            b.sort_unstable();
                            b.truncate(l.max(want.len().min(l)));
                            if want.len() <= l { a == b } else { a.len() == l && a.iter().all(|x| want.contains(x)) }
                        }
                        Err(_) => false,
                    };
                    if !ok {
                        t.violations.push(Violation {
                            signature: format!("C03|search_ids(hybrid+filter)|component-candidate-lost|{}", shape(&f)),
                            summary: format!(
                                "dataset {} hybrid search text {text:?} vector {:?} limit {l}: filter {f:?} matches exactly {want:?}, which the component searches rank inside the hybrid window (text {text_only:?}, vector {vec_only:?}), but the filtered search returned {got:?}",
                                data.name, vector[0]
                            ),
                            replay: json!({"dataset": data.name, "filter": f, "entry": "hybrid-candidates", "limit": l}),
                        });
                    }
                }
            });
        }
    }
}

fn main() {
    let mut run = Run::from_args("C03", "scope", "exploration");
    let sets: Vec<Data> = datasets().into_iter().map(|(n, d)| build(n, d)).collect();

    if let Some(file) = run.replay_file.clone() {
        let v: serde_json::Value = serde_json::from_slice(&std::fs::read(&file).expect("read replay")).expect("json");
        let r = &v["replay"];
        let data = sets.iter().find(|d| d.name == r["dataset"].as_str().unwrap()).expect("dataset");
        let filter: Filter = serde_json::from_value(r["filter"].clone()).expect("filter");
        let mut t = Tally::default();
        if r["entry"] == "hybrid-candidates" {
            check_hybrid_candidates(data, &mut t);
        }
        check_case(&Case { data, filter: filter.clone() }, &mut t);
        check_search(data, &filter, &mut t);
        if data.name == "many" {
            check_hybrid(data, &filter, &mut t);
        }
        for v in t.violations {
            run.violation(v);
        }
        run.add("evaluations", t.evaluations);
        run.finish();
    }

    // ---- enumerate
    let mut cases: Vec<Case> = Vec::new();
    for data in &sets {
        // depth 1: every range tree on every field
        let mut level1: Vec<Filter> = Vec::new();
        for field in FIELDS {
            let cs = consts(data, field);
            for q in range_trees(&cs, run.tier) {
                level1.push(Filter::Field((field.to_string(), q)));
            }
        }
        // representative leaves for composition: per field a stride over atoms + Not + one composite
        let mut rep: Vec<Filter> = Vec::new();
        for field in FIELDS {
            let cs = consts(data, field);
            let a = atoms(&cs);
            for q in stride(&a, run.tier.pick(7, 14)) {
                rep.push(Filter::Field((field.to_string(), q)));
            }
            let a2 = stride(&a, 3);
            rep.push(Filter::Field((
                field.to_string(),
                RangeQuery::Not(Box::new(a2[1].clone())),
            )));
            rep.push(Filter::Field((
                field.to_string(),
                RangeQuery::Or(vec![Box::new(a2[0].clone()), Box::new(a2[2].clone())]),
            )));
        }
        let mut level2: Vec<Filter> = Vec::new();
        for f in &level1 {
            level2.push(Filter::Not(Box::new(f.clone())));
        }
        for x in &rep {
            for y in &rep {
                level2.push(Filter::And(vec![Box::new(x.clone()), Box::new(y.clone())]));
                level2.push(Filter::Or(vec![Box::new(x.clone()), Box::new(y.clone())]));
            }
        }
        // every `_id` atom against every representative operand, in both positions: an
        // operand after the first is evaluated against the survivors of the earlier
        // ones, and the primary-key leaves have their own candidate-restricted code path
        let id_atoms = atoms(&consts(data, "_id"));
        for ia in &id_atoms {
            let leaf = Filter::Field(("_id".to_string(), ia.clone()));
            for y in &rep {
                level2.push(Filter::And(vec![Box::new(leaf.clone()), Box::new(y.clone())]));
                level2.push(Filter::And(vec![Box::new(y.clone()), Box::new(leaf.clone())]));
                level2.push(Filter::Or(vec![Box::new(y.clone()), Box::new(leaf.clone())]));
            }
        }
        // single-operand composites (the documented equivalence F == And([F]) == Or([F]))
        for x in &rep {
            level2.push(Filter::And(vec![Box::new(x.clone())]));
            level2.push(Filter::Or(vec![Box::new(x.clone())]));
        }
        level2.push(Filter::Or(vec![]));
        // depth 3: combinators over a stride of depth-2 trees and leaves
        let rep2 = stride(&level2, run.tier.pick(40, 220));
        let rep1 = stride(&rep, run.tier.pick(8, 24));
        let mut level3: Vec<Filter> = Vec::new();
        for d in &rep2 {
            level3.push(Filter::Not(Box::new(d.clone())));
            for x in &rep1 {
                level3.push(Filter::And(vec![Box::new(d.clone()), Box::new(x.clone())]));
                level3.push(Filter::Or(vec![Box::new(x.clone()), Box::new(d.clone())]));
                level3.push(Filter::And(vec![
                    Box::new(x.clone()),
                    Box::new(Filter::Not(Box::new(d.clone()))),
                    Box::new(x.clone()),
                ]));
            }
        }
        // three-operand conjunctions / disjunctions in every order: operands after
        // the first are evaluated against the survivors of the earlier ones, and
        // limit-aware operands (_id leaves, Not) must not see the page limit
        let mut rep3: Vec<Filter> = stride(&rep, run.tier.pick(10, 16));
        for f in stride(&rep, 3) {
            rep3.push(Filter::Not(Box::new(f)));
        }
        for a in &rep3 {
            for b in &rep3 {
                for c in &rep3 {
                    level3.push(Filter::And(vec![Box::new(a.clone()), Box::new(b.clone()), Box::new(c.clone())]));
                }
            }
        }
        for a in stride(&rep3, 6) {
            for b in stride(&rep3, 6) {
                for c in stride(&rep3, 6) {
                    level3.push(Filter::Or(vec![Box::new(a.clone()), Box::new(b.clone()), Box::new(c.clone())]));
                    level3.push(Filter::And(vec![
                        Box::new(a.clone()),
                        Box::new(Filter::Or(vec![Box::new(b.clone()), Box::new(c.clone())])),
                        Box::new(b.clone()),
                        Box::new(c.clone()),
                    ]));
                }
            }
        }
        run.add("filters_depth1", level1.len() as u64);
        run.add("filters_depth2", level2.len() as u64);
        run.add("filters_depth3", level3.len() as u64);
        for f in level1.into_iter().chain(level2).chain(level3) {
            cases.push(Case { data, filter: f });
        }
    }

    // hybrid candidate law (once per dataset with candidate lists longer than the page)
    for data in &sets {
        if data.name == "many" {
            let mut t = Tally::default();
            check_hybrid_candidates(data, &mut t);
            run.add("evaluations", t.evaluations);
            run.add("hybrid_candidate_law_cases", t.evaluations);
            run.set("hybrid_component_candidates_max", json!(t.hybrid_candidates));
            if t.hybrid_candidates <= 10 {
                vcore::report::machinery("hybrid candidate law is vacuous: the component searches never list more than top_k = 10 distinct documents");
            }
            for v in t.violations {
                run.violation(v);
            }
        }
    }
    let threads = util::n_threads();
    let chunks: Vec<Vec<Case>> = {
        let mut cs: Vec<Vec<Case>> = (0..threads * 4).map(|_| Vec::new()).collect();
        let n = cs.len();
        for (i, c) in cases.into_iter().enumerate() {
            cs[i % n].push(c);
        }
        cs
    };
    let tallies = util::par_map(chunks, threads, |chunk| {
        let mut t = Tally::default();
        for (i, c) in chunk.iter().enumerate() {
            check_case(c, &mut t);
            if i % 7 == 0 {
                check_search(c.data, &c.filter, &mut t);
            }
            if c.data.name == "many" && i % 3 == 0 {
                check_hybrid(c.data, &c.filter, &mut t);
            }
        }
        t
    });
    for t in tallies {
        run.add("evaluations", t.evaluations);
        run.add("filters", t.filters);
        for h in t.nontrivial {
            run.distinct(h);
        }
        if let Some(s) = t.sample {
            run.sample(s);
        }
        // simplest-first: violations arrive in enumeration order per chunk
        for v in t.violations {
            run.violation(v);
        }
    }
    run.rule(
        "all filter trees to depth 3 (range-level and filter-level And/Or/Not over Eq/Gt/Ge/Lt/Le/Between incl. inverted/Include incl. dup+empty) over _id and 5 B-tree indexes (scalar, optional, array, unique scalar, UNIQUE ARRAY whose documents hold several keys) of 2 collections with key order de-correlated from id order, x limits {None,0..n+1,MAX+1} x {query_ids, query_last_ids, query_all_ids, search_ids}; depth 2/3 composites over a deterministic stride of representative operands, plus EVERY `_id` atom against every representative operand in both positions; hybrid candidate law on the 24-document dataset: every document a component search ranks inside the hybrid window (read off through the single-index searches at limit 10 x L) is returned by the hybrid search under a filter matching exactly it (three filter spellings), for L in {1,2}; non-trivial = model result neither empty nor everything; distinct by (dataset, filter)",
    );
    run.assume("collections of 5-6 live documents plus one of 24 whose search candidate lists exceed the page (hybrid text+vector search with a filter: subset, prefix and tautology laws); constants from the boundary set of each index");
    run.finish();
}

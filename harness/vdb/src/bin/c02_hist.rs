//! C02 / C04 — explicit enumeration of operation histories (HIST) on the
//! real Collection. Every history to the depth bound is executed on a fresh
//! database; every call's result is compared with the sequential model
//! (accepted vs rejected, returned document / id), and after the last step
//! the full index<->document comparison runs on the live handle and again
//! after a flush + clean reopen (probe round).
//!
//! usage: c02_hist --property C02|C04 [--tier ..]

use serde_json::json;
use std::sync::Arc;
use std::time::{Duration, Instant};
use vcore::{Run, Violation, util};
use vdb::fixture::Idx;
use vdb::ops::{Fixture, IdxDelta, Op, SeqModel, probe_bound};
use vdb::oracle::full_compare;

fn alphabet(property: &str) -> (Idx, Vec<Op>) {
    if property == "C04" {
        // contested unique values: name (scalar), codes (array), (age,opt) tuple
        let idx = Idx {
            age_opt: true,
            opt_opt2: true,
            body: true,
            emb: false,
            ..Idx::ALL
        };
        let ops = vec![
            Op::Add(0),
            Op::Add(2), // contests name n0
            Op::Add(4), // contests code x and tuple (10,1)
            Op::Add(1),
            Op::Add(5), // contests code y
            Op::AddSparse(6), // tuple (opt, opt2) = (7, absent)
            Op::AddSparse(7), // tuple (opt, opt2) = (absent, 7): a different tuple
            Op::Add(7),       // the same tuple with an explicit null
            Op::AddInvalid,
            Op::Update(1, 1),  // name := n1
            Op::Update(2, 6),  // name := n0
            Op::Update(2, 9),  // several fields + contested name
            Op::Update(2, 10), // tuple := (10,1)
            Op::Update(2, 2),  // only the non-leading component of (age, opt): opt := null
            Op::Update(1, 17), // only the non-leading component of (opt, opt2): opt2 := 7
            Op::Update(2, 12), // codes := [q,x]
            Op::Update(2, 18), // codes := five fresh values around x
            Op::Update(1, 13), // codes := [] (releases x)
            Op::Update(1, 0),  // age := 40 (releases tuple)
            Op::UpdateUnknown(1),
            Op::Update(3, 0), // missing document
            Op::Remove(1),
            Op::Remove(2),
            Op::Flush,
            Op::Reopen,
        ];
        (idx, ops)
    } else {
        let ops = vec![
            Op::Add(0),
            Op::Add(1),
            Op::Add(2),
            Op::Add(3),
            Op::AddSparse(6), // composite tuple (opt, opt2) = (7, absent)
            Op::AddSparse(7), // composite tuple (absent, 7): another key, another posting
            Op::AddInvalid,
            Op::Update(1, 0),
            Op::Update(1, 2),
            Op::Update(1, 3),
            Op::Update(1, 4),
            Op::Update(1, 5),
            Op::Update(1, 7),
            Op::Update(1, 14),
            Op::Update(1, 15),
            Op::Update(1, 16),
            Op::Update(2, 8),
            Op::Update(2, 1),
            Op::Update(2, 18), // codes := five fresh values around one another document owns (rejected as a whole)
            Op::UpdateUnknown(1),
            Op::Remove(1),
            Op::Remove(2),
            Op::LoseAndReconcile(1),
            Op::Flush,
            Op::CompactBtree,
            Op::CompactBm25,
            Op::Reopen,
            Op::ReopenWith(IdxDelta::DropTags),
            Op::ReopenWith(IdxDelta::AddTags),
            Op::ReopenWith(IdxDelta::DropBody),
            Op::ReopenWith(IdxDelta::AddBody),
            Op::ReopenWith(IdxDelta::DropEmb),
            Op::ReopenWith(IdxDelta::AddEmb),
        ];
        (Idx::ALL, ops)
    }
}

struct Res {
    problems: Vec<(String, String)>, // (signature tail, message)
    steps: u64,
    compares: u64,
    rejected: u64,
    state_key: u64,
}

/// Runs one history; returns problems found.
/// Start states: empty, and two flushed documents sharing a non-unique key
/// (so that a single remove / update leaves a still-shared posting in a clean bucket).
fn prelude(kind: u8) -> Vec<Op> {
    match kind {
        0 | 2 => vec![],
        _ => vec![Op::Add(0), Op::Add(1), Op::Flush],
    }
}

/// Start 2 (C02 only): the empty collection with the two composite (always
/// unique) indexes in addition, so that composite key derivation - absent vs
/// null components, component position - is compared with the documents too.
fn idx_for(base: Idx, start: u8) -> Idx {
    if start == 2 {
        Idx {
            age_opt: true,
            opt_opt2: true,
            ..base
        }
    } else {
        base
    }
}

fn run_history(start_idx: Idx, pre: &[Op], hist: &[Op], probe: bool) -> Res {
    anda_db_utils::verif::set_clock(Some((1_700_000_000_000, 1)));
    anda_db_utils::verif::set_random_seed(Some(7));
    let store = Arc::new(object_store::memory::InMemory::new());
    let mut res = Res {
        problems: vec![],
        steps: 0,
        compares: 0,
        rejected: 0,
        state_key: 0,
    };
    util::block_on(async {
        let mut fx = match Fixture::open(store, start_idx).await {
            Ok(f) => f,
            Err(e) => {
                res.problems.push(("open".into(), format!("initial open failed: {e:?}")));
                return;
            }
        };
        let mut model = SeqModel::default();
        for op in pre {
            let out = fx.exec_any(op).await;
            if !out.is_ok() {
                res.problems.push(("prelude".into(), format!("prelude op {op:?} failed: {}", out.short())));
                return;
            }
            model.apply(op, &out);
        }
        for (i, op) in hist.iter().enumerate() {
            // index-dependent ops on an index that is not there are skipped by construction
            if matches!(op, Op::CompactBm25) && !fx.idx.body {
                continue;
            }
            let exp = model.expect(op, fx.idx);
            let out = fx.exec_any(op).await;
            res.steps += 1;
            if !out.is_ok() {
                res.rejected += 1;
            }
            if let Some(msg) = model.check_outcome(op, &exp, &out) {
                res.problems.push((format!("result|{}", op_kind(op)), format!("step {i}: {msg}")));
                return;
            }
            model.apply(op, &out);
            if matches!(op, Op::Reopen | Op::ReopenWith(_)) && !out.is_ok() {
                // a legitimately refused reopen (index creation failed on existing data)
                // leaves no usable handle: the history ends here
                res.state_key = util::fnv64(format!("refused-reopen|{:?}", model.docs.docs).as_bytes());
                return;
            }
        }
        let bad = full_compare(&fx.coll, &model.docs, fx.idx, probe_bound(&model)).await;
        res.compares += 1;
        if !bad.is_empty() {
            res.problems.push((
                format!("live|{}", class_of(&bad[0])),
                format!("after the history the live handle disagrees with the documents: {}", bad.join("; ")),
            ));
            return;
        }
        if probe {
            let out = fx.exec_any(&Op::Flush).await;
            if !out.is_ok() {
                res.problems.push(("probe-flush".into(), format!("flush after the history failed: {}", out.short())));
                return;
            }
            let out = fx.exec_any(&Op::Reopen).await;
            if !out.is_ok() {
                res.problems.push(("probe-reopen".into(), format!("clean reopen after the history failed: {}", out.short())));
                return;
            }
            let bad = full_compare(&fx.coll, &model.docs, fx.idx, probe_bound(&model)).await;
            res.compares += 1;
            if !bad.is_empty() {
                res.problems.push((
                    format!("reopened|{}", class_of(&bad[0])),
                    format!("after flush + clean reopen the handle disagrees with the documents: {}", bad.join("; ")),
                ));
            }
        }
        res.state_key = util::fnv64(format!("{:?}|{:?}", model.docs.docs, fx.idx).as_bytes());
    });
    res
}

fn op_kind(op: &Op) -> &'static str {
    match op {
        Op::Add(_) | Op::AddSparse(_) => "add",
        Op::AddInvalid => "add-invalid",
        Op::Update(..) => "update",
        Op::UpdateUnknown(_) => "update-unknown",
        Op::Remove(_) => "remove",
        Op::Get(_) => "get",
        Op::LoseAndReconcile(_) => "lose-and-reconcile",
        Op::SetExtSync(_) => "ext",
        Op::Flush => "flush",
        Op::CompactBtree | Op::CompactBm25 => "compact",
        Op::SaveExt(_) | Op::RemoveExt => "ext",
        Op::Reopen | Op::ReopenWith(_) => "reopen",
    }
}

fn class_of(msg: &str) -> String {
    msg.split_whitespace().take(2).collect::<Vec<_>>().join("-")
}

fn main() {
    let pre: Vec<String> = std::env::args().collect();
    let property = pre
        .iter()
        .position(|a| a == "--property")
        .and_then(|i| pre.get(i + 1).cloned())
        .unwrap_or_else(|| "C02".to_string());
    let mut run = Run::from_args(&property, "hist", "model_checking");
    let (idx, ops) = alphabet(&property);

    if let Some(file) = run.replay_file.clone() {
        let v: serde_json::Value = serde_json::from_slice(&std::fs::read(&file).expect("read")).expect("json");
        let hist: Vec<Op> = serde_json::from_value(v["replay"]["history"].clone()).expect("history");
        let start = v["replay"]["start"].as_u64().unwrap_or(0) as u8;
        vdb::fixture::set_config_variant(v["replay"]["config"].as_u64().unwrap_or(0) as u8);
        let r = run_history(idx_for(idx, start), &prelude(start), &hist, true);
        for (sig, msg) in r.problems {
            run.violation(Violation {
                signature: format!("{property}|hist|{sig}"),
                summary: format!("start {start} history {hist:?}: {msg}"),
                replay: json!({"history": hist, "start": start}),
            });
        }
        run.add("evaluations", 1);
        run.finish();
    }

    let deadline = Instant::now() + Duration::from_secs_f64(run.budget_s);
    let max_depth = run.tier.pick(3, 5);
    let threads = util::n_threads();
    let mut completed_depth = 0;
    let starts: Vec<u8> = if property == "C02" { vec![0, 1, 2] } else { vec![0, 1] };
    for depth in 1..=max_depth {
      for &start in &starts {
        // the preloaded start is explored one level less deep than the empty one
        if start >= 1 && depth == max_depth && max_depth > 2 {
            continue;
        }
        let pre = prelude(start);
        // all histories of exactly this depth (prefixes were covered at smaller depths)
        let total = (ops.len() as u64).pow(depth as u32);
        // estimate: stop before starting a level that cannot finish (measured rate)
        if depth > 1 {
            let done = run.get("executions").max(1);
            let rate = done as f64 / run.elapsed().max(0.001);
            let need = total as f64 / rate;
            if need > run.remaining_s() {
                run.cap_hit(&format!(
                    "time budget: depth {depth} needs ~{need:.0}s at {rate:.0} histories/s; completed depth {completed_depth}"
                ));
                break;
            }
        }
        let chunks: Vec<(u64, u64)> = {
            let n = (threads * 8) as u64;
            (0..n).map(|i| (i * total / n, (i + 1) * total / n)).collect()
        };
        let ops_ref = &ops;
        let results = util::par_map(chunks, threads, |(lo, hi)| {
            let mut out: Vec<(Vec<Op>, Res)> = Vec::new();
            let mut agg = (0u64, 0u64, 0u64, 0u64, Vec::<u64>::new());
            for n in lo..hi {
                if Instant::now() > deadline {
                    break;
                }
                let mut hist = Vec::with_capacity(depth);
                let mut x = n;
                for _ in 0..depth {
                    hist.push(ops_ref[(x % ops_ref.len() as u64) as usize].clone());
                    x /= ops_ref.len() as u64;
                }
                hist.reverse();
                let r = run_history(idx_for(idx, start), &pre, &hist, true);
                agg.0 += 1;
                agg.1 += r.steps;
                agg.2 += r.compares;
                agg.3 += r.rejected;
                agg.4.push(r.state_key);
                if !r.problems.is_empty() || n == lo {
                    out.push((hist, r));
                }
            }
            (out, agg)
        });
        let mut level_execs = 0;
        for (out, agg) in results {
            level_execs += agg.0;
            run.add("executions", agg.0);
            run.add("transitions", agg.1);
            run.add("evaluations", agg.2);
            run.add("rejected_operations", agg.3);
            for k in agg.4 {
                run.distinct(k);
            }
            for (hist, r) in out {
                if r.problems.is_empty() {
                    if hist.len() == max_depth.min(3) {
                        run.sample(json!({"history": format!("{hist:?}"), "verdict": "agrees"}));
                    }
                    continue;
                }
                for (sig, msg) in r.problems {
                    run.violation(Violation {
                        signature: format!("{property}|hist|{sig}"),
                        summary: format!("start {start} history {hist:?}: {msg}"),
                        replay: json!({"history": hist, "start": start}),
                    });
                }
            }
        }
        if level_execs < total {
            run.cap_hit(&format!("time budget hit inside depth {depth}: {level_execs}/{total} histories"));
            break;
        }
        if start == 0 {
            completed_depth = depth;
        }
      }
        if run.violation_count() > 0 {
            break; // shortest counterexamples first
        }
    }
    // ---- storage configuration variants (compression on; cache disabled / tiny byte-bounded
    // cache): every history to depth 2 from the empty and from the preloaded start state
    if property == "C02" && run.violation_count() == 0 {
        let ops_ref = &ops;
        for variant in [1u8, 2] {
            for &start in &[0u8, 1] {
                let pre = prelude(start);
                let mut hists: Vec<Vec<Op>> = ops.iter().map(|o| vec![o.clone()]).collect();
                for a in ops_ref {
                    for b in ops_ref {
                        hists.push(vec![a.clone(), b.clone()]);
                    }
                }
                let total = hists.len();
                let results = util::par_map(hists, threads, |hist| {
                    if Instant::now() > deadline {
                        return None;
                    }
                    vdb::fixture::set_config_variant(variant);
                    let r = run_history(idx_for(idx, start), &pre, &hist, true);
                    vdb::fixture::set_config_variant(0);
                    Some((hist, r))
                });
                let mut done = 0usize;
                for (hist, r) in results.into_iter().flatten() {
                    done += 1;
                    run.add("executions", 1);
                    run.add("config_variant_histories", 1);
                    run.add("transitions", r.steps);
                    run.add("evaluations", r.compares);
                    for (sig, msg) in r.problems {
                        run.violation(Violation {
                            signature: format!("{property}|hist|config{variant}|{sig}"),
                            summary: format!("storage configuration variant {variant}, start {start}, history {hist:?}: {msg}"),
                            replay: json!({"history": hist, "start": start, "config": variant}),
                        });
                    }
                }
                if done < total {
                    run.cap_hit(&format!("time budget inside the configuration-variant pass: variant {variant} start {start}: {done}/{total}"));
                }
            }
        }
    }
    let states = run.distinct_count() as u64;
    run.add("states", states);
    let ex = run.get("executions");
    run.add("traces_validated_against_impl", ex);
    run.set("completed_depth", json!(completed_depth));
    run.set("alphabet", json!(ops.iter().map(|o| format!("{o:?}")).collect::<Vec<_>>()));
    run.rule(&format!(
        "every history of length 1..={completed_depth} from the empty collection, and one level less from a start state with two flushed documents sharing a non-unique key and (C02) from the empty collection with the two composite unique indexes (age,opt) and (opt,opt2) added, over the {}-operation alphabet (accepted and rejected writes, flush, compaction, clean reopen, index create+backfill/removal through the open callback) executed on a fresh database; states = distinct final (documents, index set) model states; a history is non-trivial when it ran to the end",
        ops.len()
    ));
    run.assume("sequential histories on one handle; documents from 6 templates, 14 update templates; main search with compression off and the default cache, every history to depth 2 again with zstd level 3 + cache disabled and with zstd level 1 + a 300-byte cache");
    run.finish();
}

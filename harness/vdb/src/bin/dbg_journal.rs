//! Development aid: prints the backend mutation journal of one workload.
use vdb::crash::{self, Backend};
use vdb::fixture::Idx;
use vdb::ops::Op;
fn main() {
    let w = vec![Op::Add(0), Op::Add(1), Op::Flush, Op::Update(1, 0), Op::Flush];
    vcore::util::block_on(async {
        for b in [Backend::Mem, Backend::Meta] {
            let rec = crash::record(&w, Idx::ALL, b, None).await;
            println!("== {b:?} created_at={}", rec.created_at);
            for r in &rec.ops {
                println!("-- {:?} [{}..{})", r.op, r.start, r.end);
                for (i, e) in rec.journal[r.start..r.end].iter().enumerate() {
                    println!("   {} task={} call={} {}", r.start + i, e.task, e.call, e.mutation.label());
                }
            }
        }
    });
}

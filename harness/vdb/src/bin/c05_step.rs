//! C05 (and the await-level part of C04) — concurrent writers serialize.
//! STEP: every set of 2..4 concurrent API calls from the alphabet is run as
//! tasks over a gated store; all interleavings of their storage-level steps
//! with at most B preemptions are enumerated (iterative context bounding);
//! each complete execution is checked by a Wing-Gong search against the
//! sequential model (return values + final documents/indexes/counts).
//!
//! usage: c05_step --property C05|C04

use serde_json::json;
use std::time::{Duration, Instant};
use vcore::choice::{self, Chooser};
use vcore::step::RunEnd;
use vcore::{Run, Violation, util};
use vdb::conc::{self, Start, canon_labels};
use vdb::fixture::Idx;
use vdb::ops::Op;

fn alphabet(property: &str) -> (Idx, Vec<Op>) {
    if property == "C04" {
        // writers contending for one unique value (name n0 is held by doc 1,
        // code x by doc 1, tuple (10,1) by doc 1; doc 2 holds n1 / y)
        (
            Idx {
                age_opt: true,
                opt_opt2: true,
                emb: false,
                ..Idx::ALL
            },
            vec![
                Op::Add(2),        // wants name n0
                Op::Update(2, 6),  // wants name n0
                Op::Remove(1),     // releases n0 / x / (10,1)
                Op::Update(1, 1),  // doc1 name := n1 (held by 2) -> rejected unless 2 changed
                Op::Add(4),        // wants code x and tuple (10,1)
                Op::Update(1, 13), // releases code x
                Op::Update(1, 0),  // releases tuple (age := 40)
                Op::Update(2, 12), // wants code x
                Op::Update(2, 10), // wants tuple (10,1)
                Op::Add(3),        // uncontended
            ],
        )
    } else {
        (
            Idx::ALL,
            vec![
                Op::Add(3),
                Op::Add(5),
                Op::Update(1, 0),
                Op::Update(1, 5),
                Op::Update(2, 8),
                Op::Remove(1),
                Op::Remove(1),
                Op::Get(1),
                Op::SaveExt(1),
                Op::Flush,
                Op::Update(1, 7),
                Op::Remove(2),
                Op::SaveExt(2),
                Op::RemoveExt,
                Op::SetExtSync(3),
            ],
        )
    }
}

fn subsets(n: usize, k: usize) -> Vec<Vec<usize>> {
    let mut out = Vec::new();
    fn rec(start: usize, n: usize, k: usize, cur: &mut Vec<usize>, out: &mut Vec<Vec<usize>>) {
        if cur.len() == k {
            out.push(cur.clone());
            return;
        }
        for i in start..n {
            cur.push(i);
            rec(i + 1, n, k, cur, out);
            cur.pop();
        }
    }
    rec(0, n, k, &mut Vec::new(), &mut out);
    out
}

struct ExecVerdict {
    problem: Option<(String, String)>,
    steps: usize,
    outcome_key: u64,
    labels: Vec<String>,
}

/// `variant`: storage configuration variant (see vdb::fixture::db_config); set on the
/// executing thread, because the explorer runs executions on its own worker threads.
fn one_execution(idx: Idx, start_kind: Start, variant: u8, ops: &[Op], ch: &mut Chooser) -> ExecVerdict {
    vdb::fixture::set_config_variant(variant);
    let live = conc::open_live_at(idx, start_kind);
    let coll = live.fx.coll.clone();
    let out = conc::run_ops(&live, &coll, ops, ch, 4000);
    let labels = canon_labels(&out.labels);
    let steps = out.steps;
    let outcome_key = util::fnv64(format!("{:?}", out.outcomes.iter().map(|o| o.as_ref().map(|x| x.short())).collect::<Vec<_>>()).as_bytes());
    let problem = match &out.end {
        RunEnd::Deadlock(who) => Some(("deadlock".to_string(), format!("deadlock: tasks {who:?} blocked forever"))),
        RunEnd::StepLimit => Some(("livelock".to_string(), "no completion within 4000 scheduling steps".to_string())),
        RunEnd::AllDone => {
            let start = &conc::preloaded_at(idx, start_kind).model;
            match conc::linearize(&live, &coll, idx, start, ops, &out) {
                Ok(order) => conc::check_flush_snapshot(idx, start, ops, &out, &order)
                    .into_iter()
                    .chain(conc::check_final_durability(&live, &coll, idx, start, ops, &out, &order))
                    .next(),
                Err(why) => Some((
                    "not-linearizable".to_string(),
                    format!(
                        "results {:?} with the final state are not explained by any order of the calls: {why}",
                        out.outcomes.iter().map(|o| o.as_ref().map(|x| x.short())).collect::<Vec<_>>()
                    ),
                )),
            }
        }
    };
    ExecVerdict {
        problem,
        steps,
        outcome_key,
        labels,
    }
}

fn main() {
    let pre: Vec<String> = std::env::args().collect();
    let property = pre
        .iter()
        .position(|a| a == "--property")
        .and_then(|i| pre.get(i + 1).cloned())
        .unwrap_or_else(|| "C05".to_string());
    let mut run = Run::from_args(&property, "step", "model_checking");
    let (idx, alpha) = alphabet(&property);

    if let Some(file) = run.replay_file.clone() {
        let v: serde_json::Value = serde_json::from_slice(&std::fs::read(&file).expect("read")).expect("json");
        let ops: Vec<Op> = serde_json::from_value(v["replay"]["ops"].clone()).expect("ops");
        let choices: Vec<u32> = serde_json::from_value(v["replay"]["choices"].clone()).expect("choices");
        let mut ch = Chooser::new(choices.clone());
        let start_kind: Start = v["replay"].get("start").and_then(|s| serde_json::from_value(s.clone()).ok()).unwrap_or(Start::Two);
        let variant = v["replay"].get("config").and_then(|c| c.as_u64()).unwrap_or(0) as u8;
        let verdict = one_execution(idx, start_kind, variant, &ops, &mut ch);
        if let Some(d) = ch.diverged {
            vcore::report::machinery(&format!("replay diverged: {d}"));
        }
        run.add("executions", 1);
        if let Some((sig, msg)) = verdict.problem {
            run.violation(Violation {
                signature: format!("{property}|step|{sig}"),
                summary: format!("ops {ops:?} schedule {choices:?}: {msg}"),
                replay: json!({"ops": ops, "choices": choices}),
            });
        }
        run.finish();
    }

    let deadline = Instant::now() + Duration::from_secs_f64(run.budget_s);
    let threads = util::n_threads();
    // (set size, preemption bound)
    // (family, start state, alphabet, set size, preemption bound)
    let main_plan: Vec<(usize, u32)> = run.tier.pick(vec![(2, 2), (3, 1)], vec![(2, 3), (3, 2), (4, 1), (3, 3), (2, 4), (4, 2)]);
    let mut plan: Vec<(&str, Start, Vec<Op>, usize, u32, u8)> = main_plan.iter().map(|(k, b)| ("main", Start::Two, alpha.clone(), *k, *b, 0u8)).collect();
    if property == "C05" {
        // calls on the id a concurrent add is about to receive (ids are sequential, the next one is 3)
        let fresh = vec![Op::Add(3), Op::Add(5), Op::Remove(3), Op::Update(3, 0), Op::Get(3), Op::Flush, Op::Remove(3)];
        // adds straddling the allocation-watermark stride: 65 flushed documents, the next id (66) is the
        // first one above the published watermark; Add(101) is rejected in the index phase (unique name of document 1)
        let stride = vec![Op::Add(101), Op::Add(3), Op::Add(5), Op::Add(102), Op::Remove(66), Op::Flush];
        // storage configuration variants: 1 = zstd + cache disabled, 2 = zstd + a 300-byte cache (constant eviction)
        let extra: Vec<(&str, Start, Vec<Op>, usize, u32, u8)> = run.tier.pick(
            vec![("fresh-id", Start::Two, fresh.clone(), 2, 2, 0), ("fresh-id", Start::Two, fresh.clone(), 3, 1, 0), ("watermark-stride", Start::Bulk64, stride.clone(), 2, 2, 0), ("watermark-stride", Start::Bulk64, stride.clone(), 3, 1, 0),
                 ("main/cache-disabled", Start::Two, alpha.clone(), 2, 1, 1), ("main/tiny-cache", Start::Two, alpha.clone(), 2, 1, 2), ("fresh-id/tiny-cache", Start::Two, fresh.clone(), 2, 2, 2)],
            vec![("fresh-id", Start::Two, fresh.clone(), 2, 3, 0), ("fresh-id", Start::Two, fresh.clone(), 3, 2, 0), ("fresh-id", Start::Two, fresh.clone(), 4, 1, 0), ("watermark-stride", Start::Bulk64, stride.clone(), 2, 3, 0), ("watermark-stride", Start::Bulk64, stride.clone(), 3, 2, 0), ("watermark-stride", Start::Bulk64, stride.clone(), 4, 1, 0),
                 ("main/cache-disabled", Start::Two, alpha.clone(), 2, 3, 1), ("main/tiny-cache", Start::Two, alpha.clone(), 2, 3, 2), ("main/cache-disabled", Start::Two, alpha.clone(), 3, 1, 1), ("main/tiny-cache", Start::Two, alpha.clone(), 3, 1, 2), ("fresh-id/tiny-cache", Start::Two, fresh.clone(), 3, 2, 2)],
        );
        // small families first: they are cheap and must not be starved by the main alphabet
        plan = extra.into_iter().chain(plan).collect();
    }
    let mut completed: Vec<String> = Vec::new();
    let mut outcome_kinds = std::collections::BTreeSet::new();
    'plan: for (family, start_kind, alpha, k, bound, variant) in plan {
        let sets = subsets(alpha.len(), k);
        struct SetOut {
            ops: Vec<Op>,
            machinery: Option<String>,
            found: Vec<(Vec<u32>, (String, String))>,
            execs: u64,
            steps: u64,
            outcome_keys: Vec<u64>,
            stats: Option<choice::ExploreStats>,
            skipped: bool,
        }
        let alpha_ref = &alpha;
        let outs = util::par_map(sets.clone(), threads, |set| {
            let ops: Vec<Op> = set.iter().map(|i| alpha_ref[*i].clone()).collect();
            let mut so = SetOut { ops: ops.clone(), machinery: None, found: vec![], execs: 0, steps: 0, outcome_keys: vec![], stats: None, skipped: false };
            if Instant::now() > deadline {
                so.skipped = true;
                return so;
            }
            // determinism self-check: the default schedule twice
            let a = one_execution(idx, start_kind, variant, &ops, &mut Chooser::new(vec![]));
            let b = one_execution(idx, start_kind, variant, &ops, &mut Chooser::new(vec![]));
            if a.labels != b.labels || a.outcome_key != b.outcome_key {
                so.machinery = Some(format!("nondeterministic replay for ops {ops:?}: {:?} vs {:?}", a.labels, b.labels));
                return so;
            }
            let stats = choice::explore(
                bound,
                1,
                deadline,
                u64::MAX,
                |ch| {
                    let v = one_execution(idx, start_kind, variant, &ops, ch);
                    (v, ch.diverged.clone())
                },
                |choices, (v, div)| {
                    so.execs += 1;
                    so.steps += v.steps as u64;
                    so.outcome_keys.push(v.outcome_key);
                    if let Some(d) = div {
                        so.machinery = Some(d);
                        return false;
                    }
                    if let Some(p) = v.problem {
                        so.found.push((choices, p));
                        return false; // first (fewest-deviation) counterexample
                    }
                    true
                },
            );
            so.stats = Some(stats);
            so
        });
        let mut sets_done = 0usize;
        let mut capped = false;
        for so in outs {
            if let Some(m) = so.machinery {
                vcore::report::machinery(&format!("ops {:?}: {m}", so.ops));
            }
            if so.skipped {
                capped = true;
                continue;
            }
            let ops = so.ops;
            run.add("executions", so.execs);
            run.add("transitions", so.steps);
            run.add("evaluations", so.execs);
            run.add("op_sets", 1);
            run.distinct(util::fnv64(format!("{ops:?}").as_bytes()));
            outcome_kinds.extend(so.outcome_keys);
            let stats = so.stats.unwrap();
            if sets_done < 2 {
                run.sample(json!({"ops": format!("{ops:?}"), "preemption_bound": bound, "executions": stats.executions, "max_choice_points": stats.max_depth, "per_bound_level": stats.per_level}));
            }
            for (choices, (sig, msg)) in so.found {
                run.violation(Violation {
                    signature: format!("{property}|step|{sig}|{}", ops.iter().map(kind).collect::<Vec<_>>().join("+")),
                    summary: format!("ops {ops:?} schedule {choices:?}: {msg}"),
                    replay: json!({"ops": ops, "choices": choices, "start": start_kind, "config": variant}),
                });
            }
            if stats.capped {
                capped = true;
            } else {
                sets_done += 1;
            }
        }
        if capped {
            run.cap_hit(&format!("time budget: family {family}: {sets_done}/{} op sets of size {k} completed at preemption bound {bound}", sets.len()));
            break 'plan;
        }
        completed.push(format!("{family}: {k} concurrent calls: all {} op sets, preemption bound {bound}", sets.len()));
    }
    let ex = run.get("executions");
    run.add("traces_validated_against_impl", ex);
    run.add("states", outcome_kinds.len() as u64);
    run.set("completed", json!(completed));
    run.set("distinct_outcome_vectors", json!(outcome_kinds.len()));
    run.set("alphabet", json!(alpha.iter().map(|o| format!("{o:?}")).collect::<Vec<_>>()));
    run.rule("every subset of k concurrent calls of the alphabet, on a collection preloaded with two flushed documents; every interleaving of their backend-call steps with <= B preemptions (each backend call is a scheduling point before it takes effect; tasks also switch when blocked on an async lock); oracle = exists an order respecting per-document real-time order that reproduces all return values on the sequential model and whose final model state equals the implementation's documents, indexes and counts; states = distinct outcome vectors observed; determinism self-check: default schedule run twice with identical backend-call label sequences");
    run.assume("await granularity: code between two suspension points runs atomically (single-threaded executor, as the property's quantifier states); OS-thread parallelism inside the sync index calls is covered by the THREAD parts");
    run.finish();
}

fn kind(op: &Op) -> &'static str {
    match op {
        Op::Add(_) | Op::AddSparse(_) => "add",
        Op::Update(..) => "update",
        Op::Remove(_) => "remove",
        Op::Get(_) => "get",
        Op::Flush => "flush",
        Op::SaveExt(_) => "ext",
        _ => "other",
    }
}

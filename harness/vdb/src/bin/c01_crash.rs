//! C01 — flushed documents survive any crash; recovery converges.
//! HIST enumerates workloads; CRASH enumerates every journal prefix of each
//! workload (power loss after the k-th backend mutation), recovers, checks
//! the acknowledgement model + the full index comparison + the continuation,
//! then crashes again at every prefix of the recovery's own writes.
//! A second pass injects, for every single backend mutation of every
//! workload, the ambiguous failure "the write landed but an error was
//! returned".

use parking_lot::Mutex;
use serde_json::json;
use std::collections::HashSet;
use std::time::{Duration, Instant};
use vcore::{Run, Violation, ctlstore, util};
use vdb::crash::{self, Backend, Expectation};
use vdb::fixture::Idx;
use vdb::ops::{IdxDelta, Op};

fn alphabet() -> Vec<Op> {
    vec![
        Op::Add(0),
        Op::Add(1),
        Op::Flush,
        Op::Update(1, 0),
        Op::Remove(1),
        Op::Update(1, 5),
        Op::Add(2), // rejected: unique name taken (when 1 is live)
        Op::Update(2, 8),
        Op::Remove(2),
        Op::Reopen,
        Op::SaveExt(1),
        Op::CompactBtree,
        Op::CompactBm25,
        Op::ReopenWith(IdxDelta::DropTags),
        Op::ReopenWith(IdxDelta::AddTags),
        Op::ReopenWith(IdxDelta::DropEmb),
        Op::ReopenWith(IdxDelta::AddEmb),
        Op::ReopenWith(IdxDelta::AddBody),
    ]
}

#[derive(Default)]
struct Tally {
    crash_states: u64,
    recoveries: u64,
    nontrivial: u64,
    nested: u64,
    dedup_hits: u64,
    remedy_used: u64,
    in_flight_states: u64,
    fault_runs: u64,
    cut_states: u64,
    cut_regions: u64,
    problems: Vec<(String, String, serde_json::Value)>,
    sample: Option<serde_json::Value>,
}

thread_local! {
    /// whether recoveries on this worker are crashed again at every prefix of their own writes
    static NESTED: std::cell::Cell<bool> = const { std::cell::Cell::new(true) };
}

struct Shared {
    seen: Mutex<HashSet<(u64, u64, Backend)>>,
}

async fn check_crash_state(
    content: &ctlstore::Content,
    exp: &Expectation,
    backend: Backend,
    nested: bool,
    shared: &Shared,
    t: &mut Tally,
    ctx: &serde_json::Value,
) {
    let key = (ctlstore::content_hash(content), exp.key(), backend);
    if !shared.seen.lock().insert(key) {
        t.dedup_hits += 1;
        return;
    }
    t.recoveries += 1;
    if !exp.images.is_empty() {
        t.nontrivial += 1;
    }
    let mut push = |t: &mut Tally, sig: String, msg: String| {
        t.problems.push((sig, msg, ctx.clone()));
    };
    let rec = match crash::recover(content, exp, backend).await {
        Ok(r) => r,
        Err(e) => {
            push(t, format!("recover|{}", if nested { "nested" } else { "first" }), e);
            return;
        }
    };
    if rec.used_remedy {
        t.remedy_used += 1;
    }
    let recovery_journal = rec.ctl.journal();
    let mut fx = rec.fx;
    let (problems, resolved) = crash::check_state(&fx, exp).await;
    let had_problems = !problems.is_empty();
    for (sig, msg) in problems {
        push(t, format!("{}|{sig}", if nested { "nested" } else { "first" }), msg);
    }
    if had_problems {
        return;
    }
    // convergence: a clean reopen right after recovery shows the same state
    // (quick: after first-level recoveries; thorough: after nested ones too)
    let sr = if nested && std::env::var("VERIF_C01_NESTED_SECOND_REOPEN").is_err() { Vec::new() } else { crash::second_reopen(&mut fx, exp, &resolved).await };
    let sr_bad = !sr.is_empty();
    for (sig, msg) in sr {
        push(t, format!("{}|{sig}", if nested { "nested" } else { "first" }), msg);
    }
    if sr_bad {
        return;
    }
    for (sig, msg) in crash::continuation(&mut fx, exp, &resolved).await {
        push(t, format!("{}|{sig}", if nested { "nested" } else { "first" }), msg);
    }
    if !nested && NESTED.with(|n| n.get()) {
        // crash again at every strict prefix of the recovery's own mutations
        let mut c = content.clone();
        for (j, e) in recovery_journal.iter().enumerate() {
            ctlstore::apply(&mut c, &e.mutation);
            if j + 1 == recovery_journal.len() {
                break;
            }
            t.nested += 1;
            let mut ctx2 = ctx.clone();
            ctx2["nested_crash_after_recovery_mutation"] = json!(j + 1);
            Box::pin(check_crash_state(&c, exp, backend, true, shared, t, &ctx2)).await;
        }
    }
}

fn bulk_prelude() -> Vec<Op> {
    // 64 flushed documents: the next add gets id 65 = the first published allocation watermark
    let mut v: Vec<Op> = (1..=64u8).map(|k| Op::Add(100 + k)).collect();
    v.push(Op::Flush);
    v
}

fn run_workload(prelude: &[Op], workload: &[Op], start_idx: Idx, backend: Backend, faults: bool, creation: bool, shared: &Shared) -> Tally {
    let mut t = Tally::default();
    util::block_on(async {
        let rec = crash::record_with_prelude(prelude, workload, start_idx, backend, None).await;
        if let Some(e) = &rec.open_error {
            t.problems.push(("record|open".into(), format!("fault-free open failed: {e}"), json!({})));
            return;
        }
        let mut content = ctlstore::Content::new();
        for k in 0..=rec.journal.len() {
            if k > 0 {
                ctlstore::apply(&mut content, &rec.journal[k - 1].mutation);
            }
            if k < rec.prelude_end {
                continue;
            }
            // the creation phase is the same for every workload: enumerate its crash points once per backend
            if k < rec.created_at && !creation {
                continue;
            }
            let exp = crash::expectation_at(&rec, k);
            t.crash_states += 1;
            if exp.in_flight.is_some() {
                t.in_flight_states += 1;
            }
            let ctx = json!({"workload": workload, "prelude": prelude, "start_idx": start_idx, "backend": backend, "crash_after_mutation": k,
                             "last_mutation": if k > 0 { rec.journal[k-1].mutation.label() } else { "none".into() },
                             "in_flight": exp.in_flight});
            check_crash_state(&content, &exp, backend, false, shared, &mut t, &ctx).await;
            if t.sample.is_none() && exp.in_flight.is_some() && k > rec.created_at {
                t.sample = Some(json!({"workload": format!("{workload:?}"), "backend": format!("{backend:?}"), "crash_after_mutation": k,
                    "journal_len": rec.journal.len(), "last_mutation": rec.journal[k-1].mutation.label(), "in_flight": exp.in_flight,
                    "candidate_images": exp.images.iter().map(|(i,c)| (i.to_string(), c.len())).collect::<std::collections::BTreeMap<_,_>>()}));
            }
        }
        if faults {
            let first_fault = if creation || !prelude.is_empty() { 0 } else { rec.ops.first().map(|r| r.att_start).unwrap_or(0) };
            for (i, answer) in (first_fault..(rec.attempts - rec.prelude_attempts)).flat_map(|i| [(i, vcore::ctlstore::Answer::ErrAfter), (i, vcore::ctlstore::Answer::ErrBefore)]) {
                crash::FAULT_ANSWER.with(|a| a.set(answer));
                let frec = crash::record_with_prelude(prelude, workload, start_idx, backend, Some(i)).await;
                crash::FAULT_ANSWER.with(|a| a.set(vcore::ctlstore::Answer::ErrAfter));
                t.fault_runs += 1;
                for (sig, msg) in &frec.live_problems {
                    t.problems.push((sig.clone(), msg.clone(), json!({"workload": workload, "prelude": prelude, "start_idx": start_idx, "backend": backend, "ambiguous_failure_at_mutation": i, "fault_answer": format!("{answer:?}")})));
                }
                let exp = crash::expectation_after_fault(&frec, frec.prelude_attempts + i);
                let ctx = json!({"workload": workload, "prelude": prelude, "start_idx": start_idx, "fault_answer": format!("{answer:?}"), "backend": backend, "ambiguous_failure_at_mutation": i,
                                 "outcomes": frec.ops.iter().map(|r| r.out.short()).collect::<Vec<_>>()});
                check_crash_state(&frec.final_content, &exp, backend, false, shared, &mut t, &ctx).await;
            }
        }
    });
    t
}

/// Cut pass: for every flush-bearing operation of the workload, every combination
/// of per-index write prefixes that is not a journal prefix (see crash::cut_regions).
fn run_cuts(prelude: &[Op], workload: &[Op], start_idx: Idx, backend: Backend, max_partial: Option<usize>, only: Option<(usize, Vec<usize>)>, shared: &Shared) -> Tally {
    let mut t = Tally::default();
    util::block_on(async {
        let rec = crash::record_with_prelude(prelude, workload, start_idx, backend, None).await;
        if let Some(e) = &rec.open_error {
            t.problems.push(("record|open".into(), format!("fault-free open failed: {e}"), json!({})));
            return;
        }
        for region in crash::cut_regions(&rec) {
            if region.start < rec.prelude_end {
                continue;
            }
            if let Some((op, _)) = &only
                && *op != region.op
            {
                continue;
            }
            t.cut_regions += 1;
            let exp = crash::cut_expectation(&rec, &region);
            let vectors = match &only {
                Some((_, v)) => vec![v.clone()],
                None => crash::cut_vectors(&region, max_partial),
            };
            for lens in vectors {
                let content = crash::cut_content(&rec, &region, &lens);
                t.cut_states += 1;
                t.crash_states += 1;
                t.in_flight_states += 1;
                let ctx = json!({"workload": workload, "prelude": prelude, "start_idx": start_idx, "backend": backend,
                                 "cut": {"op": region.op, "chains": region.chains.iter().map(|(n, v)| (n.clone(), v.len())).collect::<Vec<_>>(), "written": lens},
                                 "in_flight": exp.in_flight});
                check_crash_state(&content, &exp, backend, false, shared, &mut t, &ctx).await;
                if t.sample.is_none() {
                    t.sample = Some(json!({"workload": format!("{workload:?}"), "backend": format!("{backend:?}"), "cut_of_operation": region.op,
                        "index_chains_and_lengths": region.chains.iter().map(|(n, v)| (n.clone(), v.len())).collect::<Vec<_>>(), "writes_landed_per_chain": lens}));
                }
            }
        }
    });
    t
}

fn replay(run: &mut Run, ctx: &serde_json::Value, property: &str) {
    let workload: Vec<Op> = serde_json::from_value(ctx["workload"].clone()).expect("workload");
    let start_idx: Idx = serde_json::from_value(ctx["start_idx"].clone()).expect("idx");
    let backend: Backend = serde_json::from_value(ctx["backend"].clone()).expect("backend");
    let shared = Shared { seen: Mutex::new(HashSet::new()) };
    let mut t = Tally::default();
    let prelude: Vec<Op> = ctx.get("prelude").and_then(|v| serde_json::from_value(v.clone()).ok()).unwrap_or_default();
    vdb::fixture::set_config_variant(ctx.get("config").and_then(|v| v.as_u64()).unwrap_or(0) as u8);
    if let Some(cut) = ctx.get("cut") {
        let op = cut["op"].as_u64().unwrap() as usize;
        let lens: Vec<usize> = serde_json::from_value(cut["written"].clone()).expect("written");
        NESTED.with(|n| n.set(true));
        let t = run_cuts(&prelude, &workload, start_idx, backend, None, Some((op, lens)), &shared);
        run.add("evaluations", t.recoveries);
        for (sig, msg, c) in t.problems {
            run.violation(Violation { signature: format!("{property}|crash|{sig}"), summary: msg, replay: c });
        }
        return;
    }
    util::block_on(async {
        if let Some(i) = ctx.get("ambiguous_failure_at_mutation").and_then(|v| v.as_u64()) {
            if ctx.get("fault_answer").and_then(|v| v.as_str()) == Some("ErrBefore") {
                crash::FAULT_ANSWER.with(|a| a.set(vcore::ctlstore::Answer::ErrBefore));
            }
            let frec = crash::record_with_prelude(&prelude, &workload, start_idx, backend, Some(i)).await;
            let exp = crash::expectation_after_fault(&frec, frec.prelude_attempts + i);
            check_crash_state(&frec.final_content, &exp, backend, false, &shared, &mut t, ctx).await;
        } else {
            let k = ctx["crash_after_mutation"].as_u64().unwrap() as usize;
            let rec = crash::record_with_prelude(&prelude, &workload, start_idx, backend, None).await;
            let content = crash::content_at(&rec.journal, k);
            let exp = crash::expectation_at(&rec, k);
            check_crash_state(&content, &exp, backend, false, &shared, &mut t, ctx).await;
        }
    });
    run.add("evaluations", t.recoveries);
    for (sig, msg, c) in t.problems {
        run.violation(Violation { signature: format!("{property}|crash|{sig}"), summary: msg, replay: c });
    }
}

fn alphabet_c04() -> Vec<Op> {
    vec![
        Op::Add(0),
        Op::Add(2),        // contests name n0
        Op::Update(2, 6),  // name := n0
        Op::Remove(1),     // releases n0 / x / (10,1)
        Op::Flush,
        Op::Add(4),        // contests code x and tuple (10,1)
        Op::Update(1, 13), // releases code x
        Op::Update(2, 12), // codes := [q, x]
        Op::Update(1, 0),  // releases the tuple
        Op::Reopen,
    ]
}

fn main() {
    let pre: Vec<String> = std::env::args().collect();
    let property = pre
        .iter()
        .position(|a| a == "--property")
        .and_then(|i| pre.get(i + 1).cloned())
        .unwrap_or_else(|| "C01".to_string());
    let mut run = Run::from_args(&property, "crash", "fault_enumeration");
    if let Some(file) = run.replay_file.clone() {
        let v: serde_json::Value = serde_json::from_slice(&std::fs::read(&file).expect("read")).expect("json");
        replay(&mut run, &v["replay"], &property);
        run.finish();
    }
    let c04 = property == "C04";
    let ops = if c04 { alphabet_c04() } else { alphabet() };
    if run.tier == vcore::Tier::Thorough {
        // SAFETY: single-threaded at this point
        unsafe { std::env::set_var("VERIF_C01_NESTED_SECOND_REOPEN", "1") };
    }
    let deadline = Instant::now() + Duration::from_secs_f64(run.budget_s);
    let threads = util::n_threads();
    let shared = Shared { seen: Mutex::new(HashSet::new()) };
    let starts = [if c04 { Idx { age_opt: true, opt_opt2: true, emb: false, ..Idx::ALL } } else { Idx::ALL }];
    // (backend, depth, alphabet size, nested crashes during recovery)
    let plan: Vec<(Backend, usize, usize, bool)> = if c04 {
        run.tier.pick(
            vec![(Backend::Mem, 1, 10, true), (Backend::Mem, 2, 10, true), (Backend::Mem, 3, 9, true)],
            vec![(Backend::Mem, 1, 10, true), (Backend::Mem, 2, 10, true), (Backend::Mem, 3, 10, true), (Backend::Meta, 2, 10, true), (Backend::Enc, 2, 10, true), (Backend::Mem, 4, 8, true)],
        )
    } else {
        run.tier.pick(
            vec![
                (Backend::Mem, 1, 18, true),
                (Backend::Mem, 2, 18, true),
                (Backend::Mem, 3, 9, true),
                (Backend::Meta, 1, 18, false),
                (Backend::Enc, 1, 18, false),
            ],
            vec![
                (Backend::Mem, 1, 18, true),
                (Backend::Meta, 1, 18, true),
                (Backend::Enc, 1, 18, true),
                (Backend::Mem, 2, 18, true),
                (Backend::Meta, 2, 18, true),
                (Backend::Enc, 2, 18, true),
                (Backend::Mem, 3, 18, true),
                (Backend::Meta, 3, 9, true),
                (Backend::Enc, 3, 9, true),
                (Backend::Mem, 4, 10, true),
            ],
        )
    };
    let mut completed: Vec<String> = Vec::new();
    'outer: for (backend, depth, asize, nested_on) in plan {
        {
            let backend = &backend;
            let alpha: Vec<Op> = ops[..asize.min(ops.len())].to_vec();
            let total = (alpha.len() as u64).pow(depth as u32);
            let mut items: Vec<Vec<Op>> = Vec::new();
            for n in 0..total {
                let mut hist = Vec::with_capacity(depth);
                let mut x = n;
                for _ in 0..depth {
                    hist.push(alpha[(x % alpha.len() as u64) as usize].clone());
                    x /= alpha.len() as u64;
                }
                hist.reverse();
                items.push(hist);
            }
            // quick: ambiguous failures for every workload at depth <= 2 and, at depth 3,
            // for the workloads over the 6-operation core {add, add, flush, update, remove, update}
            let quick = run.tier == vcore::Tier::Quick;
            let faults_all = depth <= run.tier.pick(2, 3);
            let tallies = util::par_map(items, threads, |w| {
                if Instant::now() > deadline {
                    return None;
                }
                let core6 = quick && depth == 3 && w.iter().all(|o| ops[..6].contains(o));
                let creation = depth == 1 && w == vec![ops[0].clone()];
                NESTED.with(|n| n.set(nested_on));
                let t = run_workload(&[], &w, starts[0], *backend, faults_all || core6, creation, &shared);
                Some(t)
            });
            let mut finished = 0u64;
            for t in tallies.into_iter().flatten() {
                finished += 1;
                run.add("workloads", 1);
                run.add("crash_states", t.crash_states);
                run.add("evaluations", t.recoveries);
                run.add("nontrivial_states", t.nontrivial);
                run.add("nested_crash_states", t.nested);
                run.add("dedup_hits", t.dedup_hits);
                run.add("remedy_used", t.remedy_used);
                run.add("in_flight_crash_states", t.in_flight_states);
                run.add("ambiguous_failure_runs", t.fault_runs);
                if let Some(s) = t.sample {
                    run.sample(s);
                }
                for (sig, msg, ctx) in t.problems {
                    run.violation(Violation { signature: format!("{property}|crash|{sig}"), summary: format!("{msg} [{}]", ctx), replay: ctx });
                }
            }
            if finished < total {
                run.cap_hit(&format!("time budget inside backend {backend:?} depth {depth}: {finished}/{total} workloads"));
                break 'outer;
            }
            completed.push(format!("{backend:?}:depth{depth}:alphabet{}:nested={nested_on}", alpha.len()));
            if run.violation_count() > 0 {
                break 'outer;
            }
        }
    }
    // ---- other start states (the prelude is acknowledged history, its crash points are not enumerated):
    //  "flushed2": two flushed documents holding the contested values, so that release + re-acquire
    //              of a checkpointed unique value needs only two more operations;
    //  "bulk64":   64 flushed documents, so that ids cross the allocation-watermark stride.
    let mut start_states: Vec<(&str, Vec<Op>, Vec<Op>, usize)> = Vec::new();
    {
        let f2_ops: Vec<Op> = if c04 {
            // (Remove(2) then Update(1, 1): a unique value moves from the HIGHER id to the lower one;
            //  Remove(1) then Update(2, 6): from the lower to the higher)
            vec![Op::Remove(1), Op::Add(2), Op::Update(1, 1), Op::Update(2, 6), Op::Update(1, 13), Op::Add(4), Op::Update(2, 12), Op::Flush, Op::Update(1, 0), Op::Remove(2)]
        } else {
            vec![Op::Remove(1), Op::Add(2), Op::Update(1, 0), Op::Update(2, 8), Op::Flush, Op::Remove(2), Op::Add(3), Op::Update(1, 5), Op::SaveExt(1), Op::RemoveExt]
        };
        start_states.push(("flushed2", vec![Op::Add(0), Op::Add(1), Op::Flush], f2_ops, run.tier.pick(2, 3)));
        if !c04 {
            start_states.push((
                "bulk64",
                bulk_prelude(),
                vec![Op::Add(0), Op::Add(1), Op::Flush, Op::Update(65, 0), Op::Remove(65), Op::Remove(1), Op::Update(1, 0), Op::Reopen],
                run.tier.pick(1, 3),
            ));
        }
    }
    if !c04 {
        // an open callback that creates one index and removes another, from a state where the
        // index to create is absent (documents flushed, index dropped by an earlier clean reopen)
        start_states.push((
            "noemb",
            vec![Op::Add(0), Op::Add(1), Op::Flush, Op::ReopenWith(IdxDelta::DropEmb)],
            vec![Op::ReopenWith(IdxDelta::AddEmbDropTags), Op::Update(1, 7), Op::Add(3), Op::Flush, Op::Reopen, Op::ReopenWith(IdxDelta::AddEmb)],
            run.tier.pick(2, 3),
        ));
        start_states.push((
            "notags",
            vec![Op::Add(0), Op::Add(1), Op::Flush, Op::ReopenWith(IdxDelta::DropTags)],
            vec![Op::ReopenWith(IdxDelta::AddTagsDropBody), Op::Update(1, 4), Op::Add(3), Op::Flush, Op::Reopen, Op::ReopenWith(IdxDelta::AddTags)],
            run.tier.pick(2, 3),
        ));
        start_states.push((
            "nobody",
            vec![Op::Add(0), Op::Add(1), Op::Flush, Op::ReopenWith(IdxDelta::DropBody)],
            vec![Op::ReopenWith(IdxDelta::AddBodyDropName), Op::Update(1, 5), Op::Add(3), Op::Flush, Op::Reopen, Op::Remove(2)],
            run.tier.pick(2, 3),
        ));
    }
    let run_thorough = run.tier == vcore::Tier::Thorough;
    for (sname, prelude, bulk_ops, max_d) in start_states {
        if run.violation_count() > 0 || Instant::now() >= deadline {
            break;
        }
        for depth in 1..=max_d {
          // the side-car backends (two raw objects per logical object, own commit
          // order inside one put / delete) see the checkpointed start state too
          let backends: Vec<Backend> = if sname == "flushed2" && depth <= 2 {
              vec![Backend::Mem, Backend::Meta, Backend::Enc]
          } else {
              vec![Backend::Mem]
          };
          for backend in backends {
            let backend = &backend;
            let total = (bulk_ops.len() as u64).pow(depth as u32);
            let mut items: Vec<Vec<Op>> = Vec::new();
            for n in 0..total {
                let mut hist = Vec::with_capacity(depth);
                let mut x = n;
                for _ in 0..depth {
                    hist.push(bulk_ops[(x % bulk_ops.len() as u64) as usize].clone());
                    x /= bulk_ops.len() as u64;
                }
                hist.reverse();
                items.push(hist);
            }
            let tallies = util::par_map(items, threads, |w| {
                if Instant::now() > deadline {
                    return None;
                }
                // nested crashes inside the recovery: always on the plain backend, on the side-car ones in the thorough tier
                NESTED.with(|n| n.set(matches!(backend, Backend::Mem) || run_thorough));
                Some(run_workload(&prelude, &w, starts[0], *backend, depth <= 1 && matches!(backend, Backend::Mem), false, &shared))
            });
            let mut finished = 0u64;
            for t in tallies.into_iter().flatten() {
                finished += 1;
                run.add("workloads", 1);
                run.add("bulk_start_workloads", 1);
                run.add("crash_states", t.crash_states);
                run.add("evaluations", t.recoveries);
                run.add("nontrivial_states", t.nontrivial);
                run.add("nested_crash_states", t.nested);
                run.add("dedup_hits", t.dedup_hits);
                run.add("in_flight_crash_states", t.in_flight_states);
                run.add("ambiguous_failure_runs", t.fault_runs);
                for (sig, msg, ctx) in t.problems {
                    run.violation(Violation { signature: format!("{property}|crash|{sig}"), summary: format!("{msg} [{}]", ctx), replay: ctx });
                }
            }
            if finished < total {
                run.cap_hit(&format!("time budget inside the start-state pass {sname} ({backend:?}) at depth {depth}: {finished}/{total} workloads"));
                break;
            }
            completed.push(format!("start-state {sname}:{backend:?}:depth{depth}:alphabet{}", bulk_ops.len()));
          }
        }
    }

    // ---- cut pass: downward-closed cuts of the concurrent index flushes of one collection flush
    if !c04 && run.violation_count() == 0 && Instant::now() < deadline {
        let small = Idx { name: true, age: true, body: true, emb: true, ..Idx::NONE };
        let btrees = Idx { name: true, age: true, codes: true, tags: true, ..Idx::NONE };
        let f2: Vec<Op> = vec![Op::Add(0), Op::Add(1), Op::Flush];
        // (label, index set, prelude, workload, backend, max strictly-partial chains, nested crashes in recovery)
        let mut plan: Vec<(&str, Idx, Vec<Op>, Vec<Op>, Backend, Option<usize>, bool)> = vec![
            ("small/first-flush", small, vec![], vec![Op::Add(0), Op::Add(1), Op::Flush], Backend::Mem, None, false),
            ("small/update", small, f2.clone(), vec![Op::Update(1, 0), Op::Update(1, 5), Op::Update(2, 7), Op::Flush], Backend::Mem, None, false),
            ("small/remove-add", small, f2.clone(), vec![Op::Remove(2), Op::Add(3), Op::Flush], Backend::Mem, None, false),
            ("small/close", small, f2.clone(), vec![Op::Update(1, 5), Op::Update(2, 8), Op::Reopen], Backend::Mem, None, false),
            ("btrees/first-flush", btrees, vec![], vec![Op::Add(0), Op::Add(1), Op::Flush], Backend::Mem, None, false),
            ("btrees/update", btrees, f2.clone(), vec![Op::Update(1, 13), Op::Update(2, 8), Op::Flush], Backend::Mem, None, false),
            ("all/first-flush", Idx::ALL, vec![], vec![Op::Add(0), Op::Add(1), Op::Flush], Backend::Mem, Some(1), false),
        ];
        if run_thorough {
            for p in plan.iter_mut() {
                p.6 = true;
            }
            plan.push(("all/update", Idx::ALL, f2.clone(), vec![Op::Update(1, 5), Op::Remove(2), Op::Add(3), Op::Flush], Backend::Mem, Some(2), false));
            plan.push(("all/first-flush-2", Idx::ALL, vec![], vec![Op::Add(0), Op::Add(1), Op::Flush], Backend::Mem, Some(2), false));
            plan.push(("all/first-flush-3", Idx::ALL, vec![], vec![Op::Add(0), Op::Add(1), Op::Flush], Backend::Mem, Some(3), false));
            let pair = Idx { name: true, body: true, ..Idx::NONE };
            let pair2 = Idx { age: true, emb: true, ..Idx::NONE };
            for b in [Backend::Meta, Backend::Enc] {
                plan.push(("pair/first-flush", pair, vec![], vec![Op::Add(0), Op::Add(1), Op::Flush], b, None, false));
                plan.push(("pair/update", pair, f2.clone(), vec![Op::Update(1, 5), Op::Flush], b, None, false));
                plan.push(("pair2/first-flush", pair2, vec![], vec![Op::Add(0), Op::Add(1), Op::Flush], b, None, false));
                plan.push(("pair2/remove", pair2, f2.clone(), vec![Op::Remove(1), Op::Flush], b, None, false));
            }
            // every depth-2 workload over the flushed2 alphabet followed by a flush, small index set
            let alpha = [Op::Remove(1), Op::Add(2), Op::Update(1, 0), Op::Update(2, 8), Op::Remove(2), Op::Add(3), Op::Update(1, 5), Op::SaveExt(1)];
            for a in &alpha {
                for b in &alpha {
                    plan.push(("small/depth2", small, f2.clone(), vec![a.clone(), b.clone(), Op::Flush], Backend::Mem, None, false));
                }
            }
        }
        let tallies = util::par_map(plan.clone(), threads, |(label, idx, prelude, w, backend, maxp, nested_on)| {
            if Instant::now() > deadline {
                return None;
            }
            NESTED.with(|n| n.set(nested_on));
            Some((label, run_cuts(&prelude, &w, idx, backend, maxp, None, &shared)))
        });
        let mut finished = 0usize;
        let mut per_workload: Vec<String> = Vec::new();
        for (label, t) in tallies.into_iter().flatten() {
            finished += 1;
            per_workload.push(format!("{label}: {} region(s), {} cut states", t.cut_regions, t.cut_states));
            run.add("cut_workloads", 1);
            run.add("cut_regions", t.cut_regions);
            run.add("cut_crash_states", t.cut_states);
            run.add("crash_states", t.crash_states);
            run.add("evaluations", t.recoveries);
            run.add("nontrivial_states", t.nontrivial);
            run.add("nested_crash_states", t.nested);
            run.add("dedup_hits", t.dedup_hits);
            run.add("in_flight_crash_states", t.in_flight_states);
            if let Some(s) = t.sample
                && run.get("cut_samples") < 2
            {
                run.add("cut_samples", 1);
                run.sample(s);
            }
            for (sig, msg, ctx) in t.problems {
                run.violation(Violation { signature: format!("{property}|crash|cut|{sig}"), summary: format!("{msg} [{}]", ctx), replay: ctx });
            }
        }
        run.set("cut_pass_per_workload", json!(per_workload));
        if finished < plan.len() {
            run.cap_hit(&format!("time budget inside the cut pass: {finished}/{} cut workloads", plan.len()));
        } else {
            completed.push(format!("cut pass: {} workloads", plan.len()));
        }
        if run.get("cut_crash_states") == 0 {
            vcore::report::machinery("cut pass enumerated no state: the index-write regions were not recognised");
        }
    }
    // ---- storage configuration variants: compression on, cache disabled / tiny byte-bounded cache
    if !c04 && run.violation_count() == 0 && Instant::now() < deadline {
        let f2: Vec<Op> = vec![Op::Add(0), Op::Add(1), Op::Flush];
        let mut items: Vec<(u8, Vec<Op>, Vec<Op>)> = Vec::new();
        for variant in [1u8, 2] {
            for op in &ops {
                items.push((variant, vec![], vec![op.clone()]));
            }
            for op in [Op::Remove(1), Op::Add(2), Op::Update(1, 0), Op::Update(2, 8), Op::Flush, Op::Remove(2), Op::Add(3), Op::Update(1, 5), Op::SaveExt(1), Op::CompactBtree, Op::CompactBm25, Op::Reopen] {
                items.push((variant, f2.clone(), vec![op.clone()]));
                if run_thorough {
                    items.push((variant, f2.clone(), vec![op, Op::Flush]));
                }
            }
        }
        let total = items.len();
        // crash states are deduplicated by store content: compressed objects differ from the
        // uncompressed ones, so these are new states, but keep the variants apart from the main set
        let vshared = Shared { seen: Mutex::new(HashSet::new()) };
        let tallies = util::par_map(items, threads, |(variant, prelude, w)| {
            if Instant::now() > deadline {
                return None;
            }
            NESTED.with(|n| n.set(true));
            vdb::fixture::set_config_variant(variant);
            let t = run_workload(&prelude, &w, starts[0], Backend::Mem, true, false, &vshared);
            vdb::fixture::set_config_variant(0);
            Some((variant, t))
        });
        let mut finished = 0usize;
        for (variant, t) in tallies.into_iter().flatten() {
            finished += 1;
            run.add("config_variant_workloads", 1);
            run.add("crash_states", t.crash_states);
            run.add("evaluations", t.recoveries);
            run.add("nontrivial_states", t.nontrivial);
            run.add("nested_crash_states", t.nested);
            run.add("in_flight_crash_states", t.in_flight_states);
            run.add("ambiguous_failure_runs", t.fault_runs);
            for (sig, msg, mut ctx) in t.problems {
                ctx["config"] = json!(variant);
                run.violation(Violation { signature: format!("{property}|crash|config{variant}|{sig}"), summary: format!("storage configuration variant {variant}: {msg} [{}]", ctx), replay: ctx });
            }
        }
        if finished < total {
            run.cap_hit(&format!("time budget inside the configuration-variant pass: {finished}/{total} workloads"));
        } else {
            completed.push(format!("storage configuration variants 1 and 2: {total} workloads"));
        }
    }
    let distinct = shared.seen.lock().len() as u64;
    run.set("distinct_crash_states_recovered", json!(distinct));
    let nt = run.get("nontrivial_states");
    run.set("distinct_nontrivial", json!(nt));
    run.set("completed", json!(completed));
    run.rule("workloads = every op sequence to the depth bound over the alphabet {add, rejected add, update, remove, flush, save_extension, compact, clean reopen, index create/remove via reopen}; for each: every journal prefix k (crash after the k-th backend mutation) -> recover -> acknowledgement model + full index comparison + continuation (add, flush, clean reopen) -> every strict prefix of the recovery's own mutations -> recover again; plus one failed backend mutation - both answers: the write landed but an error was returned, and nothing landed and an error was returned - at every mutation of every workload up to the stated depth, with the workload continuing on the same handle; recoveries are deduplicated by (store content, expectation, backend), so every evaluation is a distinct crash state; non-trivial = the acknowledgement model holds at least one document (i.e. not a crash inside collection creation); cut pass: for the flush-bearing operations of a fixed list of workloads, every vector of per-index-chain write-prefix lengths that is not itself a journal prefix (full product for index sets of <= 4 chains; for the full 8-chain fixture at most 2 (thorough: 3) chains strictly partial, the others untouched or complete)");
    run.assume("storage configuration: compression off and the default cache for the enumerated workloads; every depth-1 workload from the empty and from the flushed2 start state again with zstd level 3 + cache disabled and with zstd level 1 + a 300-byte cache; crash model: each backend mutation is atomic, a sequence stops anywhere (the repo's own FaultStore model); the index flushes joined inside one collection flush write only below their own directories and are mutually independent, so a crash state of that phase is any combination of per-index prefixes of the journalled per-index write order (cut pass); the order of writes INSIDE one index flush is the one the deterministic executor produces (bucket-put subsets inside one index flush are enumerated by C10/C11/C12 crash parts)");
    run.finish();
}

//! C02 / readfault part: index (re)construction under read faults.
//!
//! Index backfill (an index created through the open callback over existing
//! documents) and the recovery replay of a reopen READ the stored documents.
//! A transient object-store error on one of those reads must never yield a
//! handle that reports success with an index that misses a document.
//!
//! For every prepared store image (a handful of documents; cleanly closed, or
//! the raw content of a process that was killed after acknowledged but
//! unflushed updates / removes) and every reopen subject (plain reopen, and a
//! reopen whose callback creates one of the name / tags / codes / body / emb
//! indexes over the existing documents) the reopen is first run fault-free to
//! count its object-store calls C (reads AND writes); then, for EVERY k < C,
//! the image is restored and call k fails once before it takes effect. A
//! failed open is retried (fresh connect + open over the same store) and must
//! succeed on the retry; whichever attempt reports success must satisfy the
//! full C02 comparison (every index answer re-derived from the documents), and
//! so must a clean second reopen after a flush.

use anda_db::error::DBError;
use serde_json::json;
use std::sync::Arc;
use vcore::ctlstore::{self, Content, CtlStore};
use vcore::{Run, Violation, util};
use vdb::fixture::{self, Idx};
use vdb::model::DocModel;
use vdb::ops::{Fixture, Op, SeqModel};
use vdb::oracle::full_compare;

#[derive(Clone)]
struct Image {
    name: String,
    content: Content,
    model: DocModel,
    had: Idx,
    /// ids of acknowledged adds that no flush has registered yet: the reopen
    /// finds them with its repair scan, which by documented design logs and
    /// SKIPS a document whose probe read fails (`reconcile_storage` is the
    /// backstop). Such a document may be invisible after a faulted reopen;
    /// every other document may not.
    soft: std::collections::BTreeSet<u64>,
}

fn env(start: u64) {
    anda_db_utils::verif::set_clock(Some((start, 1)));
    anda_db_utils::verif::set_random_seed(Some(7));
}

/// Runs `hist` on a fresh store with the indexes `had`; returns the image
/// after a clean close (`closed = true`) or the raw content at that instant.
fn prepare(name: &str, had: Idx, hist: &[Op], closed: bool) -> Result<Image, String> {
    env(1_700_000_000_000);
    util::block_on(async {
        let (cs, _ctl) = CtlStore::new();
        let store: Arc<dyn object_store::ObjectStore> = cs.clone();
        let mut fx = Fixture::open(store, had).await.map_err(|e| format!("prepare {name}: open: {e:?}"))?;
        let mut model = SeqModel::default();
        let mut soft = std::collections::BTreeSet::new();
        for op in hist {
            let exp = model.expect(op, fx.idx);
            let out = fx.exec_any(op).await;
            if let Some(p) = model.check_outcome(op, &exp, &out) {
                return Err(format!("prepare {name}: {op:?}: {p}"));
            }
            model.apply(op, &out);
            match (op, &out) {
                (Op::Flush, _) => soft.clear(),
                (Op::Add(_) | Op::AddSparse(_), vdb::ops::Outcome::Id(id)) => {
                    soft.insert(*id);
                }
                _ => {}
            }
        }
        if closed {
            soft.clear();
        }
        if closed {
            fx.db.close().await.map_err(|e| format!("prepare {name}: close: {e:?}"))?;
        }
        let content = ctlstore::snapshot(cs.inner());
        Ok(Image {
            name: format!("{name}/{}", if closed { "closed" } else { "killed" }),
            content,
            model: model.docs.clone(),
            had,
            soft,
        })
    })
}

struct Attempted {
    /// object-store calls the fault-free reopen made
    calls: u64,
    problems: Vec<(String, String)>,
    first_attempt_failed: bool,
    skipped: bool,
}

async fn open_once(store: Arc<dyn object_store::ObjectStore>, want: Idx, had: Idx) -> Result<Fixture, DBError> {
    let db = fixture::connect(store.clone()).await?;
    let coll = fixture::open_coll_with(&db, want, had).await?;
    Ok(Fixture { store, db, coll, idx: want })
}

/// One reopen of `img` with index set `want`; `fault` = the call index that
/// fails once.
fn attempt(img: &Image, want: Idx, fault: Option<u64>) -> Attempted {
    env(1_800_000_000_000);
    util::block_on(async {
        let inner = ctlstore::restore(&img.content);
        let (cs, ctl) = CtlStore::over(inner);
        let store: Arc<dyn object_store::ObjectStore> = cs.clone();
        if let Some(k) = fault {
            ctl.fail_call(k);
        }
        let debug = std::env::var("VERIF_DEBUG_CALLS").is_ok();
        if debug {
            ctl.keep_labels(true);
        }
        let mut problems = Vec::new();
        let mut first_attempt_failed = false;
        let mut fx = match open_once(store.clone(), want, img.had).await {
            Ok(fx) => fx,
            Err(e1) => {
                first_attempt_failed = true;
                // the fault was one-shot: a fresh connect + open must now succeed
                // (the callback creates what is still missing, removes nothing)
                match open_once(store.clone(), want, img.had).await {
                    Ok(fx) => fx,
                    Err(e2) => {
                        problems.push((
                            "retry-failed".to_string(),
                            format!("the open failed with the injected fault ({e1:?}) and the fault-free retry failed too: {e2:?}"),
                        ));
                        return Attempted {
                            calls: ctl.calls(),
                            problems,
                            first_attempt_failed,
                            skipped: false,
                        };
                    }
                }
            }
        };
        let calls = ctl.calls();
        if debug {
            for (i, l) in ctl.labels().iter().enumerate() {
                eprintln!("call {i}: {} {}", l.op, l.path);
            }
        }
        let probe = img.model.docs.keys().max().copied().unwrap_or(0) + 3;
        // documented tolerance of the repair scan (see `Image::soft`)
        let mut visible = img.model.clone();
        let mut skipped = Vec::new();
        if fault.is_some() {
            for id in &img.soft {
                if !fx.coll.contains(*id) {
                    visible.docs.remove(id);
                    skipped.push(*id);
                }
            }
        }
        let bad = full_compare(&fx.coll, &visible, want, probe).await;
        if !bad.is_empty() {
            problems.push((
                format!("opened|{}", bad[0].split_whitespace().take(2).collect::<Vec<_>>().join("-")),
                format!(
                    "the open that reported success ({}) disagrees with the stored documents: {}",
                    if first_attempt_failed { "retry after the faulted attempt" } else { "first attempt, fault absorbed" },
                    bad.join("; ")
                ),
            ));
        }
        if !skipped.is_empty() {
            // the documented backstop brings the skipped document back, indexed
            match fx.coll.reconcile_storage().await {
                Ok(_) => {
                    let bad = full_compare(&fx.coll, &img.model, want, probe).await;
                    if !bad.is_empty() {
                        problems.push((
                            format!("reconciled|{}", bad[0].split_whitespace().take(2).collect::<Vec<_>>().join("-")),
                            format!("documents {skipped:?} were skipped by the faulted repair scan; after reconcile_storage the handle still disagrees with the stored documents: {}", bad.join("; ")),
                        ));
                    }
                }
                Err(e) => problems.push(("reconcile-failed".into(), format!("reconcile_storage after a skipped repair probe failed: {e:?}"))),
            }
        }
        // what that handle makes durable
        match fx.exec_any(&Op::Flush).await.is_ok() {
            true => {}
            false => problems.push(("flush-after-open".into(), "flush on the reopened handle failed".into())),
        }
        let out = fx.exec_any(&Op::Reopen).await;
        if !out.is_ok() {
            problems.push(("second-reopen".into(), format!("clean reopen after the recovered open failed: {}", out.short())));
        } else {
            let bad = full_compare(&fx.coll, &img.model, want, probe).await;
            if !bad.is_empty() {
                problems.push((
                    format!("reopened|{}", bad[0].split_whitespace().take(2).collect::<Vec<_>>().join("-")),
                    format!("after flush + clean reopen the handle disagrees with the stored documents: {}", bad.join("; ")),
                ));
            }
        }
        Attempted {
            calls,
            problems,
            first_attempt_failed,
            skipped: !skipped.is_empty(),
        }
    })
}

fn subjects(had: Idx) -> Vec<(&'static str, Idx)> {
    let mut v = vec![("reopen", had)];
    if !had.name {
        v.push(("create-name", Idx { name: true, ..had }));
    }
    if !had.tags {
        v.push(("create-tags", Idx { tags: true, ..had }));
    }
    if !had.codes {
        v.push(("create-codes", Idx { codes: true, ..had }));
    }
    if !had.body {
        v.push(("create-body", Idx { body: true, ..had }));
    }
    if !had.emb {
        v.push(("create-emb", Idx { emb: true, ..had }));
    }
    if !had.age {
        v.push(("create-age", Idx { age: true, ..had }));
    }
    v
}

fn main() {
    let mut run = Run::from_args("C02", "readfault", "model_checking");
    let thorough = run.tier == vcore::Tier::Thorough;
    let bare = Idx {
        name: false,
        tags: false,
        codes: false,
        body: false,
        emb: false,
        age: false,
        ..Idx::ALL
    };
    // no two documents share a unique value: the unique indexes can be created over them
    let adds = vec![Op::Add(0), Op::Add(1), Op::Add(3), Op::Add(6)];
    let mut residue = adds.clone();
    residue.push(Op::Flush);
    residue.extend([Op::Update(1, 0), Op::Update(2, 1), Op::Remove(3), Op::Add(7)]);
    // one recovery arm at a time: the only residue is a crashed remove / a crashed update
    // (a recovery that also re-indexes another document can mask what one arm forgets)
    let mut remove_only = adds.clone();
    remove_only.extend([Op::Flush, Op::Remove(3)]);
    let mut update_only = adds.clone();
    update_only.extend([Op::Flush, Op::Update(1, 0)]);
    // a unique value handed over inside one unflushed window: its checkpointed holder is
    // removed and a new document takes the value; recovery must retire the old posting
    // before it re-indexes the new document
    let mut handover = adds.clone();
    handover.extend([Op::Flush, Op::Remove(1), Op::Add(2)]);
    let mut plans: Vec<(&str, Idx, Vec<Op>, bool)> = vec![
        ("handover/all", Idx::ALL, handover, false),
        ("remove-only/all", Idx::ALL, remove_only, false),
        ("update-only/all", Idx::ALL, update_only, false),
        ("adds/bare", bare, adds.clone(), true),
        ("adds/all", Idx::ALL, adds.clone(), true),
        ("residue/bare", bare, residue.clone(), false),
        ("residue/all", Idx::ALL, residue.clone(), false),
    ];
    if thorough {
        let mut more = residue.clone();
        more.extend([Op::Add(100), Op::Update(5, 3), Op::Remove(1)]);
        plans.push(("adds/bare-killed", bare, adds.clone(), false));
        plans.push(("residue/bare-closed", bare, residue.clone(), true));
        plans.push(("more/bare", bare, more.clone(), false));
        plans.push(("more/all", Idx::ALL, more, false));
    }
    let mut images = Vec::new();
    for (name, had, hist, closed) in &plans {
        match prepare(name, *had, hist, *closed) {
            Ok(i) => images.push(i),
            Err(e) => vcore::report::machinery(&e),
        }
    }

    if let Some(file) = run.replay_file.clone() {
        let v: serde_json::Value = serde_json::from_slice(&std::fs::read(&file).expect("read")).expect("json");
        let r = &v["replay"];
        let iname = r["image"].as_str().unwrap_or("");
        let sname = r["subject"].as_str().unwrap_or("");
        let k = r["fail_call"].as_u64();
        let Some(img) = images.iter().find(|i| i.name == iname) else {
            vcore::report::machinery(&format!("replay: unknown image {iname:?} (thorough-only images need --tier thorough)"));
        };
        let Some((_, want)) = subjects(img.had).into_iter().find(|(n, _)| *n == sname) else {
            vcore::report::machinery(&format!("replay: unknown subject {sname:?}"));
        };
        let a = attempt(img, want, k);
        run.add("evaluations", 1);
        for (sig, msg) in a.problems {
            run.violation(Violation {
                signature: format!("C02|readfault|{sname}|{sig}"),
                summary: format!("image {iname}, subject {sname}, failing call {k:?}: {msg}"),
                replay: r.clone(),
            });
        }
        run.finish();
    }

    let mut cases: Vec<(usize, &'static str, Idx, u64)> = Vec::new();
    for (ii, img) in images.iter().enumerate() {
        for (sname, want) in subjects(img.had) {
            let base = attempt(img, want, None);
            if !base.problems.is_empty() {
                for (sig, msg) in base.problems {
                    run.violation(Violation {
                        signature: format!("C02|readfault|{sname}|fault-free|{sig}"),
                        summary: format!("image {}, subject {sname}, no fault: {msg}", img.name),
                        replay: json!({"image": img.name, "subject": sname, "fail_call": null}),
                    });
                }
                continue;
            }
            run.add("subjects", 1);
            run.add("calls_of_fault_free_reopens", base.calls);
            for k in 0..base.calls {
                cases.push((ii, sname, want, k));
            }
        }
    }
    let total = cases.len();
    let deadline = std::time::Instant::now() + std::time::Duration::from_secs_f64(run.remaining_s().max(1.0));
    let images_ref = &images;
    let results = util::par_map(cases, util::n_threads(), |(ii, sname, want, k)| {
        if std::time::Instant::now() > deadline {
            return None;
        }
        let a = attempt(&images_ref[ii], want, Some(k));
        Some((ii, sname, k, a))
    });
    let mut done = 0u64;
    for r in results {
        let Some((ii, sname, k, a)) = r else { continue };
        done += 1;
        run.add("evaluations", 1);
        run.add("traces_validated_against_impl", 1);
        if a.skipped {
            run.add("repair_probes_skipped_then_reconciled", 1);
        }
        if a.first_attempt_failed {
            run.add("faults_that_failed_the_open", 1);
        } else {
            run.add("faults_absorbed_by_the_open", 1);
        }
        run.distinct(util::fnv64(format!("{}|{sname}|{}|{:?}", images[ii].name, a.first_attempt_failed, a.problems.first().map(|p| &p.0)).as_bytes()));
        for (sig, msg) in a.problems {
            run.violation(Violation {
                signature: format!("C02|readfault|{sname}|{sig}"),
                summary: format!("image {}, subject {sname}, failing call {k}: {msg}", images[ii].name),
                replay: json!({"image": images[ii].name, "subject": sname, "fail_call": k}),
            });
        }
    }
    if (done as usize) < total {
        run.cap_hit(&format!("time budget: {done}/{total} single-fault reopens"));
    }
    run.set("images", json!(images.iter().map(|i| format!("{} ({} documents)", i.name, i.model.docs.len())).collect::<Vec<_>>()));
    run.rule(
        "for every prepared store image (4..7 documents; cleanly closed, or the raw content of a killed process holding \
         acknowledged unflushed updates/removes/adds) x every reopen subject (plain reopen; reopen whose callback creates the \
         name / tags / codes / body / emb / age index over the existing documents) x EVERY object-store call k of the \
         fault-free reopen (reads and writes): call k fails once before taking effect; a failed open is retried once \
         fault-free and must succeed; the attempt that reports success must pass the full index<->document comparison, and \
         so must a clean reopen after a flush",
    );
    run.assume("documented tolerance: the repair scan of a reopen logs and skips an unflushed acknowledged add whose probe read fails (collection.rs auto_repair_indexes; reconcile_storage is the stated backstop): such a document may be invisible after the faulted reopen, everything else must agree, and reconcile_storage must bring it back indexed; this tolerance applies to no other read (backfill, intent replay, index load)");
    run.assume("one fault per reopen, ErrBefore only (the call has no effect); the faults of writes inside the reopen overlap with C01's fault pass, the reads are what this part adds");
    run.assume("acknowledged sequential operations are durable in the killed images (documents are written before the acknowledgement), so the expected documents are exactly the model's");
    run.finish();
}

//! Generic stateless exploration over choice sequences with deviation
//! bounding (CHESS-style iterative context bounding, generalised: a
//! "deviation" is whatever the harness assigns a non-zero cost to —
//! a preemption, a fault answer, a cancellation).
//!
//! An execution is a function of its choice sequence. The harness calls
//! [`Chooser::choose`] at every decision point with the cost of each option
//! (option 0 is the default and must cost 0). The explorer first runs the
//! all-default execution, then, for every point of every execution and every
//! non-default option whose cumulative cost stays within the bound, the
//! execution that replays the prefix, takes that option, and defaults
//! afterwards. Levels (total cost 0, 1, 2, ...) are completed in order, so a
//! time cap yields "bound b completed".

use parking_lot::{Condvar, Mutex};
use std::time::Instant;

#[derive(Clone, Debug)]
pub struct Point {
    pub chosen: u32,
    pub costs: Vec<u8>,
}

pub struct Chooser {
    prefix: Vec<u32>,
    pub trace: Vec<Point>,
    /// Set when the prefix could not be replayed (option out of range):
    /// the execution is nondeterministic — a machinery error.
    pub diverged: Option<String>,
}

impl Chooser {
    pub fn new(prefix: Vec<u32>) -> Self {
        Chooser {
            prefix,
            trace: Vec::new(),
            diverged: None,
        }
    }

    /// Picks one of `costs.len()` options. `costs[0]` must be 0.
    pub fn choose(&mut self, costs: &[u8]) -> usize {
        assert!(!costs.is_empty(), "choose() with no options");
        debug_assert_eq!(costs[0], 0, "default option must cost 0");
        let i = self.trace.len();
        let mut c = if i < self.prefix.len() { self.prefix[i] } else { 0 };
        if c as usize >= costs.len() {
            if self.diverged.is_none() {
                self.diverged = Some(format!(
                    "replay divergence at point {i}: recorded option {c} but only {} options",
                    costs.len()
                ));
            }
            c = 0;
        }
        self.trace.push(Point {
            chosen: c,
            costs: costs.to_vec(),
        });
        c as usize
    }

    /// Convenience: a binary/ n-ary choice where every non-default option
    /// costs `cost`.
    pub fn choose_n(&mut self, n: usize, cost: u8) -> usize {
        let mut costs = vec![cost; n];
        costs[0] = 0;
        self.choose(&costs)
    }

    pub fn choices(&self) -> Vec<u32> {
        self.trace.iter().map(|p| p.chosen).collect()
    }

    pub fn in_replay(&self) -> bool {
        self.trace.len() < self.prefix.len()
    }
}

#[derive(Clone, Debug, Default)]
pub struct ExploreStats {
    pub executions: u64,
    pub max_depth: usize,
    /// Highest deviation bound whose executions were all run.
    pub completed_bound: Option<u32>,
    pub capped: bool,
    pub pending_left: u64,
    pub per_level: Vec<u64>,
}

struct Shared {
    buckets: Vec<Vec<(Vec<u32>, u32)>>,
    inflight: usize,
    executions: u64,
    level_execs: u64,
    max_depth: usize,
    stop: bool,
    capped: bool,
}

/// Explores all executions with total deviation cost <= `max_bound`.
/// `run` executes one choice sequence (on a fresh fixture) and returns a
/// result; `sink` receives `(choices, result)` serially. `sink` returns
/// `false` to stop the exploration early (e.g. first violation).
pub fn explore<R: Send>(
    max_bound: u32,
    threads: usize,
    deadline: Instant,
    max_execs: u64,
    run: impl Fn(&mut Chooser) -> R + Sync,
    sink: impl FnMut(Vec<u32>, R) -> bool + Send,
) -> ExploreStats {
    let shared = Mutex::new(Shared {
        buckets: (0..=max_bound).map(|_| Vec::new()).collect(),
        inflight: 0,
        executions: 0,
        level_execs: 0,
        max_depth: 0,
        stop: false,
        capped: false,
    });
    shared.lock().buckets[0].push((Vec::new(), 0));
    let cv = Condvar::new();
    let sink = Mutex::new(sink);
    let mut stats = ExploreStats::default();

    for level in 0..=max_bound {
        shared.lock().level_execs = 0;
        std::thread::scope(|s| {
            for _ in 0..threads.max(1) {
                s.spawn(|| {
                    loop {
                        let item = {
                            let mut g = shared.lock();
                            loop {
                                if g.stop {
                                    break None;
                                }
                                if Instant::now() >= deadline || g.executions >= max_execs {
                                    g.stop = true;
                                    g.capped = true;
                                    cv.notify_all();
                                    break None;
                                }
                                if let Some(it) = g.buckets[level as usize].pop() {
                                    g.inflight += 1;
                                    g.executions += 1;
                                    g.level_execs += 1;
                                    break Some(it);
                                }
                                if g.inflight == 0 {
                                    cv.notify_all();
                                    break None;
                                }
                                cv.wait(&mut g);
                            }
                        };
                        let Some((prefix, prefix_cost)) = item else {
                            return;
                        };
                        let plen = prefix.len();
                        let mut ch = Chooser::new(prefix);
                        let result = run(&mut ch);
                        let choices = ch.choices();
                        // successors
                        let mut succ: Vec<(Vec<u32>, u32)> = Vec::new();
                        let mut cost = prefix_cost;
                        for i in plen..ch.trace.len() {
                            let p = &ch.trace[i];
                            for alt in 1..p.costs.len() {
                                let total = cost + p.costs[alt] as u32;
                                if total <= max_bound {
                                    let mut np = choices[..i].to_vec();
                                    np.push(alt as u32);
                                    succ.push((np, total));
                                }
                            }
                            cost += p.costs[p.chosen as usize] as u32;
                        }
                        let keep_going = (sink.lock())(choices, result);
                        let mut g = shared.lock();
                        g.max_depth = g.max_depth.max(ch.trace.len());
                        // push in reverse so that the earliest deviation is popped first
                        for (np, total) in succ.into_iter().rev() {
                            g.buckets[total as usize].push((np, total));
                        }
                        g.inflight -= 1;
                        if !keep_going {
                            g.stop = true;
                        }
                        cv.notify_all();
                    }
                });
            }
        });
        let g = shared.lock();
        stats.per_level.push(g.level_execs);
        if g.stop {
            break;
        }
        stats.completed_bound = Some(level);
    }
    let g = shared.lock();
    stats.executions = g.executions;
    stats.max_depth = g.max_depth;
    stats.capped = g.capped;
    stats.pending_left = g.buckets.iter().map(|b| b.len() as u64).sum();
    stats
}

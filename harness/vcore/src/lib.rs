//! Shared machinery of the verification harness: run context / evidence /
//! known findings, the generic choice-point DFS explorer, the controllable
//! object store, the await-level (STEP) and lock-level (THREAD) schedulers.

pub mod choice;
pub mod ctlstore;
pub mod report;
pub mod step;
pub mod thread;
pub mod util;

pub use report::{Run, Tier, Violation};

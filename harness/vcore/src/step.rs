//! STEP: await-granularity cooperative scheduler for futures of the real API.
//!
//! One OS thread owns the task slots. A transition polls one enabled task
//! once; the task runs until it returns `Pending` (at a `ctlstore` gate, or
//! blocked on an async lock) or completes. Enabled = never polled, or its
//! waker fired since the last poll. The scheduling decision at every step is
//! delegated to a [`Chooser`], so the generic deviation-bounded DFS of
//! `choice.rs` enumerates the schedules.

use crate::choice::Chooser;
use std::future::Future;
use std::pin::Pin;
use std::sync::Arc;
use std::sync::atomic::{AtomicBool, Ordering};
use std::task::{Context, Poll, Wake, Waker};

struct Flag(AtomicBool);

impl Wake for Flag {
    fn wake(self: Arc<Self>) {
        self.0.store(true, Ordering::SeqCst);
    }
    fn wake_by_ref(self: &Arc<Self>) {
        self.0.store(true, Ordering::SeqCst);
    }
}

#[derive(Clone, Copy, Debug, PartialEq, Eq)]
pub enum TaskState {
    Fresh,
    Suspended,
    Done,
    Cancelled,
}

struct Slot<'a> {
    name: String,
    fut: Option<Pin<Box<dyn Future<Output = ()> + 'a>>>,
    flag: Arc<Flag>,
    waker: Waker,
    polls: u32,
    state: TaskState,
}

#[derive(Clone, Debug, PartialEq, Eq)]
pub enum RunEnd {
    AllDone,
    /// No task enabled but these are unfinished.
    Deadlock(Vec<String>),
    StepLimit,
}

pub struct Sched<'a> {
    slots: Vec<Slot<'a>>,
    pub last: Option<usize>,
    /// Sequence of task indexes polled.
    pub steps: Vec<usize>,
    /// Called with the task index right before it is polled (attribution).
    pub on_switch: Option<Box<dyn FnMut(usize) + 'a>>,
}

impl<'a> Default for Sched<'a> {
    fn default() -> Self {
        Self::new()
    }
}

impl<'a> Sched<'a> {
    pub fn new() -> Self {
        Sched {
            slots: Vec::new(),
            last: None,
            steps: Vec::new(),
            on_switch: None,
        }
    }

    pub fn spawn(&mut self, name: &str, fut: impl Future<Output = ()> + 'a) -> usize {
        let flag = Arc::new(Flag(AtomicBool::new(true)));
        let waker = Waker::from(flag.clone());
        self.slots.push(Slot {
            name: name.to_string(),
            fut: Some(Box::pin(fut)),
            flag,
            waker,
            polls: 0,
            state: TaskState::Fresh,
        });
        self.slots.len() - 1
    }

    pub fn len(&self) -> usize {
        self.slots.len()
    }

    pub fn is_empty(&self) -> bool {
        self.slots.is_empty()
    }

    pub fn state(&self, t: usize) -> TaskState {
        self.slots[t].state
    }

    pub fn polls(&self, t: usize) -> u32 {
        self.slots[t].polls
    }

    pub fn name(&self, t: usize) -> &str {
        &self.slots[t].name
    }

    pub fn is_enabled(&self, t: usize) -> bool {
        let s = &self.slots[t];
        matches!(s.state, TaskState::Fresh | TaskState::Suspended) && s.flag.0.load(Ordering::SeqCst)
    }

    /// A task that was polled, returned Pending and has not been woken: it is
    /// waiting on something another task must release.
    pub fn is_blocked(&self, t: usize) -> bool {
        let s = &self.slots[t];
        s.state == TaskState::Suspended && !s.flag.0.load(Ordering::SeqCst)
    }

    pub fn enabled(&self) -> Vec<usize> {
        (0..self.slots.len()).filter(|t| self.is_enabled(*t)).collect()
    }

    pub fn all_done(&self) -> bool {
        self.slots
            .iter()
            .all(|s| matches!(s.state, TaskState::Done | TaskState::Cancelled))
    }

    /// Polls task `t` once. Returns true if it completed.
    pub fn step(&mut self, t: usize) -> bool {
        if let Some(cb) = self.on_switch.as_mut() {
            cb(t);
        }
        let slot = &mut self.slots[t];
        assert!(slot.fut.is_some(), "step() on finished task {}", slot.name);
        slot.flag.0.store(false, Ordering::SeqCst);
        slot.polls += 1;
        let waker = slot.waker.clone();
        let mut cx = Context::from_waker(&waker);
        let r = slot.fut.as_mut().unwrap().as_mut().poll(&mut cx);
        self.steps.push(t);
        self.last = Some(t);
        match r {
            Poll::Ready(()) => {
                slot.fut = None;
                slot.state = TaskState::Done;
                true
            }
            Poll::Pending => {
                slot.state = TaskState::Suspended;
                false
            }
        }
    }

    /// Drops the future of task `t` (cancellation at its current suspension
    /// point).
    pub fn cancel(&mut self, t: usize) {
        if let Some(cb) = self.on_switch.as_mut() {
            cb(t);
        }
        let slot = &mut self.slots[t];
        slot.fut = None;
        slot.state = TaskState::Cancelled;
    }

    /// Option list for the next scheduling decision: the task that ran last
    /// first if still enabled (cost 0), then the others ascending (cost 1 when
    /// that is a preemption, 0 when the last task cannot continue).
    pub fn options(&self) -> (Vec<usize>, Vec<u8>) {
        let en = self.enabled();
        let mut opts = Vec::with_capacity(en.len());
        let mut costs = Vec::with_capacity(en.len());
        let cont = self.last.filter(|l| en.contains(l));
        if let Some(l) = cont {
            opts.push(l);
            costs.push(0);
        }
        for t in en {
            if Some(t) != cont {
                opts.push(t);
                costs.push(if cont.is_some() { 1 } else { 0 });
            }
        }
        (opts, costs)
    }

    /// Runs until every task finished, a deadlock, or `max_steps`.
    pub fn run(&mut self, chooser: &mut Chooser, max_steps: usize) -> RunEnd {
        loop {
            if self.steps.len() >= max_steps {
                return RunEnd::StepLimit;
            }
            let (opts, costs) = self.options();
            if opts.is_empty() {
                if self.all_done() {
                    return RunEnd::AllDone;
                }
                return RunEnd::Deadlock(
                    self.slots
                        .iter()
                        .filter(|s| s.state == TaskState::Suspended)
                        .map(|s| s.name.clone())
                        .collect(),
                );
            }
            let pick = if opts.len() == 1 { 0 } else { chooser.choose(&costs) };
            self.step(opts[pick]);
        }
    }

    /// Runs task `t` alone to completion (used for setup/teardown phases that
    /// are not part of the explored schedule). Panics on deadlock.
    pub fn run_to_completion(&mut self, t: usize, max_steps: usize) {
        for _ in 0..max_steps {
            if matches!(self.slots[t].state, TaskState::Done | TaskState::Cancelled) {
                return;
            }
            assert!(self.is_enabled(t), "task {} blocked while run alone", self.slots[t].name);
            self.step(t);
        }
        panic!("machinery: task {} did not finish in {max_steps} polls", self.slots[t].name);
    }
}

/// Drives one future to completion on the current thread by polling in a
/// loop (for setup phases over a gated store). Panics if it blocks without a
/// wake-up.
pub fn drive<F: Future>(f: F) -> F::Output {
    let flag = Arc::new(Flag(AtomicBool::new(true)));
    let waker = Waker::from(flag.clone());
    let mut cx = Context::from_waker(&waker);
    let mut f = std::pin::pin!(f);
    let mut polls = 0u64;
    loop {
        flag.0.store(false, Ordering::SeqCst);
        if let Poll::Ready(v) = f.as_mut().poll(&mut cx) {
            return v;
        }
        polls += 1;
        if !flag.0.load(Ordering::SeqCst) {
            panic!("machinery: drive(): future blocked with no wake-up after {polls} polls");
        }
        if polls > 10_000_000 {
            panic!("machinery: drive(): livelock");
        }
    }
}
